#!/bin/bash
# usage: ./dgcheck.sh <Cxx> quick|thorough   (cwd=/verif)
# Builds the checker from /verif sources when needed and analyses /repo's current working tree.
set -u
cd "$(dirname "$0")"
export GOFLAGS=-mod=mod GOPROXY=off GOSUMDB=off GOTOOLCHAIN=local GOWORK=off
unset GOARCH GOOS
if ! go build -o bin/dgcheck ./cmd/dgcheck 2>bin/build.err; then
  cat bin/build.err >&2
  echo "dgcheck: build failed" >&2
  exit 2
fi
exec ./bin/dgcheck "$@"

package main

import (
	"go/token"
	"go/types"

	"golang.org/x/tools/go/ssa"
)

// SENTINELPOS: some position fields use a negative constant as "none" (lenPos = -1: no length
// prefix is open at this stack level). Such a field must never reach a function that slices with
// its parameter (`b[:pos]`, `b[pos:]`) unless the sentinel has been excluded on the way: handing
// -1 to FinishSpeculativeLength panics with `slice bounds out of range [:-1]`.
func init() {
	register(&Rule{
		Name:     "SENTINELPOS",
		Doc:      "for every struct field that is somewhere assigned a negative constant (a `none` sentinel) and every call that passes a load of that field for a parameter the callee uses as a slice bound or index: the call is dominated by a comparison of that field with the sentinel or with 0 (`!= -1`, `>= 0`, …) whose surviving edge excludes the sentinel",
		Configs:  "NP",
		Floor:    map[string]int{"N": 3, "P": 3},
		Controls: 1,
		Run:      runSentinelPos,
	})
}

type sfield struct{ owner, name string }

func loadedField(v ssa.Value) (sfield, bool) {
	switch x := v.(type) {
	case *ssa.UnOp:
		if x.Op == token.MUL {
			if t, n, ok := fieldNameOf(x.X); ok {
				return sfield{typeShort(t), n}, true
			}
		}
	case *ssa.Field:
		if t, n, ok := fieldNameOf(x); ok {
			return sfield{typeShort(t), n}, true
		}
	}
	return sfield{}, false
}

func runSentinelPos(rc *RuleCtx) {
	w := rc.W
	// 1. sentinel fields
	sent := map[sfield]int64{}
	for _, fn := range w.Funcs {
		for _, b := range fn.Blocks {
			for _, ins := range b.Instrs {
				st, ok := ins.(*ssa.Store)
				if !ok {
					continue
				}
				k, isC := constInt(st.Val)
				if !isC || k >= 0 {
					continue
				}
				if t, n, ok := fieldNameOf(st.Addr); ok {
					sent[sfield{typeShort(t), n}] = k
				}
			}
		}
	}
	rc.Stats["sentinel_fields"] = len(sent)
	// 2. parameters used as slice bounds / indexes (directly)
	boundParam := map[*ssa.Function]map[int]bool{}
	for _, fn := range w.Funcs {
		if fn.Blocks == nil {
			continue
		}
		for i, p := range fn.Params {
			if b, ok := p.Type().Underlying().(*types.Basic); !ok || b.Info()&types.IsInteger == 0 {
				continue
			}
			used := false
			for _, r := range *p.Referrers() {
				switch x := r.(type) {
				case *ssa.Slice:
					if x.Low == p || x.High == p || x.Max == p {
						used = true
					}
				case *ssa.IndexAddr:
					if x.Index == p {
						used = true
					}
				case *ssa.Index:
					if x.Index == p {
						used = true
					}
				}
			}
			if used {
				if boundParam[fn] == nil {
					boundParam[fn] = map[int]bool{}
				}
				boundParam[fn][i] = true
			}
		}
	}
	// 3. call sites
	for _, fn := range w.Funcs {
		for _, b := range fn.Blocks {
			for _, ins := range b.Instrs {
				c, ok := ins.(ssa.CallInstruction)
				if !ok {
					continue
				}
				cal := c.Common().StaticCallee()
				if cal == nil || boundParam[cal] == nil {
					continue
				}
				for ai, a := range c.Common().Args {
					if !boundParam[cal][ai] {
						continue
					}
					f, ok := loadedField(a)
					if !ok {
						continue
					}
					sv, isSent := sent[f]
					if !isSent {
						continue
					}
					rc.Examined++
					guarded := false
					for _, cd := range controllingIfs(b) {
						cond, neg := condKey(cd.cond)
						bo, ok := cond.(*ssa.BinOp)
						if !ok {
							continue
						}
						g, ok := loadedField(bo.X)
						if !ok || g != f {
							continue
						}
						k, isC := constInt(bo.Y)
						if !isC {
							continue
						}
						val := cd.val != neg // truth of `bo` on the surviving edge
						switch {
						case bo.Op == token.NEQ && k == sv && val,
							bo.Op == token.EQL && k == sv && !val,
							bo.Op == token.GEQ && k >= 0 && val,
							bo.Op == token.GTR && k >= -1 && val,
							bo.Op == token.LSS && k <= 0 && k > sv-1 && !val,
							bo.Op == token.LEQ && k < 0 && !val:
							guarded = true
						}
					}
					rc.verdict(guarded, fn, cal.Name()+"("+f.name+")", ins.Pos(), map[bool]string{
						true:  "the sentinel of " + f.owner + "." + f.name + " is excluded on the edge that reaches the call",
						false: f.owner + "." + f.name + " can hold its `none` sentinel (a negative constant is stored into it elsewhere) and is passed as a slice position to " + cal.Name() + " without a dominating test: the callee slices with a negative bound and panics"}[guarded], true)
				}
			}
		}
	}
}

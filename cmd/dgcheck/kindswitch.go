package main

import (
	"go/ast"
	"go/constant"
	"go/token"
	"go/types"
	"sort"
	"strings"

	"golang.org/x/tools/go/packages"
	"golang.org/x/tools/go/ssa"
	"golang.org/x/tools/go/types/typeutil"
)

// kindSwitch is one `switch` over an enumeration of kinds/types inside a named function.
type kindSwitch struct {
	pkg      *packages.Package
	fnName   string // pkgRel.Func or pkgRel.(Recv).Func
	decl     *ast.FuncDecl
	sw       *ast.SwitchStmt
	tagType  string // module-relative type name of the labels, e.g. "proto.Type"
	ordinal  int
	clauses  []*kindClause
	hasDflt  bool
	dfltBody []ast.Stmt
}

type kindClause struct {
	labels []kindLabel
	body   []ast.Stmt
	pos    token.Pos
}

type kindLabel struct {
	name string // constant identifier, e.g. "SINT64"
	val  int64
}

func declName(pkgRelPath string, fd *ast.FuncDecl) string {
	if fd.Recv != nil && len(fd.Recv.List) > 0 {
		t := fd.Recv.List[0].Type
		star := ""
		if s, ok := t.(*ast.StarExpr); ok {
			star = "*"
			t = s.X
		}
		if id, ok := t.(*ast.Ident); ok {
			return "(" + star + pkgRelPath + "." + id.Name + ")." + fd.Name.Name
		}
	}
	return pkgRelPath + "." + fd.Name.Name
}

// kindSwitches enumerates every switch with >= minLabels constant labels of a named integer type.
func (w *World) kindSwitches(minLabels int) []*kindSwitch {
	var out []*kindSwitch
	for _, p := range w.Pkgs {
		rel := strings.TrimPrefix(strings.TrimPrefix(p.PkgPath, modPath), "/")
		for _, f := range p.Syntax {
			for _, d := range f.Decls {
				fd, ok := d.(*ast.FuncDecl)
				if !ok || fd.Body == nil {
					continue
				}
				name := declName(rel, fd)
				ord := map[string]int{}
				ast.Inspect(fd.Body, func(n ast.Node) bool {
					sw, ok := n.(*ast.SwitchStmt)
					if !ok {
						return true
					}
					ks := &kindSwitch{pkg: p, fnName: name, decl: fd, sw: sw}
					nl := 0
					for _, cc := range sw.Body.List {
						cl := cc.(*ast.CaseClause)
						if cl.List == nil {
							ks.hasDflt = true
							ks.dfltBody = cl.Body
							continue
						}
						kc := &kindClause{body: cl.Body, pos: cl.Pos()}
						for _, l := range cl.List {
							tv := p.TypesInfo.Types[l]
							if tv.Value == nil || tv.Value.Kind() != constant.Int {
								continue
							}
							nt, ok := tv.Type.(*types.Named)
							var tn string
							if ok {
								tn = typeShort(nt)
							} else if al, ok := tv.Type.(*types.Alias); ok {
								tn = typeShort(al)
							} else {
								continue
							}
							if ks.tagType == "" {
								ks.tagType = tn
							}
							v, _ := constant.Int64Val(tv.Value)
							kc.labels = append(kc.labels, kindLabel{name: lastIdent(l), val: v})
							nl++
						}
						if len(kc.labels) > 0 {
							ks.clauses = append(ks.clauses, kc)
						}
					}
					if nl >= minLabels {
						ord[ks.tagType]++
						ks.ordinal = ord[ks.tagType]
						out = append(out, ks)
					}
					return true
				})
			}
		}
	}
	sort.SliceStable(out, func(i, j int) bool {
		if out[i].fnName != out[j].fnName {
			return out[i].fnName < out[j].fnName
		}
		return out[i].sw.Pos() < out[j].sw.Pos()
	})
	return out
}

func lastIdent(e ast.Expr) string {
	switch x := e.(type) {
	case *ast.Ident:
		return x.Name
	case *ast.SelectorExpr:
		return x.Sel.Name
	case *ast.ParenExpr:
		return lastIdent(x.X)
	}
	return types.ExprString(e)
}

// calleesIn returns the resolved functions called (statically) inside stmts, in source order.
func calleesIn(p *packages.Package, stmts []ast.Stmt) []*types.Func {
	var out []*types.Func
	for _, st := range stmts {
		ast.Inspect(st, func(n ast.Node) bool {
			if _, ok := n.(*ast.FuncLit); ok {
				return false
			}
			ce, ok := n.(*ast.CallExpr)
			if !ok {
				return true
			}
			if fn, ok := typeutil.Callee(p.TypesInfo, ce).(*types.Func); ok {
				out = append(out, fn)
			}
			return true
		})
	}
	return out
}

// ssaFunc maps a types.Func to its ssa.Function.
func (w *World) ssaFunc(f *types.Func) *ssa.Function {
	return w.Prog.FuncValue(f)
}

func (ks *kindSwitch) labelSet() map[string]bool {
	m := map[string]bool{}
	for _, c := range ks.clauses {
		for _, l := range c.labels {
			m[l.name] = true
		}
	}
	return m
}

func (ks *kindSwitch) clauseOf(label string) *kindClause {
	for _, c := range ks.clauses {
		for _, l := range c.labels {
			if l.name == label {
				return c
			}
		}
	}
	return nil
}

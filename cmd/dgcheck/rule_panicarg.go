package main

import (
	"fmt"
	"go/token"
	"go/types"

	"golang.org/x/tools/go/ssa"
)

func init() {
	register(&Rule{
		Name: "PANICARG",
		Doc: "functions that panic on a non-positive size (shape `if n <= 0 { panic }` on a parameter, discovered: next/malloc of both protocols, RequiresBitmap.malloc) are only called with a provably positive argument: " +
			"a positive constant, a value on the surviving side of dominating comparisons that exclude <= 0, or a length result of a proto/protowire Consume*/Decode* call after its negative (error) results were excluded",
		Configs:  "NP",
		Floor:    map[string]int{"N": 25, "P": 25},
		Controls: 1,
		Run:      runPanicArg,
	})
}

// panicGuards: function -> parameter index that must be > 0.
func panicGuards(w *World) map[*ssa.Function]int {
	out := map[*ssa.Function]int{}
	for _, fn := range w.Funcs {
		if len(fn.Blocks) == 0 {
			continue
		}
		b := fn.Blocks[0]
		iff, ok := lastInstr(b).(*ssa.If)
		if !ok {
			continue
		}
		bo, ok := iff.Cond.(*ssa.BinOp)
		if !ok {
			continue
		}
		// `size <= 0` / `size < 1`, written either way round (`0 >= size`, `1 > size`)
		op, px, cy := bo.Op, bo.X, bo.Y
		if _, isC := px.(*ssa.Const); isC {
			px, cy = cy, px
			switch op {
			case token.GEQ:
				op = token.LEQ
			case token.GTR:
				op = token.LSS
			case token.LEQ:
				op = token.GEQ
			case token.LSS:
				op = token.GTR
			}
		}
		p, ok := px.(*ssa.Parameter)
		if !ok {
			continue
		}
		c, ok := constInt(cy)
		if !ok {
			continue
		}
		if !((op == token.LEQ && c == 0) || (op == token.LSS && c == 1)) {
			continue
		}
		if _, isPanic := lastInstr(b.Succs[0]).(*ssa.Panic); !isPanic {
			continue
		}
		for i, q := range fn.Params {
			if q == p {
				out[fn] = i
			}
		}
	}
	return out
}

// lowerBound: the best constant lower bound for v established by comparisons dominating b,
// and whether v != 0 is known there.
func lowerBound(fn *ssa.Function, v ssa.Value, b *ssa.BasicBlock) (lb int64, has bool, nonzero bool) {
	for _, blk := range fn.Blocks {
		iff, ok := lastInstr(blk).(*ssa.If)
		if !ok {
			continue
		}
		k, neg := condKey(iff.Cond)
		bo, ok := k.(*ssa.BinOp)
		if !ok {
			continue
		}
		var c int64
		op := bo.Op
		if bo.X == v {
			cc, ok := constInt(bo.Y)
			if !ok {
				continue
			}
			c = cc
		} else if bo.Y == v {
			cc, ok := constInt(bo.X)
			if !ok {
				continue
			}
			c = cc
			// mirror: c OP v  ==  v OP' c
			switch op {
			case token.LSS:
				op = token.GTR
			case token.LEQ:
				op = token.GEQ
			case token.GTR:
				op = token.LSS
			case token.GEQ:
				op = token.LEQ
			}
		} else {
			continue
		}
		for si, s := range blk.Succs {
			if !edgeRegion(s)[b] {
				continue
			}
			truth := si == 0
			if neg {
				truth = !truth
			}
			// fact on this edge
			var l int64
			ok := false
			switch {
			case op == token.GTR && truth:
				l, ok = c+1, true
			case op == token.GEQ && truth:
				l, ok = c, true
			case op == token.LSS && !truth:
				l, ok = c, true
			case op == token.LEQ && !truth:
				l, ok = c+1, true
			case op == token.EQL && truth:
				l, ok = c, true
			case op == token.EQL && !truth && c == 0:
				nonzero = true
			case op == token.NEQ && truth && c == 0:
				nonzero = true
			}
			if ok && (!has || l > lb) {
				lb, has = l, true
			}
		}
	}
	return
}

func isProtowireLen(v ssa.Value) (*ssa.Call, bool) {
	ex, ok := v.(*ssa.Extract)
	if !ok {
		return nil, false
	}
	c, ok := ex.Tuple.(*ssa.Call)
	if !ok {
		return nil, false
	}
	cal := c.Call.StaticCallee()
	if cal == nil || pkgRel(cal) != "proto/protowire" {
		return nil, false
	}
	if !isIntType(ex.Type()) {
		return nil, false
	}
	if bt := ex.Type().Underlying().(*types.Basic); bt.Kind() != types.Int {
		return nil, false
	}
	return c, true
}

func provablyPositive(fn *ssa.Function, v ssa.Value, b *ssa.BasicBlock, depth int) (bool, string) {
	if depth > 6 {
		return false, ""
	}
	if c, ok := constInt(v); ok {
		return c > 0, fmt.Sprintf("constant %d", c)
	}
	if lb, has, nz := lowerBound(fn, v, b); has && (lb >= 1 || (lb >= 0 && nz)) {
		return true, "dominating comparison excludes <= 0"
	}
	if call, ok := isProtowireLen(v); ok {
		// any int result of the same protowire call tested non-negative on a dominating edge
		for _, r := range *call.Referrers() {
			ex, ok := r.(*ssa.Extract)
			if !ok || !isIntType(ex.Type()) {
				continue
			}
			if lb, has, _ := lowerBound(fn, ex, b); has && lb >= 0 {
				return true, "protowire length after its negative error codes were excluded"
			}
		}
		return false, "protowire length used without excluding its negative error codes"
	}
	// positive-on-success result of a repo function whose error was checked
	if ex, ok := v.(*ssa.Extract); ok {
		if c, ok := ex.Tuple.(*ssa.Call); ok {
			if cal := c.Call.StaticCallee(); cal != nil && posResult(cal, ex.Index, depth+1) {
				if errCheckedNilAt(fn, c, b) {
					return true, "result of " + shortName(cal) + " is positive whenever its error is nil, and the error was checked"
				}
				return false, "result of " + shortName(cal) + " is positive only when its error is nil, which is not checked before use"
			}
		}
	}
	switch x := v.(type) {
	case *ssa.Convert:
		// only sign- and width-preserving conversions keep positivity
		from, ok1 := x.X.Type().Underlying().(*types.Basic)
		to, ok2 := x.Type().Underlying().(*types.Basic)
		if ok1 && ok2 && from.Info()&types.IsInteger != 0 && to.Info()&types.IsInteger != 0 &&
			from.Info()&types.IsUnsigned == 0 && intWidth(to) >= intWidth(from) {
			return provablyPositive(fn, x.X, b, depth+1)
		}
	case *ssa.Phi:
		for i, e := range x.Edges {
			pb := x.Block().Preds[i]
			if ok, _ := provablyPositive(fn, e, pb, depth+1); !ok {
				return false, ""
			}
		}
		return true, "all incoming values positive"
	case *ssa.Call:
		if bi, ok := x.Call.Value.(*ssa.Builtin); ok && bi.Name() == "len" {
			if lb, has, nz := lowerBound(fn, v, b); has && (lb >= 1 || nz) {
				return true, "len() tested non-zero"
			}
		}
	}
	return false, ""
}

func intWidth(b *types.Basic) int {
	switch b.Kind() {
	case types.Int8, types.Uint8:
		return 8
	case types.Int16, types.Uint16:
		return 16
	case types.Int32, types.Uint32:
		return 32
	}
	return 64
}

func runPanicArg(rc *RuleCtx) {
	w := rc.W
	guards := panicGuards(w)
	if len(guards) < 4 {
		broken("PANICARG: only %d size-guarded functions discovered (next/malloc of both protocols expected)", len(guards))
	}
	rc.Stats["guarded_functions"] = len(guards)
	for _, fn := range w.Funcs {
		for _, b := range fn.Blocks {
			for _, ins := range b.Instrs {
				call, ok := ins.(*ssa.Call)
				if !ok {
					continue
				}
				cal := call.Call.StaticCallee()
				if cal == nil {
					continue
				}
				pi, ok := guards[cal]
				if !ok || pi >= len(call.Call.Args) {
					continue
				}
				rc.Examined++
				arg := call.Call.Args[pi]
				_, isConst := arg.(*ssa.Const)
				good, why := provablyPositive(fn, arg, b, 0)
				anchor := cal.Name()
				if good {
					rc.ok(fn, anchor, call.Pos(), why, !isConst)
				} else {
					if why == "" {
						why = "no dominating comparison establishes > 0"
					}
					rc.bad(fn, anchor, call.Pos(), fmt.Sprintf("argument %s of %s (panics when <= 0) is not provably positive: %s", arg.Name(), shortName(cal), why))
				}
			}
		}
	}
}

var posResultCache = map[*ssa.Function]map[int]int{} // 1 yes, 2 no, 3 in progress

// posResult: at every return of fn whose error may be nil, result idx is provably positive.
func posResult(fn *ssa.Function, idx int, depth int) bool {
	if fn.Blocks == nil || depth > 4 || !inRepo(pkgPathOf(fn)) {
		return false
	}
	ei := errIndex(fn.Signature)
	if ei < 0 || idx >= fn.Signature.Results().Len() || !isIntType(fn.Signature.Results().At(idx).Type()) {
		return false
	}
	if posResultCache[fn] == nil {
		posResultCache[fn] = map[int]int{}
	}
	switch posResultCache[fn][idx] {
	case 1:
		return true
	case 2, 3:
		return false
	}
	posResultCache[fn][idx] = 3
	good, n := true, 0
	for _, b := range fn.Blocks {
		ret, ok := lastInstr(b).(*ssa.Return)
		if !ok {
			continue
		}
		ev := ret.Results[ei]
		if c, isC := ev.(*ssa.Const); !(isC && c.IsNil()) {
			// error possibly non-nil: only skip when certainly non-nil
			if isCertainErr(ev) {
				continue
			}
		}
		n++
		if ok, _ := provablyPositive(fn, ret.Results[idx], b, depth+1); !ok {
			good = false
		}
	}
	if good && n > 0 {
		posResultCache[fn][idx] = 1
		return true
	}
	posResultCache[fn][idx] = 2
	return false
}

func isCertainErr(v ssa.Value) bool {
	switch x := v.(type) {
	case *ssa.MakeInterface:
		return true
	case *ssa.UnOp:
		if g, ok := x.X.(*ssa.Global); ok && x.Op == token.MUL {
			n := g.Name()
			return len(n) >= 3 && (n[:3] == "err" || n[:3] == "Err")
		}
	}
	return false
}

// errCheckedNilAt: block b lies in the region where the error result of call is known nil.
func errCheckedNilAt(fn *ssa.Function, call *ssa.Call, b *ssa.BasicBlock) bool {
	ev := errValueOf(call)
	if ev == nil {
		return false
	}
	for _, blk := range fn.Blocks {
		iff, ok := lastInstr(blk).(*ssa.If)
		if !ok {
			continue
		}
		subj, nilOnTrue, ok := nilTest(iff.Cond)
		if !ok || subj != ev {
			continue
		}
		nilSucc := blk.Succs[1]
		if nilOnTrue {
			nilSucc = blk.Succs[0]
		}
		if edgeRegion(nilSucc)[b] {
			return true
		}
	}
	return false
}

package main

import (
	"fmt"

	"golang.org/x/tools/go/ssa"
)

func init() {
	register(&Rule{
		Name: "HDRUSED",
		Doc: "the type bytes of a thrift container header are never ignored by a reader that goes on to decode elements: at every call of ReadMapBegin / ReadListBegin / ReadSetBegin whose function subsequently reads elements with the same cursor, the key-type and element-type results are used (compared with the expected type, or passed to a type-directed reader/skipper) — " +
			"decoding keys with a fixed-type reader after discarding the key type mis-reads maps of another key type instead of reporting an error",
		Configs:  "NP",
		Floor:    map[string]int{"N": 20, "P": 20},
		Controls: 1,
		Run:      runHdrUsed,
	})
}

func runHdrUsed(rc *RuleCtx) {
	w := rc.W
	want := map[*ssa.Function][]int{
		w.Fn("(*thrift.BinaryProtocol).ReadMapBegin"):  {0, 1},
		w.Fn("(*thrift.BinaryProtocol).ReadListBegin"): {0},
		w.Fn("(*thrift.BinaryProtocol).ReadSetBegin"):  {0},
	}
	for _, fn := range w.Funcs {
		for _, b := range fn.Blocks {
			for _, ins := range b.Instrs {
				c, ok := ins.(*ssa.Call)
				if !ok {
					continue
				}
				cal := c.Call.StaticCallee()
				idxs, ok := want[cal]
				if !ok {
					continue
				}
				used := map[int]bool{}
				for _, r := range *c.Referrers() {
					if ex, ok := r.(*ssa.Extract); ok && len(*ex.Referrers()) > 0 {
						used[ex.Index] = true
					}
				}
				for _, i := range idxs {
					rc.Examined++
					name := cal.Signature.Results().At(i).Name()
					rc.verdict(used[i], fn, fmt.Sprintf("%s.%s", cal.Name(), name), c.Pos(), map[bool]string{true: name + " is used", false: "the " + name + " result of " + cal.Name() + " is discarded: elements are decoded without checking or dispatching on the type the header announces"}[used[i]], true)
				}
			}
		}
	}
}

package main

import (
	"fmt"
	"go/token"
	"go/types"
	"os"
	"sort"
	"strings"

	"golang.org/x/tools/go/ssa"
)

// ERRASSERT: `err.(T)` without the comma-ok form panics unless the dynamic type of err is T.
// The generic packages assert the error of a locator to their own error type (Node) in order to
// copy its code; that is sound only if EVERY error the locator (and everything it calls) can
// return is a Node. One `wrapError(...)` (a meta.Error) or one error passed through from the
// protocol layer turns a malformed input into a panic instead of an error.
func init() {
	register(&Rule{
		Name:     "ERRASSERT",
		Doc:      "every single-result type assertion `x.(T)` on an interface value to a concrete type T is justified by the possible dynamic types of x: the set is computed from the producers of x (MakeInterface sites, typed package-level sentinels, φ, spilled cells, and — through a least-fixpoint summary — the error results of the repo functions it was returned by; strconv.Parse*/Atoi are tabled as *strconv.NumError); an unknown producer or a producer of another type means the assertion can panic on some input",
		Configs:  "NP",
		Floor:    map[string]int{"N": 4, "P": 4},
		Controls: 1,
		Run:      runErrAssert,
	})
}

type dynTypes struct {
	top   bool
	why   string // first reason for top / foreign type
	types map[string]bool
}

func (d *dynTypes) union(o *dynTypes) bool {
	ch := false
	if o == nil {
		return false
	}
	if o.top && !d.top {
		d.top, d.why, ch = true, o.why, true
	}
	for t := range o.types {
		if !d.types[t] {
			d.types[t] = true
			ch = true
		}
	}
	return ch
}

type errAssertState struct {
	w   *World
	sum map[*ssa.Function]*dynTypes // dynamic types of the error result
}

var strconvNumErr = map[string]bool{"strconv.ParseInt": true, "strconv.ParseUint": true, "strconv.ParseFloat": true, "strconv.Atoi": true, "strconv.ParseBool": true}

func (st *errAssertState) calleeTypes(cal *ssa.Function, resultIdx int, single bool) *dynTypes {
	out := &dynTypes{types: map[string]bool{}}
	if cal == nil {
		out.top, out.why = true, "dynamic call"
		return out
	}
	full := cal.String()
	if strconvNumErr[full] {
		out.types["*strconv.NumError"] = true
		return out
	}
	ei := errIndex(cal.Signature)
	if ei < 0 || (!single && ei != resultIdx) {
		out.top, out.why = true, "result of "+cal.Name()+" is not its error result"
		return out
	}
	if cal.Blocks == nil || cal.Pkg == nil || !inRepo(cal.Pkg.Pkg.Path()) {
		out.top, out.why = true, "error produced outside the repository by "+full
		return out
	}
	if s, ok := st.sum[cal]; ok {
		out.union(s)
	}
	return out
}

func (st *errAssertState) valueTypes(v ssa.Value, seen map[ssa.Value]bool, d int) *dynTypes {
	out := &dynTypes{types: map[string]bool{}}
	if v == nil || seen[v] {
		return out
	}
	if d > 20 {
		out.top, out.why = true, "depth"
		return out
	}
	seen[v] = true
	switch x := v.(type) {
	case *ssa.MakeInterface:
		out.types[typeShort(x.X.Type())] = true
	case *ssa.Const:
		// nil
	case *ssa.Call:
		out.union(st.calleeTypes(x.Call.StaticCallee(), 0, true))
	case *ssa.Extract:
		if c, ok := x.Tuple.(*ssa.Call); ok {
			out.union(st.calleeTypes(c.Call.StaticCallee(), x.Index, false))
		} else if ta, ok := x.Tuple.(*ssa.TypeAssert); ok && x.Index == 0 {
			if _, isIface := ta.AssertedType.Underlying().(*types.Interface); isIface {
				out.union(st.valueTypes(ta.X, seen, d+1))
			} else {
				out.types[typeShort(ta.AssertedType)] = true
			}
		} else {
			out.top, out.why = true, "tuple"
		}
	case *ssa.Phi:
		for i, e := range x.Edges {
			if knownNilAt(e, x.Block().Preds[i]) {
				continue
			}
			out.union(st.valueTypes(e, seen, d+1))
		}
	case *ssa.ChangeInterface:
		out.union(st.valueTypes(x.X, seen, d+1))
	case *ssa.TypeAssert:
		if _, isIface := x.AssertedType.Underlying().(*types.Interface); isIface {
			out.union(st.valueTypes(x.X, seen, d+1))
		} else {
			out.types[typeShort(x.AssertedType)] = true
		}
	case *ssa.UnOp:
		if x.Op != token.MUL {
			out.top, out.why = true, "unop"
			break
		}
		switch a := x.X.(type) {
		case *ssa.Global:
			et := a.Type().(*types.Pointer).Elem()
			if _, isIface := et.Underlying().(*types.Interface); isIface {
				// interface-typed sentinel: look at the stores of the package initialiser
				found := false
				if a.Pkg != nil {
					if init := a.Pkg.Func("init"); init != nil {
						for _, b := range init.Blocks {
							for _, ins := range b.Instrs {
								if s, ok := ins.(*ssa.Store); ok && s.Addr == a {
									out.union(st.valueTypes(s.Val, seen, d+1))
									found = true
								}
							}
						}
					}
				}
				if !found {
					out.top, out.why = true, "interface-typed global "+a.Name()
				}
			} else {
				out.types[typeShort(et)] = true
			}
		case *ssa.Alloc:
			n := 0
			for _, r := range *a.Referrers() {
				if s, ok := r.(*ssa.Store); ok && s.Addr == a {
					out.union(st.valueTypes(s.Val, seen, d+1))
					n++
				}
			}
			if n == 0 {
				out.top, out.why = true, "cell without stores"
			}
		default:
			out.top, out.why = true, "load through "+x.X.Name()
		}
	case *ssa.Parameter:
		out.top, out.why = true, "parameter "+x.Name()
	default:
		out.top, out.why = true, "producer "+v.Name()
	}
	return out
}

// knownNilAt: block b is only reachable through an edge on which v was tested to be nil.
func knownNilAt(v ssa.Value, b *ssa.BasicBlock) bool {
	for _, cd := range controllingIfs(b) {
		if subj, nilOnTrue, ok := nilTest(cd.cond); ok && subj == v && nilOnTrue == cd.val {
			return true
		}
	}
	return false
}

func runErrAssert(rc *RuleCtx) {
	w := rc.W
	st := &errAssertState{w: w, sum: map[*ssa.Function]*dynTypes{}}
	var fns []*ssa.Function
	for _, fn := range w.Funcs {
		if fn.Blocks != nil && errIndex(fn.Signature) >= 0 {
			fns = append(fns, fn)
			st.sum[fn] = &dynTypes{types: map[string]bool{}}
		}
	}
	for iter := 0; iter < 12; iter++ {
		changed := false
		for _, fn := range fns {
			ei := errIndex(fn.Signature)
			acc := &dynTypes{types: map[string]bool{}}
			for _, b := range fn.Blocks {
				ret, ok := b.Instrs[len(b.Instrs)-1].(*ssa.Return)
				if !ok || len(ret.Results) <= ei {
					continue
				}
				if knownNilAt(ret.Results[ei], b) {
					continue
				}
				acc.union(st.valueTypes(ret.Results[ei], map[ssa.Value]bool{}, 0))
			}
			if st.sum[fn].union(acc) {
				changed = true
			}
		}
		if !changed {
			break
		}
	}
	if os.Getenv("DGDEBUG") != "" {
		for _, fn := range fns {
			if strings.Contains(fn.Name(), "search") {
				fmt.Fprintln(os.Stderr, "SUM", fn.String(), st.sum[fn].top, st.sum[fn].why, st.sum[fn].types)
			}
		}
	}
	for _, fn := range w.Funcs {
		for _, b := range fn.Blocks {
			for _, ins := range b.Instrs {
				ta, ok := ins.(*ssa.TypeAssert)
				if !ok || ta.CommaOk {
					continue
				}
				if _, isIface := ta.AssertedType.Underlying().(*types.Interface); isIface {
					continue
				}
				if !types.Identical(ta.X.Type().Underlying(), types.Universe.Lookup("error").Type().Underlying()) {
					continue // only error values: other interface assertions are out of scope
				}
				rc.Examined++
				want := typeShort(ta.AssertedType)
				dt := st.valueTypes(ta.X, map[ssa.Value]bool{}, 0)
				var other []string
				for t := range dt.types {
					if t != want {
						other = append(other, t)
					}
				}
				sort.Strings(other)
				good := !dt.top && len(other) == 0
				detail := "every producer of the asserted error yields " + want
				if !good {
					detail = "the asserted error can have a dynamic type other than " + want + ": "
					if len(other) > 0 {
						detail += strings.Join(other, ", ")
					}
					if dt.top {
						detail += " [unknown producer: " + dt.why + "]"
					}
					detail += " — the assertion panics instead of returning the error"
				}
				rc.verdict(good, fn, "err.("+want+")", ta.Pos(), detail, true)
			}
		}
	}
}

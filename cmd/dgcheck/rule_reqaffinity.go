package main

import (
	"fmt"
	"go/ast"
	"go/token"
	"go/types"
	"strings"
)

func init() {
	register(&Rule{
		Name: "REQAFFINITY",
		Doc: "wherever a comparison with a thrift requiredness constant (`x.Required() == RequiredRequireness|DefaultRequireness|OptionalRequireness`) is conjoined (&&) with a write-option flag (parameter/option whose name contains require/default/optional), the flag is the one of the SAME requiredness: " +
			"required fields are governed by the write-required option only, default fields by write-default, optional fields by write-optional",
		Configs:  "NP",
		Floor:    map[string]int{"N": 9, "P": 9},
		Controls: 1,
		Run:      runReqAffinity,
	})
}

func reqStem(s string) string {
	l := strings.TrimSuffix(strings.ToLower(s), "requireness")
	switch {
	case strings.Contains(l, "requ"):
		return "required"
	case strings.Contains(l, "defa") || strings.Contains(l, "defu"):
		return "default"
	case strings.Contains(l, "optional"):
		return "optional"
	}
	return ""
}

func flattenAnd(e ast.Expr, out *[]ast.Expr) {
	e = ast.Unparen(e)
	if be, ok := e.(*ast.BinaryExpr); ok && be.Op == token.LAND {
		flattenAnd(be.X, out)
		flattenAnd(be.Y, out)
		return
	}
	*out = append(*out, e)
}

func runReqAffinity(rc *RuleCtx) {
	w := rc.W
	for _, p := range w.Pkgs {
		rel := strings.TrimPrefix(strings.TrimPrefix(p.PkgPath, modPath), "/")
		for _, f := range p.Syntax {
			for _, d := range f.Decls {
				fd, ok := d.(*ast.FuncDecl)
				if !ok || fd.Body == nil {
					continue
				}
				name := declName(rel, fd)
				seen := map[ast.Expr]bool{}
				ast.Inspect(fd.Body, func(n ast.Node) bool {
					be, ok := n.(*ast.BinaryExpr)
					if !ok || be.Op != token.LAND || seen[be] {
						return true
					}
					var ops []ast.Expr
					flattenAnd(be, &ops)
					// mark nested && nodes as seen
					ast.Inspect(be, func(m ast.Node) bool {
						if b2, ok := m.(*ast.BinaryExpr); ok && b2.Op == token.LAND {
							seen[b2] = true
						}
						return true
					})
					reqs := map[string]bool{}
					var flags []string
					for _, op := range ops {
						op = ast.Unparen(op)
						if u, ok := op.(*ast.UnaryExpr); ok && u.Op == token.NOT {
							op = ast.Unparen(u.X)
						}
						switch x := op.(type) {
						case *ast.BinaryExpr:
							if x.Op == token.EQL {
								for _, side := range []ast.Expr{x.X, x.Y} {
									if tv, ok := p.TypesInfo.Types[side]; ok && tv.Value != nil && typeShort(tv.Type) == "thrift.Requireness" {
										reqs[reqStem(lastIdent(side))] = true
									}
								}
							}
						case *ast.Ident, *ast.SelectorExpr:
							if t := p.TypesInfo.TypeOf(x); t != nil {
								if b, ok := t.Underlying().(*types.Basic); ok && b.Kind() == types.Bool {
									nm := lastIdent(x)
									if strings.Contains(strings.ToLower(nm), "write") && reqStem(nm) != "" {
										flags = append(flags, nm)
									}
								}
							}
						}
					}
					if len(reqs) != 1 || len(flags) == 0 {
						return true
					}
					rc.Examined++
					var r string
					for k := range reqs {
						r = k
					}
					bad := ""
					for _, fl := range flags {
						if reqStem(fl) != r {
							bad = fl
						}
					}
					if bad == "" {
						rc.add(nil, name, "requiredness&&option", be.Pos(), "discharged", fmt.Sprintf("%s requiredness governed by %s", r, strings.Join(flags, ",")), true)
					} else {
						rc.add(nil, name, "requiredness&&option", be.Pos(), "violated", fmt.Sprintf("a test for %s requiredness is conjoined with option `%s`, which governs %s fields", r, bad, reqStem(bad)), true)
					}
					return true
				})
			}
		}
	}
}

package main

import (
	"go/token"
	"go/types"

	"golang.org/x/tools/go/ssa"
)

// LESSTIE: the bulk editors (SetMany -> replaceMany) sort the edits by the address of the value
// they replace and then splice old gaps and new values in that order; an insertion is an edit of
// an EMPTY span located at the insertion point. When the insertion point coincides with the start
// of an edited element (thrift inserts at the head of a list body) the two edits tie on the start
// address, sort.Sort may put the element first, and the gap before the insertion becomes a
// negative byte count handed to rt.BytesFrom -> memmove -> SIGSEGV. Ordering spans therefore needs
// the length as the second key (empty span first).
func init() {
	register(&Rule{
		Name:     "LESSTIE",
		Doc:      "(a) every Less method of the generic packages (the order replaceMany splices edits in) compares the START addresses of two elements (field `v`), not their end addresses; (b) a Less method that orders Node spans by start address also reads their length field `l` as a tie-break: with start address alone an insertion point (empty span) that coincides with the start of an edited element is ordered arbitrarily, and replaceMany then computes a negative gap (SIGSEGV in memmove). Clause (b) is claimed for thrift/generic only: proto SetMany inserts at the END of the container, where no existing element starts, so its ties are between empty spans",
		Configs:  "NP",
		Floor:    map[string]int{"N": 2, "P": 2},
		Controls: 1,
		Run:      runLessTie,
	})
}

func runLessTie(rc *RuleCtx) {
	for _, fn := range rc.W.Funcs {
		if pkgRel(fn) == "" || fn.Name() != "Less" || fn.Signature.Recv() == nil || fn.Signature.Params().Len() != 2 || fn.Blocks == nil {
			continue
		}
		readsV, readsL, cmp := 0, 0, token.NoPos
		for _, b := range fn.Blocks {
			for _, ins := range b.Instrs {
				switch x := ins.(type) {
				case *ssa.FieldAddr, *ssa.Field:
					t, n, ok := fieldNameOf(x.(ssa.Value))
					if !ok {
						continue
					}
					if nt, ok := t.(*types.Named); !ok || nt.Obj().Name() != "Node" {
						continue
					}
					if n == "v" {
						readsV++
					}
					if n == "l" {
						readsL++
					}
				case *ssa.BinOp:
					if x.Op == token.LSS || x.Op == token.GTR {
						if cmp == token.NoPos {
							cmp = x.Pos()
						}
					}
				}
			}
		}
		pr := pkgRel(fn)
		if readsV < 2 && !(pr == "thrift/generic" || pr == "proto/generic") {
			continue
		}
		// (a) primary key: the START address of the replaced value. replaceMany copies the gap between the
		// end of the previous edit and the start of the next one, so edits must be visited in start order.
		rc.Examined++
		rc.verdict(readsV >= 2, fn, "span order: primary key", cmp, map[bool]string{
			true:  "edits are ordered by the start address of the value they replace",
			false: "edits are not ordered by the start address (`v`) of both elements: replaceMany needs start order — ordered by end address an insertion ties with the last field it follows and is spliced in front of it"}[readsV >= 2], true)
		if readsV < 2 {
			continue
		}
		// (b) tie-break by length
		rc.Examined++
		good := readsL >= 2
		rc.verdict(good, fn, "span order", cmp, map[bool]string{
			true:  "spans are ordered by (start address, length): an empty span sorts before the element that starts at the same address",
			false: "spans are ordered by start address only: an insertion point that ties with an edited element may sort after it, and the splice computes a negative gap"}[good], true)
	}
}

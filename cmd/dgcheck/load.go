package main

import (
	"fmt"
	"go/ast"
	"go/token"
	"go/types"
	"os"
	"path/filepath"
	"sort"
	"strings"

	"golang.org/x/tools/go/callgraph"
	"golang.org/x/tools/go/callgraph/cha"
	"golang.org/x/tools/go/callgraph/vta"
	"golang.org/x/tools/go/packages"
	"golang.org/x/tools/go/ssa"
	"golang.org/x/tools/go/ssa/ssautil"
)

const modPath = "github.com/cloudwego/dynamicgo"

// World is one loaded build configuration of /repo.
type World struct {
	Cfg   string // "N" (native, amd64) or "P" (portable, arm64)
	Dir   string
	Pkgs  []*packages.Package // repo packages, sorted by path
	ByPkg map[string]*packages.Package
	Prog  *ssa.Program
	Fset  *token.FileSet
	Funcs []*ssa.Function // every function (incl. anonymous) of repo packages
	fnIdx map[string]*ssa.Function

	cha *callgraph.Graph
	vta *callgraph.Graph

	ec      *errClass
	mayFail map[*ssa.Function]bool
	doms    map[*ssa.Function]bool
}

func inRepo(path string) bool {
	return path == modPath || strings.HasPrefix(path, modPath+"/")
}

func repoDir() string {
	if d := os.Getenv("DGREPO"); d != "" {
		return d
	}
	return "/repo"
}

// broken aborts the run: the checker could not do its job. Exit 2, never a VIOLATION line.
func broken(format string, a ...interface{}) {
	fmt.Fprintf(os.Stderr, "dgcheck: BROKEN: "+format+"\n", a...)
	os.Exit(2)
}

var pkgFloor = map[string]int{"N": 26, "P": 22}

// overlayFiles: positive-control fixtures injected into repo packages through the
// go/packages overlay (no file is written under /repo).
func overlayFiles(dir string) map[string][]byte {
	ov := map[string][]byte{}
	root := filepath.Join(verifDir(), "controls")
	filepath.Walk(root, func(p string, info os.FileInfo, err error) error {
		if err != nil || info.IsDir() || !strings.HasSuffix(p, ".go.txt") {
			return nil
		}
		rel, _ := filepath.Rel(root, p)
		data, err := os.ReadFile(p)
		if err != nil {
			broken("read control %s: %v", p, err)
		}
		target := filepath.Join(dir, strings.TrimSuffix(rel, ".txt"))
		if _, err := os.Stat(filepath.Dir(target)); err != nil {
			return nil // package directory vanished: control not injectable; floors will catch it
		}
		ov[target] = data
		return nil
	})
	return ov
}

const controlPrefix = "zz_verif_control"

func isControlFile(name string) bool {
	return strings.HasPrefix(filepath.Base(name), controlPrefix)
}

func verifDir() string {
	if d := os.Getenv("DGVERIF"); d != "" {
		return d
	}
	exe, err := os.Executable()
	if err == nil {
		d := filepath.Dir(filepath.Dir(exe))
		if _, err := os.Stat(filepath.Join(d, "properties.jsonl")); err == nil {
			return d
		}
	}
	return "/verif"
}

func load(cfgName string) *World {
	dir := repoDir()
	env := []string{}
	for _, e := range os.Environ() {
		if strings.HasPrefix(e, "GOARCH=") || strings.HasPrefix(e, "GOOS=") || strings.HasPrefix(e, "GOWORK=") || strings.HasPrefix(e, "GOFLAGS=") {
			continue
		}
		env = append(env, e)
	}
	env = append(env, "GOWORK=off", "GOFLAGS=-mod=mod", "GOPROXY=off", "GOSUMDB=off", "GOTOOLCHAIN=local", "GOOS=linux", "CGO_ENABLED=0")
	switch cfgName {
	case "N":
		env = append(env, "GOARCH=amd64")
	case "P":
		env = append(env, "GOARCH=arm64")
	default:
		broken("unknown config %q", cfgName)
	}
	cfg := &packages.Config{Mode: packages.LoadAllSyntax, Dir: dir, Env: env, Tests: false}
	if os.Getenv("DGNOCONTROLS") == "" {
		cfg.Overlay = overlayFiles(dir)
	}
	pkgs, err := packages.Load(cfg, "./...")
	if err != nil {
		broken("config %s: packages.Load: %v", cfgName, err)
	}
	nerr := 0
	packages.Visit(pkgs, nil, func(p *packages.Package) {
		for _, e := range p.Errors {
			fmt.Fprintf(os.Stderr, "dgcheck: load error [%s] %s: %v\n", cfgName, p.PkgPath, e)
			nerr++
		}
	})
	if nerr > 0 {
		broken("config %s: %d load/type errors", cfgName, nerr)
	}
	w := &World{Cfg: cfgName, Dir: dir, ByPkg: map[string]*packages.Package{}, fnIdx: map[string]*ssa.Function{}}
	for _, p := range pkgs {
		if inRepo(p.PkgPath) && !strings.Contains(p.PkgPath, "/testdata") {
			w.Pkgs = append(w.Pkgs, p)
			w.ByPkg[strings.TrimPrefix(strings.TrimPrefix(p.PkgPath, modPath), "/")] = p
		}
	}
	sort.Slice(w.Pkgs, func(i, j int) bool { return w.Pkgs[i].PkgPath < w.Pkgs[j].PkgPath })
	if len(w.Pkgs) < pkgFloor[cfgName] {
		broken("config %s: only %d repo packages loaded (floor %d)", cfgName, len(w.Pkgs), pkgFloor[cfgName])
	}
	prog, _ := ssautil.AllPackages(pkgs, ssa.InstantiateGenerics)
	prog.Build()
	w.Prog = prog
	w.Fset = prog.Fset
	for fn := range ssautil.AllFunctions(prog) {
		root := fn
		for root.Parent() != nil {
			root = root.Parent()
		}
		if root.Pkg == nil || !inRepo(root.Pkg.Pkg.Path()) || strings.Contains(root.Pkg.Pkg.Path(), "/testdata") {
			continue
		}
		w.Funcs = append(w.Funcs, fn)
	}
	sort.Slice(w.Funcs, func(i, j int) bool {
		a, b := w.Funcs[i], w.Funcs[j]
		if a.String() != b.String() {
			return a.String() < b.String()
		}
		return a.Pos() < b.Pos()
	})
	for _, fn := range w.Funcs {
		w.fnIdx[shortName(fn)] = fn
	}
	canonicalizeComparisons(w.Funcs)
	return w
}

// canonicalizeComparisons rewrites every comparison `CONST op x` as `x op' CONST`, and `bound op p.Read` as
// `p.Read op' bound`, in the analysed
// SSA (a op b == b op' a): the rules are written for the common spelling, and a source that says
// `0 > n` or `nil != p` must get the same verdict as one that says `n < 0` / `p != nil`.
func canonicalizeComparisons(fns []*ssa.Function) {
	mirror := map[token.Token]token.Token{token.LSS: token.GTR, token.GTR: token.LSS, token.LEQ: token.GEQ, token.GEQ: token.LEQ, token.EQL: token.EQL, token.NEQ: token.NEQ}
	for _, fn := range fns {
		for _, b := range fn.Blocks {
			for _, ins := range b.Instrs {
				bo, ok := ins.(*ssa.BinOp)
				if !ok {
					continue
				}
				m, isCmp := mirror[bo.Op]
				if !isCmp {
					continue
				}
				isCursor := func(v ssa.Value) bool {
					u, ok := v.(*ssa.UnOp)
					if !ok || u.Op != token.MUL {
						return false
					}
					fa, ok := u.X.(*ssa.FieldAddr)
					if !ok {
						return false
					}
					st, ok := fa.X.Type().Underlying().(*types.Pointer)
					if !ok {
						return false
					}
					sst, ok := st.Elem().Underlying().(*types.Struct)
					return ok && sst.Field(fa.Field).Name() == "Read"
				}
				_, xc := bo.X.(*ssa.Const)
				_, yc := bo.Y.(*ssa.Const)
				switch {
				case xc && !yc:
					// CONST op x
				case !xc && !yc && isCursor(bo.Y) && !isCursor(bo.X):
					// bound op cursor: the read cursor is written on the left everywhere in this code base
				default:
					continue
				}
				bo.X, bo.Y, bo.Op = bo.Y, bo.X, m
			}
		}
	}
}

// shortName: function name without the module prefix, e.g. "thrift/generic.marshalTo",
// "(*thrift.BinaryProtocol).ReadAny", "(thrift/generic.Node).deleteChild".
func shortName(fn *ssa.Function) string {
	return strings.ReplaceAll(fn.String(), modPath+"/", "")
}

// Fn resolves a tabled anchor. A missing anchor is a checker failure, not a pass.
func (w *World) Fn(name string) *ssa.Function {
	if f := w.fnIdx[name]; f != nil {
		return f
	}
	broken("config %s: anchor function %q does not resolve (renamed or removed: update the rule table)", w.Cfg, name)
	return nil
}

// FnOpt resolves an anchor that may legitimately be absent in this configuration.
func (w *World) FnOpt(name string) *ssa.Function { return w.fnIdx[name] }

func (w *World) Pkg(rel string) *packages.Package {
	if p := w.ByPkg[rel]; p != nil {
		return p
	}
	broken("config %s: anchor package %q not loaded", w.Cfg, rel)
	return nil
}

func (w *World) PkgOpt(rel string) *packages.Package { return w.ByPkg[rel] }

func (w *World) relPos(p token.Pos) string {
	if !p.IsValid() {
		return "?"
	}
	pos := w.Fset.Position(p)
	rel, err := filepath.Rel(w.Dir, pos.Filename)
	if err != nil {
		rel = pos.Filename
	}
	return fmt.Sprintf("%s:%d", rel, pos.Line)
}

func (w *World) fileOf(p token.Pos) string {
	if !p.IsValid() {
		return ""
	}
	return w.Fset.Position(p).Filename
}

// fnPos returns a usable position for a function (anonymous/synthetic fall back to parent).
func fnPos(fn *ssa.Function) token.Pos {
	for f := fn; f != nil; f = f.Parent() {
		if f.Pos().IsValid() {
			return f.Pos()
		}
	}
	return token.NoPos
}

func (w *World) isControlFn(fn *ssa.Function) bool {
	return isControlFile(w.fileOf(fnPos(fn)))
}

func (w *World) CHA() *callgraph.Graph {
	if w.cha == nil {
		w.cha = cha.CallGraph(w.Prog)
	}
	return w.cha
}

func (w *World) VTA() *callgraph.Graph {
	if w.vta == nil {
		w.vta = vta.CallGraph(ssautil.AllFunctions(w.Prog), w.CHA())
	}
	return w.vta
}

// pkgRel returns the module-relative package path of a function ("" for the root package).
func pkgRel(fn *ssa.Function) string {
	root := fn
	for root.Parent() != nil {
		root = root.Parent()
	}
	if root.Pkg == nil {
		return ""
	}
	return strings.TrimPrefix(strings.TrimPrefix(root.Pkg.Pkg.Path(), modPath), "/")
}

// ---- AST helpers ----

// funcDecl finds the syntax of a named function.
func (w *World) funcDecl(fn *ssa.Function) *ast.FuncDecl {
	if d, ok := fn.Syntax().(*ast.FuncDecl); ok {
		return d
	}
	return nil
}

func (w *World) infoFor(fn *ssa.Function) *types.Info {
	root := fn
	for root.Parent() != nil {
		root = root.Parent()
	}
	if root.Pkg == nil {
		return nil
	}
	for _, p := range w.Pkgs {
		if p.Types == root.Pkg.Pkg {
			return p.TypesInfo
		}
	}
	return nil
}

// namedType resolves pkgRel.TypeName to its types.Named; missing = broken.
func (w *World) namedType(rel, name string) *types.Named {
	p := w.Pkg(rel)
	obj := p.Types.Scope().Lookup(name)
	if obj == nil {
		broken("config %s: anchor type %s.%s does not resolve", w.Cfg, rel, name)
	}
	n, ok := obj.Type().(*types.Named)
	if !ok {
		broken("config %s: anchor %s.%s is not a named type", w.Cfg, rel, name)
	}
	return n
}

func derefType(t types.Type) types.Type {
	if p, ok := t.Underlying().(*types.Pointer); ok {
		return p.Elem()
	}
	return t
}

// isNamed reports whether t (possibly behind one pointer) is the named type rel.name.
func isNamed(t types.Type, rel, name string) bool {
	t = derefType(t)
	n, ok := t.(*types.Named)
	if !ok || n.Obj().Pkg() == nil {
		return false
	}
	return n.Obj().Name() == name && n.Obj().Pkg().Path() == joinMod(rel)
}

func joinMod(rel string) string {
	if rel == "" {
		return modPath
	}
	return modPath + "/" + rel
}

package main

import (
	"golang.org/x/tools/go/ssa"
)

// NONFINITE: JSON has no text for NaN and ±Inf, and the native float formatter behind
// json.EncodeFloat64 writes NOTHING for them — the converters then emit `{"d":}` with a nil error.
// Every JSON emitter that formats a float taken from the input therefore has to exclude
// non-finite values first (and fail), exactly as encoding/json does.
func init() {
	register(&Rule{
		Name:     "NONFINITE",
		Doc:      "every call of json.EncodeFloat64 with a non-constant argument in a JSON emitter (packages conv/t2j, conv/p2j, thrift/annotation) is dominated by the false edges of math.IsNaN and math.IsInf tests of that value (through float conversions; the IsInf tests cover both signs: sign argument 0, or +1 and -1): non-finite values, for which the formatter writes nothing, never reach it",
		Configs:  "NP",
		Floor:    map[string]int{"N": 3, "P": 3},
		Controls: 1,
		Run:      runNonFinite,
	})
}

func floatRoot(v ssa.Value) ssa.Value {
	for {
		if c, ok := v.(*ssa.Convert); ok {
			v = c.X
			continue
		}
		return v
	}
}

func runNonFinite(rc *RuleCtx) {
	for _, fn := range rc.W.Funcs {
		if fn.Blocks == nil {
			continue
		}
		pr := pkgRel(fn)
		if pr != "conv/t2j" && pr != "conv/p2j" && pr != "thrift/annotation" {
			continue
		}
		for _, b := range fn.Blocks {
			for _, ins := range b.Instrs {
				c, ok := ins.(*ssa.Call)
				if !ok {
					continue
				}
				cal := c.Call.StaticCallee()
				if cal == nil || cal.Name() != "EncodeFloat64" || len(c.Call.Args) < 2 {
					continue
				}
				if _, isC := c.Call.Args[1].(*ssa.Const); isC {
					continue
				}
				rc.Examined++
				root := floatRoot(c.Call.Args[1])
				nan, infPos, infNeg := false, false, false
				for _, cd := range controllingIfs(b) {
					cond, neg := condKey(cd.cond)
					tc, ok := cond.(*ssa.Call)
					if !ok {
						continue
					}
					tcal := tc.Call.StaticCallee()
					if tcal == nil || tcal.Pkg == nil || tcal.Pkg.Pkg.Path() != "math" || len(tc.Call.Args) == 0 || floatRoot(tc.Call.Args[0]) != root {
						continue
					}
					if cd.val != neg { // the test is TRUE on this edge: value is non-finite here
						continue
					}
					switch tcal.Name() {
					case "IsNaN":
						nan = true
					case "IsInf":
						// IsInf(f, 0) covers both infinities; IsInf(f, +1) / IsInf(f, -1) only one of them
						sign := int64(0)
						if len(tc.Call.Args) > 1 {
							if k, isC := constInt(tc.Call.Args[1]); isC {
								sign = k
							} else {
								continue
							}
						}
						if sign >= 0 {
							infPos = true
						}
						if sign <= 0 {
							infNeg = true
						}
					}
				}
				good := nan && infPos && infNeg
				rc.verdict(good, fn, "EncodeFloat64", c.Pos(), map[bool]string{
					true:  "NaN and ±Inf are excluded before the float is formatted",
					false: "a float from the input reaches json.EncodeFloat64 without a math.IsNaN / math.IsInf test: for NaN and ±Inf the formatter writes nothing and the converter returns malformed JSON (`{\"d\":}`) with a nil error"}[good], true)
			}
		}
	}
}

package main

import (
	"strings"

	"golang.org/x/tools/go/ssa"
)

// NEXTGUARD: iterator typestate. The generic packages walk containers with
// `for it.HasNext() { … it.Next*() … }`. Every Next* consumes one element; between two
// consecutive Next* calls on an iterator of the same type the walker must have asked HasNext()
// again — otherwise one loop cycle consumes several elements (and compares each only with one of
// the requested keys), or reads past the last element.
func init() {
	register(&Rule{
		Name:     "NEXTGUARD",
		Doc:      "(a) on every control-flow path between two consecutive element reads (`Next`, `NextStr`, `NextInt`, `NextBin`) of a struct/list/map iterator of the generic packages, `HasNext()` of that iterator type is called: a second Next* without an intervening HasNext consumes an element nobody asked for; (b) no path that starts on the edge where HasNext() returned false reaches a Next* of that iterator type without a new HasNext(): reading an exhausted iterator yields an empty element instead of an out-of-range error",
		Configs:  "NP",
		Floor:    map[string]int{"N": 20, "P": 20},
		Controls: 1,
		Run:      runNextGuard,
	})
}

// iterCall classifies a call as Next*/HasNext of an *Iterator type; returns the receiver type name.
func iterCall(ins ssa.Instruction) (typ string, kind string) {
	c, ok := ins.(ssa.CallInstruction)
	if !ok {
		return "", ""
	}
	cal := c.Common().StaticCallee()
	if cal == nil || cal.Signature.Recv() == nil {
		return "", ""
	}
	rt := typeShort(cal.Signature.Recv().Type())
	rt = strings.TrimPrefix(rt, "*")
	if !strings.HasSuffix(rt, "Iterator") || !strings.Contains(rt, "generic.") {
		return "", ""
	}
	switch {
	case cal.Name() == "HasNext":
		return rt, "has"
	case strings.HasPrefix(cal.Name(), "Next"):
		return rt, "next"
	}
	return "", ""
}

func runNextGuard(rc *RuleCtx) {
	for _, fn := range rc.W.Funcs {
		if fn.Blocks == nil {
			continue
		}
		// clause (b): no element read on a path that starts at a HasNext()==false edge
		for _, b := range fn.Blocks {
			iff, ok := lastInstr(b).(*ssa.If)
			if !ok {
				continue
			}
			cond, neg := condKey(iff.Cond)
			ci, ok := cond.(ssa.Instruction)
			if !ok {
				continue
			}
			typ, kind := iterCall(ci)
			if kind != "has" {
				continue
			}
			rc.Examined++
			exhausted := b.Succs[1]
			if neg {
				exhausted = b.Succs[0]
			}
			seen := map[*ssa.BasicBlock]bool{exhausted: true}
			var hit ssa.Instruction
			var walk func(x *ssa.BasicBlock) bool
			walk = func(x *ssa.BasicBlock) bool {
				for _, ins := range x.Instrs {
					t2, k2 := iterCall(ins)
					if t2 != typ {
						continue
					}
					if k2 == "has" {
						return false
					}
					if k2 == "next" {
						hit = ins
						return true
					}
				}
				for _, s := range x.Succs {
					if !seen[s] {
						seen[s] = true
						if walk(s) {
							return true
						}
					}
				}
				return false
			}
			if walk(exhausted) {
				rc.bad(fn, typ+".HasNext false edge", iff.Cond.Pos(), "on the edge where HasNext() returned false a path reaches an element read ("+rc.W.relPos(hit.Pos())+") without asking HasNext() again: the read runs past the last element")
			} else {
				rc.ok(fn, typ+".HasNext false edge", iff.Cond.Pos(), "no element read follows an exhausted iterator", true)
			}
		}
		for _, b := range fn.Blocks {
			for i, ins := range b.Instrs {
				typ, kind := iterCall(ins)
				if kind != "next" {
					continue
				}
				rc.Examined++
				// forward search from the instruction after the call
				type pos struct {
					b *ssa.BasicBlock
					i int
				}
				seen := map[*ssa.BasicBlock]bool{}
				var hit ssa.Instruction
				var walk func(p pos) bool
				walk = func(p pos) bool {
					for k := p.i; k < len(p.b.Instrs); k++ {
						t2, k2 := iterCall(p.b.Instrs[k])
						if t2 != typ {
							continue
						}
						if k2 == "has" {
							return false // this path is guarded
						}
						if k2 == "next" {
							hit = p.b.Instrs[k]
							return true
						}
					}
					for _, s := range p.b.Succs {
						if seen[s] {
							continue
						}
						seen[s] = true
						if walk(pos{s, 0}) {
							return true
						}
					}
					return false
				}
				bad := walk(pos{b, i + 1})
				callee := ins.(ssa.CallInstruction).Common().StaticCallee().Name()
				if bad {
					rc.bad(fn, typ+"."+callee, ins.Pos(), "after this element read a path reaches another element read ("+rc.W.relPos(hit.Pos())+") of the same iterator type without calling HasNext() in between")
				} else {
					rc.ok(fn, typ+"."+callee, ins.Pos(), "every path to the next element read passes HasNext()", true)
				}
			}
		}
	}
}

package main

import (
	"golang.org/x/tools/go/ssa"
)

func init() {
	register(&Rule{
		Name:     "DROPERR",
		Doc:      "the error result of a call that may fail (mayFail summary: least fixpoint over static callees, dynamic callees may fail) is not discarded (bare call, `_ =`, `x, _ :=`): a dropped error silently changes the encoding/result",
		Configs:  "NP",
		Floor:    map[string]int{"N": 35, "P": 35},
		Controls: 1,
		Run:      runDropErr,
	})
}

func runDropErr(rc *RuleCtx) {
	w := rc.W
	for _, fn := range w.Funcs {
		for _, b := range fn.Blocks {
			for _, ins := range b.Instrs {
				call, ok := ins.(*ssa.Call)
				if !ok {
					continue
				}
				sig := call.Call.Signature()
				ei := errIndex(sig)
				if ei < 0 {
					continue
				}
				ev := errValueOf(call)
				used := ev != nil && len(*ev.Referrers()) > 0
				if used {
					continue
				}
				if cal := call.Call.StaticCallee(); cal != nil && cal.Pkg != nil {
					// accepted idiom: diagnostics printing (fmt.Fprint*/Print*, log.*) never carries a codec result
					if pp := cal.Pkg.Pkg.Path(); pp == "fmt" || pp == "log" {
						continue
					}
				}
				rc.Examined++
				name := "<dynamic>"
				if cal := call.Call.StaticCallee(); cal != nil {
					name = shortName(cal)
				} else if call.Call.IsInvoke() {
					name = "invoke " + call.Call.Method.Name()
				}
				if !w.calleeMayFail(call) {
					rc.ok(fn, name, call.Pos(), "callee can only return a nil error", true)
					continue
				}
				rc.bad(fn, name, call.Pos(), "error result of "+name+" (may be non-nil) is discarded")
			}
		}
	}
}

package main

import (
	"strings"

	"golang.org/x/tools/go/ssa"
)

// NEXTERR: the iterators of the generic packages do not return errors; a failed Next*() sets
// it.Err and returns whatever positions it had (end = 0 on a truncated value). A span taken from
// such a call and turned into a node (`self.slice(start, end, …)`) before it.Err has been looked at
// yields a node of negative length that later reads memory outside the caller's buffer.
func init() {
	register(&Rule{
		Name:     "NEXTERR",
		Doc:      "every use of the positions returned by an iterator's Next*() as arguments of a node-slicing call (slice, sliceWithDesc, sliceNodeWithDesc, sliceComplex) is dominated by a test of that iterator type's `.Err` field made after the Next*() call, on the edge where Err is nil",
		Configs:  "NP",
		Floor:    map[string]int{"N": 15, "P": 15},
		Controls: 1,
		Run:      runNextErr,
	})
}

func runNextErr(rc *RuleCtx) {
	for _, fn := range rc.W.Funcs {
		if fn.Blocks == nil {
			continue
		}
		for _, b := range fn.Blocks {
			for _, ins := range b.Instrs {
				typ, kind := iterCall(ins)
				if kind != "next" {
					continue
				}
				call, ok := ins.(*ssa.Call)
				if !ok || call.Referrers() == nil {
					continue
				}
				// extracts of the call used in slice calls
				for _, r := range *call.Referrers() {
					ex, ok := r.(*ssa.Extract)
					if !ok || ex.Referrers() == nil {
						continue
					}
					for _, u := range *ex.Referrers() {
						uc, ok := u.(ssa.CallInstruction)
						if !ok {
							continue
						}
						cal := uc.Common().StaticCallee()
						if cal == nil || !strings.HasPrefix(cal.Name(), "slice") {
							continue
						}
						rc.Examined++
						guarded := false
						for _, cd := range controllingIfs(u.Block()) {
							subj, nilOnTrue, ok := nilTest(cd.cond)
							if !ok || nilOnTrue != cd.val {
								continue
							}
							t, n, ok := fieldNameOfInstrValue(subj)
							if !ok || n != "Err" || !strings.HasSuffix(t, "Iterator") {
								continue
							}
							// the test must come after the Next call
							if cd.ifb == b {
								if indexOfInstr(b, ins) < len(b.Instrs) {
									guarded = true
								}
							} else if b.Dominates(cd.ifb) {
								guarded = true
							}
						}
						rc.verdict(guarded, fn, typ+" span -> "+cal.Name(), u.Pos(), map[bool]string{
							true:  "it.Err is tested (nil edge) between Next*() and the use of its span",
							false: "the span returned by " + typ + ".Next*() is made into a node before it.Err is tested: after a failed read the end position is stale (0) and the node has a negative length — later reads leave the caller's buffer"}[guarded], true)
						goto nextCall
					}
				}
			nextCall:
			}
		}
	}
}

// fieldNameOfInstrValue: (owner type, field) of a load `*(&x.f)` or of a field extract.
func fieldNameOfInstrValue(v ssa.Value) (string, string, bool) {
	switch x := v.(type) {
	case *ssa.UnOp:
		if t, n, ok := fieldNameOf(x.X); ok {
			return typeShort(t), n, true
		}
	case *ssa.Field:
		if t, n, ok := fieldNameOf(x); ok {
			return typeShort(t), n, true
		}
	}
	return "", "", false
}

package main

import (
	"fmt"
	"go/token"
	"go/types"
	"sort"
	"strings"

	"golang.org/x/tools/go/ssa"
)

func init() {
	register(&Rule{
		Name: "SEQAGREE",
		Doc: "sibling implementations agree: (a) thrift.GetBinaryMessageHeaderAndFooter and thrift.WrapBinaryBody issue the same sequence of BinaryProtocol writer calls with the same parameters (precomputed header/footer = wrapped form); " +
			"(b) Set and Get of caching.TrieTree and caching.HashMap derive the slot through the same helper functions (hash, index mapping, slot address); (c) each Get accepts an entry only after a full string equality between the stored key and the requested key",
		Configs: "NP",
		Floor:   map[string]int{"N": 4, "P": 4},
		Run:     runSeqAgree,
	})
}

func writerSeq(fn *ssa.Function) []string {
	type item struct {
		pos token.Pos
		s   string
	}
	var items []item
	for _, b := range fn.Blocks {
		for _, ins := range b.Instrs {
			c, ok := ins.(*ssa.Call)
			if !ok {
				continue
			}
			cal := c.Call.StaticCallee()
			if cal == nil || cal.Signature.Recv() == nil || !isNamed(cal.Signature.Recv().Type(), "thrift", "BinaryProtocol") || !strings.HasPrefix(cal.Name(), "Write") {
				continue
			}
			var args []string
			for _, a := range c.Call.Args[1:] {
				switch x := a.(type) {
				case *ssa.Parameter:
					args = append(args, x.Name())
				case *ssa.Const:
					args = append(args, x.Value.String())
				default:
					args = append(args, "?")
				}
			}
			items = append(items, item{c.Pos(), cal.Name() + "(" + strings.Join(args, ",") + ")"})
		}
	}
	sort.Slice(items, func(i, j int) bool { return items[i].pos < items[j].pos })
	var out []string
	for _, it := range items {
		out = append(out, it.s)
	}
	return out
}

func helperCalls(fn *ssa.Function) map[string]bool {
	out := map[string]bool{}
	for _, b := range fn.Blocks {
		for _, ins := range b.Instrs {
			if cal := staticCallee(ins); cal != nil && inRepo(pkgPathOf(cal)) {
				out[shortName(cal)] = true
			}
		}
	}
	return out
}

func hasStringKeyEquality(fn *ssa.Function) bool {
	if len(fn.Params) < 2 {
		return false
	}
	key := fn.Params[1]
	for _, b := range fn.Blocks {
		for _, ins := range b.Instrs {
			bo, ok := ins.(*ssa.BinOp)
			if !ok || bo.Op != token.EQL && bo.Op != token.NEQ {
				continue
			}
			isStr := func(v ssa.Value) bool {
				bt, ok := v.Type().Underlying().(*types.Basic)
				return ok && bt.Info()&types.IsString != 0
			}
			isKey := func(v ssa.Value) bool {
				if v == ssa.Value(key) {
					return true
				}
				// the parameter may live in a cell because its address is taken (&k)
				if ld, ok := v.(*ssa.UnOp); ok && ld.Op == token.MUL {
					if al, ok := ld.X.(*ssa.Alloc); ok {
						for _, r := range *al.Referrers() {
							if st, ok := r.(*ssa.Store); ok && st.Addr == ssa.Value(al) && st.Val == ssa.Value(key) {
								return true
							}
						}
					}
				}
				return false
			}
			if isStr(bo.X) && isStr(bo.Y) && (isKey(bo.X) || isKey(bo.Y)) {
				return true
			}
		}
	}
	return false
}

func runSeqAgree(rc *RuleCtx) {
	w := rc.W
	a, b := w.Fn("thrift.GetBinaryMessageHeaderAndFooter"), w.Fn("thrift.WrapBinaryBody")
	sa, sb := writerSeq(a), writerSeq(b)
	rc.Examined++
	rc.verdict(strings.Join(sa, ";") == strings.Join(sb, ";") && len(sa) >= 4, b, "envelope-writer-sequence", b.Pos(),
		fmt.Sprintf("header+footer: %v | wrap: %v", sa, sb), true)
	for _, t := range []string{"TrieTree", "HashMap"} {
		set, get := w.Fn("(*internal/caching."+t+").Set"), w.Fn("(*internal/caching."+t+").Get")
		hs, hg := helperCalls(set), helperCalls(get)
		var diff []string
		for k := range hs {
			if !hg[k] {
				diff = append(diff, "Set-only:"+k)
			}
		}
		for k := range hg {
			if !hs[k] {
				diff = append(diff, "Get-only:"+k)
			}
		}
		sort.Strings(diff)
		rc.Examined++
		rc.verdict(len(diff) == 0 && len(hs) > 0, get, "slot-helpers("+t+")", get.Pos(), fmt.Sprintf("Set and Get of %s derive the slot through %d common helpers; difference %v", t, len(hs), diff), true)
		rc.Examined++
		ok := hasStringKeyEquality(get)
		rc.verdict(ok, get, "full-key-equality("+t+")", get.Pos(), map[bool]string{true: "Get compares the whole key string", false: "Get of " + t + " never compares the stored key string with the requested key (hash/length equality is not key equality): undeclared keys can resolve to a field"}[ok], true)
	}
}

package main

import (
	"fmt"
	"go/ast"
	"go/constant"
	"go/token"
	"go/types"
	"os"
	"path/filepath"
	"regexp"
	"sort"
	"strconv"
	"strings"

	"golang.org/x/tools/go/ssa"
)

func init() {
	register(&Rule{
		Name: "FLAGSYNC",
		Doc: "(a) j2t.toFlags maps each conv.Option to its own single-bit types.F_* constant with the documented polarity (9-row table; bits pairwise distinct); " +
			"(b) every store into BinaryConv.opts (the whole struct or one option) reaches, on every path to a return, a store of toFlags(...) into the same converter's flags — otherwise the native converter runs with stale flags",
		Configs:  "NP",
		Floor:    map[string]int{"N": 10, "P": 10},
		Controls: 1,
		Run:      runFlagSync,
	})
	register(&Rule{
		Name:    "CHDRAGREE",
		Doc:     "the Go constants of internal/native/types that cross into native code (F_* option bits, ERR_* trap codes, V_* value types, J2T_* states, ERR_WRAP_SHIFT_*, MAX_RECURSE) equal the #define values of /repo/native/*.h from which the native blob is generated (assumption: the blob was built from these headers)",
		Configs: "N",
		Floor:   map[string]int{"N": 50},
		Run:     runCHdrAgree,
	})
}

var flagTable = []struct {
	opt, flag string
	positive  bool
}{
	{"WriteDefaultField", "F_WRITE_DEFAULT", true},
	{"DisallowUnknownField", "F_ALLOW_UNKNOWN", false},
	{"EnableValueMapping", "F_VALUE_MAPPING", true},
	{"EnableHttpMapping", "F_HTTP_MAPPING", true},
	{"String2Int64", "F_STRING_INT", true},
	{"WriteRequireField", "F_WRITE_REQUIRE", true},
	{"NoBase64Binary", "F_NO_BASE64", true},
	{"WriteOptionalField", "F_WRITE_OPTIONAL", true},
	{"ReadHttpValueFallback", "F_TRACE_BACK", true},
}

func runFlagSync(rc *RuleCtx) {
	w := rc.W
	p, fd := w.findDecl("conv/j2t.toFlags")
	type row struct {
		flag     string
		positive bool
		val      int64
		pos      token.Pos
	}
	got := map[string][]row{}
	for _, st := range fd.Body.List {
		is, ok := st.(*ast.IfStmt)
		if !ok {
			continue
		}
		cond := ast.Unparen(is.Cond)
		positive := true
		if u, ok := cond.(*ast.UnaryExpr); ok && u.Op == token.NOT {
			positive = false
			cond = ast.Unparen(u.X)
		}
		sel, ok := cond.(*ast.SelectorExpr)
		if !ok {
			continue
		}
		for _, bs := range is.Body.List {
			as, ok := bs.(*ast.AssignStmt)
			if !ok || as.Tok != token.OR_ASSIGN || len(as.Rhs) != 1 {
				continue
			}
			tv := p.TypesInfo.Types[as.Rhs[0]]
			v := int64(-1)
			if tv.Value != nil {
				v, _ = constant.Int64Val(tv.Value)
			}
			got[sel.Sel.Name] = append(got[sel.Sel.Name], row{lastIdent(as.Rhs[0]), positive, v, is.Pos()})
		}
	}
	usedBits := map[int64]string{}
	for _, r := range flagTable {
		rc.Examined++
		rows := got[r.opt]
		switch {
		case len(rows) == 0:
			rc.add(nil, "conv/j2t.toFlags", "option "+r.opt, fd.Pos(), "violated", "option "+r.opt+" is not mapped to any native flag", true)
		case len(rows) > 1:
			rc.add(nil, "conv/j2t.toFlags", "option "+r.opt, rows[1].pos, "violated", "option "+r.opt+" is mapped more than once", true)
		default:
			g := rows[0]
			good := g.flag == r.flag && g.positive == r.positive && g.val > 0 && g.val&(g.val-1) == 0
			detail := fmt.Sprintf("%s%s -> %s (=%d)", map[bool]string{true: "", false: "!"}[g.positive], r.opt, g.flag, g.val)
			if !good {
				detail += fmt.Sprintf("; expected %s%s -> %s, a single bit", map[bool]string{true: "", false: "!"}[r.positive], r.opt, r.flag)
			}
			if prev, dup := usedBits[g.val]; dup {
				good = false
				detail += "; bit already used by " + prev
			}
			usedBits[g.val] = r.opt
			rc.add(nil, "conv/j2t.toFlags", "option "+r.opt, g.pos, map[bool]string{true: "discharged", false: "violated"}[good], detail, true)
		}
	}
	for opt := range got {
		known := false
		for _, r := range flagTable {
			if r.opt == opt {
				known = true
			}
		}
		if !known {
			rc.Notes["unlisted_option"] = opt + " is mapped by toFlags but has no row in the rule table (add it)"
		}
	}
	// (b) stores into BinaryConv.opts must be followed by flags = toFlags(...)
	toFlags := w.Fn("conv/j2t.toFlags")
	isOptsAddr := func(v ssa.Value) (base ssa.Value, ok bool) {
		for i := 0; i < 4; i++ {
			fa, isFA := v.(*ssa.FieldAddr)
			if !isFA {
				return nil, false
			}
			if t, n, okn := fieldNameOf(fa); okn && n == "opts" && typeShort(t) == "conv/j2t.BinaryConv" {
				return fa.X, true
			}
			v = fa.X
		}
		return nil, false
	}
	for _, fn := range w.Funcs {
		if fn.Blocks == nil {
			continue
		}
		for _, b := range fn.Blocks {
			for _, ins := range b.Instrs {
				st, ok := ins.(*ssa.Store)
				if !ok {
					continue
				}
				base, ok := isOptsAddr(st.Addr)
				if !ok {
					continue
				}
				rc.Examined++
				isFlagsStore := func(i ssa.Instruction) bool {
					s2, ok := i.(*ssa.Store)
					if !ok {
						return false
					}
					fa, ok := s2.Addr.(*ssa.FieldAddr)
					if !ok || fa.X != base {
						return false
					}
					if _, n, ok := fieldNameOf(fa); !ok || n != "flags" {
						return false
					}
					c, ok := s2.Val.(*ssa.Call)
					return ok && c.Call.StaticCallee() == toFlags
				}
				r := mustPass(mpQuery{fn: fn, start: ins, isEvent: isFlagsStore, w: w})
				if r == nil {
					rc.ok(fn, "opts-store", st.Pos(), "flags recomputed with toFlags on every path after the options were written", true)
				} else {
					o := rc.bad(fn, "opts-store", st.Pos(), "BinaryConv.opts written but flags not recomputed (toFlags) before the function returns at "+w.relPos(instrPos(r.at))+": the native converter sees stale flags")
					o.Path = w.pathStrings(r)
				}
			}
		}
	}
}

var cAlias = map[string]string{
	"F_VALUE_MAPPING": "F_ENABLE_VM", "F_HTTP_MAPPING": "F_ENABLE_HM", "F_STRING_INT": "F_ENABLE_I2S",
	"F_DOUBLE_UNQUOTE": "F_DBLUNQ", "F_UNICODE_REPLACE": "F_UNIREP",
	"ERR_INVALID_CHAR": "ERR_INVAL", "ERR_INVALID_ESCAPE": "ERR_ESCAPE", "ERR_INVALID_UNICODE": "ERR_UNICODE",
	"ERR_INTEGER_OVERFLOW": "ERR_OVERFLOW", "ERR_INVALID_NUMBER_FMT": "ERR_NUMBER_FMT", "ERR_RECURSE_EXCEED_MAX": "ERR_RECURSE_MAX",
	"ERR_FLOAT_INFINITY": "ERR_FLOAT_INF", "ERR_HTTP_MAPPING": "ERR_HM", "ERR_HTTP_MAPPING_END": "ERR_HM_END", "ERR_VALUE_MAPPING_END": "ERR_VM_END",
}

var defineRe = regexp.MustCompile(`^\s*#define\s+([A-Z_0-9a-z]+)\s+(.+?)\s*$`)
var shiftRe = regexp.MustCompile(`^\(?\s*1(?:ull|ul|u|l)?\s*<<\s*(\d+)\s*\)?$`)
var numRe = regexp.MustCompile(`^\(?\s*(-?\d+)(?:ull|ul|u|l)?\s*\)?$`)

func parseCDefines(dir string) map[string]int64 {
	out := map[string]int64{}
	files, _ := filepath.Glob(filepath.Join(dir, "*.h"))
	sort.Strings(files)
	for _, f := range files {
		data, err := os.ReadFile(f)
		if err != nil {
			continue
		}
		for _, line := range strings.Split(string(data), "\n") {
			m := defineRe.FindStringSubmatch(line)
			if m == nil {
				continue
			}
			val := strings.TrimSpace(m[2])
			if i := strings.Index(val, "//"); i >= 0 {
				val = strings.TrimSpace(val[:i])
			}
			if sm := shiftRe.FindStringSubmatch(val); sm != nil {
				n, _ := strconv.Atoi(sm[1])
				out[m[1]] = 1 << uint(n)
			} else if nm := numRe.FindStringSubmatch(val); nm != nil {
				n, _ := strconv.ParseInt(nm[1], 10, 64)
				out[m[1]] = n
			}
		}
	}
	return out
}

func runCHdrAgree(rc *RuleCtx) {
	w := rc.W
	defs := parseCDefines(filepath.Join(w.Dir, "native"))
	if len(defs) < 40 {
		broken("CHDRAGREE: only %d #define constants parsed from %s/native/*.h", len(defs), w.Dir)
	}
	tp := w.Pkg("internal/native/types")
	scope := tp.Types.Scope()
	names := scope.Names()
	for _, n := range names {
		c, ok := scope.Lookup(n).(*types.Const)
		if !ok || c.Val().Kind() != constant.Int {
			continue
		}
		pref := false
		for _, p := range []string{"F_", "ERR_", "V_", "J2T_", "MAX_RECURSE"} {
			if strings.HasPrefix(n, p) {
				pref = true
			}
		}
		if !pref {
			continue
		}
		cn := n
		if a, ok := cAlias[n]; ok {
			cn = a
		}
		cv, ok := defs[cn]
		if !ok {
			continue // Go-only constant (cache sizes etc.)
		}
		rc.Examined++
		gv, _ := constant.Int64Val(c.Val())
		rc.add(nil, "internal/native/types", "const "+n, c.Pos(), map[bool]string{true: "discharged", false: "violated"}[gv == cv],
			fmt.Sprintf("Go %s = %d, C #define %s = %d", n, gv, cn, cv), true)
	}
}

package main

import (
	"fmt"
	"go/token"
	"go/types"
	"sort"
	"strings"

	"golang.org/x/tools/go/ssa"
)

func init() {
	register(&Rule{
		Name: "DESCIMMUT",
		Doc: "no function reachable (VTA call graph) from a read-side entry point stores into descriptor state (fields/elements of thrift/proto Type/Struct|Message/Field/Function|Method/Service descriptors, DefaultValue, util.FieldNameMap/FieldIDMap, caching.TrieTree/TrieNode/HashMap); " +
			"the slice returned by StructDescriptor.Requires() is used only as receiver of CopyTo/IsSet/len (never Set, never address-taken, never stored); converter receivers (*BinaryConv) are not written by Do*",
		Configs:  "N",
		VTA:      true,
		Floor:    map[string]int{"N": 120},
		Controls: 1,
		Run:      runDescImmut,
	})
	register(&Rule{
		Name:     "GLOBALWRITE",
		Doc:      "no function reachable (VTA call graph) from a read-side entry point stores to a package-level variable of the repository (sync.Pool internals excepted): concurrent read-side calls share no mutable global",
		Configs:  "N",
		VTA:      true,
		Floor:    map[string]int{"N": 2},
		Controls: 1,
		Run:      runGlobalWrite,
	})
	register(&Rule{
		Name: "INPUTRO",
		Doc: "write events into the caller's input memory (store / copy destination / BinaryEncoding.Encode* / binary.*Endian.Put* / ModifyI32 / AppendVarint(b[:pos]) whose destination derives, by backward slice, from rt.BytesFrom/AddPtr/IndexPtr of Node.v, Node.raw(), or a BinaryProtocol whose Buf was set from those) " +
			"occur only in functions NOT reachable from a read-side entry point (i.e. only under SetByPath/SetMany/UnsetByPath/ReplaceByPath)",
		Configs:  "N",
		VTA:      true,
		Floor:    map[string]int{"N": 3},
		Controls: 1,
		Run:      runInputRO,
	})
}

var entryPkgs = map[string]bool{
	"thrift": true, "thrift/generic": true, "proto/binary": true, "proto/generic": true, "proto/protowire": true, "proto": true,
	"conv/j2t": true, "conv/t2j": true, "conv/j2p": true, "conv/p2j": true, "thrift/annotation": true, "http": true,
}

var mutatorNames = map[string]bool{"SetByPath": true, "SetMany": true, "UnsetByPath": true, "ReplaceByPath": true}

var parsePrefixes = []string{"NewDes", "Register", "RemoveAnnotation", "InitAGWAnnos", "FnRequest", "FnResponse", "FnWholeResponse", "GetFnDescFromFile", "GetDescFromContent", "NewDescritorFrom", "NewDescriptorFrom", "SetOptions", "SetBase64Decoder"}

func isParseEntry(fn *ssa.Function) bool {
	for _, p := range parsePrefixes {
		if strings.HasPrefix(fn.Name(), p) {
			return true
		}
	}
	return false
}

// readEntries: exported functions/methods (of exported types) of the API packages, minus the
// tabled mutators, the IDL parsers/registrars and test utilities. Control fixtures named
// ZZControlRead* are entries too.
func (w *World) readEntries() []*ssa.Function {
	var out []*ssa.Function
	for _, fn := range w.Funcs {
		if fn.Pkg == nil || fn.Parent() != nil || !entryPkgs[pkgRel(fn)] || fn.Synthetic != "" {
			continue
		}
		obj := fn.Object()
		if obj == nil || !obj.Exported() {
			continue
		}
		if recv := fn.Signature.Recv(); recv != nil {
			if n, ok := derefType(recv.Type()).(*types.Named); ok && !n.Obj().Exported() {
				continue
			}
		}
		if mutatorNames[fn.Name()] || isParseEntry(fn) {
			continue
		}
		file := w.fileOf(fn.Pos())
		if strings.HasSuffix(file, "test_util.go") || strings.HasSuffix(file, "utils_test.go") {
			continue
		}
		// value/Node setters that build new values (Set* on PathNode mutate the caller's own tree, not shared state)
		out = append(out, fn)
	}
	return out
}

type reachInfo struct {
	parent map[*ssa.Function]*ssa.Function
	roots  int
}

var reachCache = map[*World]*reachInfo{}

func (w *World) readReach() *reachInfo {
	if r := reachCache[w]; r != nil {
		return r
	}
	cg := w.VTA()
	roots := w.readEntries()
	parent := map[*ssa.Function]*ssa.Function{}
	var q []*ssa.Function
	for _, r := range roots {
		if _, ok := parent[r]; !ok {
			parent[r] = nil
			q = append(q, r)
		}
	}
	for len(q) > 0 {
		f := q[0]
		q = q[1:]
		if n := cg.Nodes[f]; n != nil {
			for _, e := range n.Out {
				g := e.Callee.Func
				if g.Name() == "init" || strings.HasPrefix(g.Name(), "init#") {
					continue // init functions cannot be referenced or called
				}
				if _, ok := parent[g]; !ok {
					parent[g] = f
					q = append(q, g)
				}
			}
		}
		for _, a := range f.AnonFuncs {
			if _, ok := parent[a]; !ok {
				parent[a] = f
				q = append(q, a)
			}
		}
	}
	r := &reachInfo{parent: parent, roots: len(roots)}
	reachCache[w] = r
	return r
}

func (r *reachInfo) chain(f *ssa.Function) []string {
	var s []string
	for f != nil && len(s) < 12 {
		s = append(s, shortName(f))
		f = r.parent[f]
	}
	return s
}

var descTypeNames = map[string]bool{
	"thrift.TypeDescriptor": true, "thrift.StructDescriptor": true, "thrift.FieldDescriptor": true, "thrift.FunctionDescriptor": true, "thrift.ServiceDescriptor": true, "thrift.DefaultValue": true,
	"proto.TypeDescriptor": true, "proto.MessageDescriptor": true, "proto.FieldDescriptor": true, "proto.MethodDescriptor": true, "proto.ServiceDescriptor": true,
	"internal/util.FieldNameMap": true, "internal/util.FieldIDMap": true, "internal/caching.TrieTree": true, "internal/caching.TrieNode": true, "internal/caching.HashMap": true, "internal/caching.Entry": true, "internal/caching.Pair": true,
}

// storeTarget classifies an address: a field (or element below a field) of descriptor state, or a global.
func storeTarget(addr ssa.Value) (descField string, global *ssa.Global) {
	for i := 0; addr != nil && i < 20; i++ {
		switch a := addr.(type) {
		case *ssa.FieldAddr:
			if t, n, ok := fieldNameOf(a); ok && descTypeNames[typeShort(t)] {
				return typeShort(t) + "." + n, nil
			}
			addr = a.X
		case *ssa.IndexAddr:
			addr = a.X
		case *ssa.Global:
			return "", a
		case *ssa.UnOp:
			addr = a.X
		case *ssa.Slice:
			addr = a.X
		case *ssa.ChangeType:
			addr = a.X
		case *ssa.Convert:
			addr = a.X
		default:
			return "", nil
		}
	}
	return "", nil
}

func runDescImmut(rc *RuleCtx) {
	w := rc.W
	reach := w.readReach()
	rc.Stats["read_entries"] = reach.roots
	rc.Stats["reachable_functions"] = len(reach.parent)
	if reach.roots < 200 {
		broken("DESCIMMUT: only %d read entries discovered", reach.roots)
	}
	nstores, nreach := 0, 0
	for _, fn := range w.Funcs {
		for _, b := range fn.Blocks {
			for _, ins := range b.Instrs {
				var addr ssa.Value
				switch x := ins.(type) {
				case *ssa.Store:
					addr = x.Addr
				case *ssa.MapUpdate:
					addr = x.Map
				default:
					continue
				}
				df, _ := storeTarget(addr)
				if df == "" {
					continue
				}
				nstores++
				rc.Examined++
				if _, ok := reach.parent[fn]; !ok {
					continue
				}
				// a store through a descriptor that was allocated in this very function (building a
				// fresh value) is not a write to shared state
				if allocatedHere(addr) {
					continue
				}
				nreach++
				o := rc.bad(fn, "store "+df, ins.Pos(), "descriptor state "+df+" is written in a function reachable from read-side entry point(s)")
				o.Path = reach.chain(fn)
			}
		}
	}
	rc.Stats["descriptor_stores"] = nstores
	// one summary obligation so that a clean tree still documents the scan
	rc.ok(nil0(w), "descriptor-store-scan", token.NoPos, fmt.Sprintf("%d descriptor-state stores scanned, %d of them in the %d functions reachable from %d read entries", nstores, nreach, len(reach.parent), reach.roots), true)
	// Requires() usage
	req := w.Fn("(thrift.StructDescriptor).Requires")
	for _, fn := range w.Funcs {
		for _, b := range fn.Blocks {
			for _, ins := range b.Instrs {
				c, ok := ins.(*ssa.Call)
				if !ok || c.Call.StaticCallee() != req {
					continue
				}
				rc.Examined++
				bad := ""
				for _, r := range *c.Referrers() {
					switch u := r.(type) {
					case *ssa.Call:
						cal := u.Call.StaticCallee()
						if cal != nil && len(u.Call.Args) > 0 && u.Call.Args[0] == c && (cal.Name() == "CopyTo" || cal.Name() == "IsSet" || cal.Name() == "String") {
							continue
						}
						if bi, ok := u.Call.Value.(*ssa.Builtin); ok && (bi.Name() == "len" || bi.Name() == "cap") {
							continue
						}
						bad = "passed to " + calleeShort(u)
					case *ssa.DebugRef:
					case *ssa.Return:
						if fn == req {
							continue
						}
						bad = "returned"
					default:
						bad = fmt.Sprintf("used by %T", r)
					}
				}
				rc.verdict(bad == "", fn, "Requires()", c.Pos(), map[bool]string{true: "descriptor's requires bitmap only copied / queried", false: "the descriptor's own requires bitmap (shared backing array) is " + bad + " — it may be mutated instead of a pooled copy"}[bad == ""], true)
			}
		}
	}
	// converter receivers
	for _, fn := range w.Funcs {
		if fn.Signature.Recv() == nil || !strings.HasPrefix(fn.Name(), "Do") && fn.Name() != "do" && fn.Name() != "doRecurse" && fn.Name() != "doNative" && fn.Name() != "doImpl" {
			continue
		}
		pr := pkgRel(fn)
		if !strings.HasPrefix(pr, "conv/") || len(fn.Params) == 0 {
			continue
		}
		if _, isPtr := fn.Signature.Recv().Type().(*types.Pointer); !isPtr {
			continue
		}
		recv := fn.Params[0]
		rc.Examined++
		bad := token.NoPos
		for _, b := range fn.Blocks {
			for _, ins := range b.Instrs {
				if st, ok := ins.(*ssa.Store); ok && addrRootIs(st.Addr, recv) {
					bad = st.Pos()
				}
			}
		}
		rc.verdict(!bad.IsValid(), fn, "converter-receiver", fn.Pos(), map[bool]string{true: "receiver not written", false: "the shared converter instance is written at " + w.relPos(bad)}[!bad.IsValid()], true)
	}
}

// nil0 returns a stable function to hang summary obligations on.
func nil0(w *World) *ssa.Function { return w.Fn("(thrift.StructDescriptor).Requires") }

func addrRootIs(a ssa.Value, root ssa.Value) bool {
	for i := 0; i < 10; i++ {
		if a == root {
			return true
		}
		switch x := a.(type) {
		case *ssa.FieldAddr:
			a = x.X
		case *ssa.IndexAddr:
			a = x.X
		default:
			return false
		}
	}
	return false
}

// allocatedHere: the base of the address is a fresh allocation of this function (new value under construction).
func allocatedHere(a ssa.Value) bool {
	for i := 0; i < 20; i++ {
		switch x := a.(type) {
		case *ssa.Alloc:
			return true
		case *ssa.FieldAddr:
			a = x.X
		case *ssa.IndexAddr:
			a = x.X
		case *ssa.MakeMap, *ssa.MakeSlice:
			return true
		default:
			return false
		}
	}
	return false
}

func runGlobalWrite(rc *RuleCtx) {
	w := rc.W
	reach := w.readReach()
	n := 0
	for _, fn := range w.Funcs {
		if fn.Name() == "init" || strings.HasPrefix(fn.Name(), "init#") {
			continue
		}
		for _, b := range fn.Blocks {
			for _, ins := range b.Instrs {
				var addr ssa.Value
				switch x := ins.(type) {
				case *ssa.Store:
					addr = x.Addr
				case *ssa.MapUpdate:
					addr = x.Map
				default:
					continue
				}
				_, g := storeTarget(addr)
				if g == nil || g.Pkg == nil || !inRepo(g.Pkg.Pkg.Path()) {
					continue
				}
				n++
				rc.Examined++
				if _, ok := reach.parent[fn]; !ok {
					rc.ok(fn, "store "+g.Name(), ins.Pos(), "not reachable from a read-side entry (registration / configuration API)", true)
					continue
				}
				o := rc.bad(fn, "store "+g.Name(), ins.Pos(), "package-level variable "+g.Pkg.Pkg.Name()+"."+g.Name()+" is written in a function reachable from read-side entry point(s)")
				o.Path = reach.chain(fn)
			}
		}
	}
	rc.Stats["global_stores_outside_init"] = n
}

// ---- INPUTRO ----

func inputDerived(v ssa.Value, seen map[ssa.Value]bool, depth int) (bool, string) {
	if v == nil || seen[v] || depth > 25 {
		return false, ""
	}
	seen[v] = true
	isNode := func(t types.Type) bool {
		s := typeShort(derefType(t))
		return s == "thrift/generic.Node" || s == "proto/generic.Node" || s == "thrift/generic.Value" || s == "proto/generic.Value"
	}
	switch x := v.(type) {
	case *ssa.Call:
		if cal := x.Call.StaticCallee(); cal != nil {
			n := shortName(cal)
			switch {
			case n == "internal/rt.BytesFrom" || n == "internal/rt.AddPtr" || n == "internal/rt.SubPtr" || n == "internal/rt.IndexPtr":
				for _, a := range x.Call.Args {
					if ok, why := inputDerived(a, seen, depth+1); ok {
						return true, why
					}
				}
				return false, ""
			case strings.HasSuffix(n, "generic.Node).raw") || strings.HasSuffix(n, "generic.Node).Raw"):
				return true, "Node.raw()"
			case n == "internal/rt.Str2Mem":
				return true, "Str2Mem(string)"
			}
		}
		return false, ""
	case *ssa.Field:
		if isNode(x.X.Type()) {
			if _, n, ok := fieldNameOf(x); ok && n == "v" {
				return true, "Node.v"
			}
		}
		return inputDerived(x.X, seen, depth+1)
	case *ssa.FieldAddr:
		t, fname, ok := fieldNameOf(x)
		if !ok {
			return false, ""
		}
		if isNode(t) && fname == "v" {
			return true, "Node.v"
		}
		if strings.HasSuffix(typeShort(t), "BinaryProtocol") && fname == "Buf" {
			for _, r := range *x.X.Referrers() {
				fa, ok := r.(*ssa.FieldAddr)
				if !ok || fa.Field != x.Field {
					continue
				}
				for _, rr := range *fa.Referrers() {
					if st, ok := rr.(*ssa.Store); ok && st.Addr == fa {
						if ok, why := inputDerived(st.Val, seen, depth+1); ok {
							return true, "p.Buf=" + why
						}
					}
				}
			}
			return false, ""
		}
		return inputDerived(x.X, seen, depth+1)
	case *ssa.UnOp:
		return inputDerived(x.X, seen, depth+1)
	case *ssa.Slice:
		return inputDerived(x.X, seen, depth+1)
	case *ssa.IndexAddr:
		return inputDerived(x.X, seen, depth+1)
	case *ssa.Convert:
		return inputDerived(x.X, seen, depth+1)
	case *ssa.ChangeType:
		return inputDerived(x.X, seen, depth+1)
	case *ssa.BinOp:
		if ok, why := inputDerived(x.X, seen, depth+1); ok {
			return ok, why
		}
		return inputDerived(x.Y, seen, depth+1)
	case *ssa.Phi:
		for _, e := range x.Edges {
			if ok, why := inputDerived(e, seen, depth+1); ok {
				return ok, why
			}
		}
	case *ssa.Alloc:
		for _, r := range *x.Referrers() {
			if fa, ok := r.(*ssa.FieldAddr); ok {
				if _, n, ok := fieldNameOf(fa); ok && n == "Buf" {
					for _, rr := range *fa.Referrers() {
						if s, ok := rr.(*ssa.Store); ok && s.Addr == fa {
							if ok, why := inputDerived(s.Val, seen, depth+1); ok {
								return true, "p.Buf=" + why
							}
						}
					}
				}
			}
		}
	}
	return false, ""
}

func runInputRO(rc *RuleCtx) {
	w := rc.W
	reach := w.readReach()
	type ev struct {
		fn   *ssa.Function
		ins  ssa.Instruction
		kind string
		why  string
	}
	var evs []ev
	for _, fn := range w.Funcs {
		for _, b := range fn.Blocks {
			for _, ins := range b.Instrs {
				var dst ssa.Value
				kind := ""
				switch x := ins.(type) {
				case *ssa.Store:
					if bt, ok := x.Val.Type().Underlying().(*types.Basic); ok && bt.Info()&types.IsInteger != 0 {
						dst, kind = x.Addr, "store"
					}
				case *ssa.Call:
					if bi, ok := x.Call.Value.(*ssa.Builtin); ok && bi.Name() == "copy" {
						dst, kind = x.Call.Args[0], "copy"
					} else if cal := x.Call.StaticCallee(); cal != nil {
						n := cal.String()
						switch {
						case strings.Contains(n, "BinaryEncoding).Encode") && len(x.Call.Args) > 1:
							dst, kind = x.Call.Args[1], cal.Name()
						case strings.Contains(n, "encoding/binary.bigEndian).PutUint"), strings.Contains(n, "encoding/binary.littleEndian).PutUint"):
							dst, kind = x.Call.Args[1], cal.Name()
						case strings.HasSuffix(n, "BinaryProtocol).ModifyI32"):
							dst, kind = x.Call.Args[0], "ModifyI32"
						case strings.HasSuffix(n, "protowire.AppendVarint") || strings.HasSuffix(n, "BinaryEncoder).EncodeUint64") && len(x.Call.Args) > 1:
							if strings.HasSuffix(n, "AppendVarint") {
								dst, kind = x.Call.Args[0], "AppendVarint"
							} else {
								dst, kind = x.Call.Args[1], cal.Name()
							}
						case strings.HasSuffix(n, ".memmove") || strings.HasSuffix(n, "rt.Memmove"):
							dst, kind = x.Call.Args[0], "memmove"
						}
					}
				}
				if dst == nil {
					continue
				}
				rc.Examined++
				ok, why := inputDerived(dst, map[ssa.Value]bool{}, 0)
				if !ok {
					continue
				}
				evs = append(evs, ev{fn, ins, kind, why})
			}
		}
	}
	sort.SliceStable(evs, func(i, j int) bool { return shortName(evs[i].fn) < shortName(evs[j].fn) })
	rc.Stats["input_write_events"] = len(evs)
	for _, e := range evs {
		if _, r := reach.parent[e.fn]; r {
			o := rc.bad(e.fn, "input-write "+e.kind, e.ins.Pos(), "the caller's input bytes ("+e.why+") are written by "+e.kind+" in a function reachable from read-side entry point(s)")
			o.Path = reach.chain(e.fn)
		} else {
			rc.ok(e.fn, "input-write "+e.kind, e.ins.Pos(), "in-place write ("+e.why+") only under the mutator API", true)
		}
	}
}

package main

import (
	"go/token"
	"go/types"

	"golang.org/x/tools/go/ssa"
)

// FRAMEWRITE: an explicit stack is a slice field indexed by a counter field of the same struct
// (`self.stk[self.sp]`). Advancing the counter makes a new top frame current; every reader takes
// `stk[sp]` for the frame of the value being parsed, so whoever advances the counter has to write
// that frame. A handler that only advances it (a value that opens no frame, e.g. JSON null) leaves
// the stack one deeper than the document, and every later event is resolved against a stale frame.
func init() {
	register(&Rule{
		Name:     "FRAMEWRITE",
		Doc:      "for every struct with a slice-of-structs field indexed by a counter field of the same struct (an explicit stack of frames): a function that increments the counter (`x.c++`), or — when that function does not write the frame itself — each function calling it, stores the new frame `x.stk[x.c] = …`; advancing the stack pointer without writing the frame leaves the stack deeper than the document",
		Configs:  "NP",
		Floor:    map[string]int{"N": 1, "P": 1},
		Controls: 1,
		Run:      runFrameWrite,
	})
}

// counterOfFrame: IndexAddr x.stk[x.c] -> (owner type, counter field name)
func frameIndex(ia *ssa.IndexAddr) (sfield, sfield, bool) {
	stk, ok := loadedField(ia.X)
	if !ok {
		return sfield{}, sfield{}, false
	}
	idx := ia.Index
	for {
		if c, ok := idx.(*ssa.Convert); ok {
			idx = c.X
			continue
		}
		break
	}
	// frames are structs (a []byte indexed by a read cursor is a buffer, not a stack)
	if sl, ok := ia.X.Type().Underlying().(*types.Slice); !ok {
		return sfield{}, sfield{}, false
	} else if _, isStruct := sl.Elem().Underlying().(*types.Struct); !isStruct {
		return sfield{}, sfield{}, false
	}
	cnt, ok := loadedField(idx)
	if !ok || cnt.owner != stk.owner {
		return sfield{}, sfield{}, false
	}
	return stk, cnt, true
}

func runFrameWrite(rc *RuleCtx) {
	w := rc.W
	// 1. stacks: counter field -> stack field
	stackOf := map[sfield]sfield{}
	for _, fn := range w.Funcs {
		for _, b := range fn.Blocks {
			for _, ins := range b.Instrs {
				if ia, ok := ins.(*ssa.IndexAddr); ok {
					if stk, cnt, ok := frameIndex(ia); ok {
						stackOf[cnt] = stk
					}
				}
			}
		}
	}
	writesFrame := func(fn *ssa.Function, cnt sfield) bool {
		for _, b := range fn.Blocks {
			for _, ins := range b.Instrs {
				st, ok := ins.(*ssa.Store)
				if !ok {
					continue
				}
				addr := st.Addr
				// stk[c] = frame   or   stk[c].f = v
				for {
					if fa, ok := addr.(*ssa.FieldAddr); ok {
						addr = fa.X
						continue
					}
					break
				}
				if ia, ok := addr.(*ssa.IndexAddr); ok {
					if _, c, ok := frameIndex(ia); ok && c == cnt {
						if _, whole := st.Addr.(*ssa.IndexAddr); whole {
							return true
						}
					}
				}
			}
		}
		return false
	}
	// 2. incrementers
	for _, fn := range w.Funcs {
		for _, b := range fn.Blocks {
			for _, ins := range b.Instrs {
				st, ok := ins.(*ssa.Store)
				if !ok {
					continue
				}
				t, n, ok := fieldNameOf(st.Addr)
				if !ok {
					continue
				}
				cnt := sfield{typeShort(t), n}
				if _, isStack := stackOf[cnt]; !isStack {
					continue
				}
				bo, ok := st.Val.(*ssa.BinOp)
				if !ok || bo.Op != token.ADD {
					continue
				}
				if lf, ok := loadedField(bo.X); !ok || lf != cnt {
					continue
				}
				if _, isInt := st.Val.Type().Underlying().(*types.Basic); !isInt {
					continue
				}
				if writesFrame(fn, cnt) {
					rc.Examined++
					rc.ok(fn, "advance "+cnt.name, st.Pos(), "the function that advances the stack pointer writes the new frame", true)
					continue
				}
				sites := callSitesOf(w, fn)
				for _, cs := range sites {
					caller := cs.Parent()
					rc.Examined++
					good := writesFrame(caller, cnt)
					rc.verdict(good, caller, "advance "+cnt.name+" via "+fn.Name(), cs.Pos(), map[bool]string{
						true:  "the caller of " + fn.Name() + " writes the new top frame " + stackOf[cnt].name + "[" + cnt.name + "]",
						false: "calls " + fn.Name() + " (which advances " + cnt.owner + "." + cnt.name + ") but never writes the frame " + stackOf[cnt].name + "[" + cnt.name + "]: the stack is left one deeper than the document and later events read a stale frame"}[good], true)
				}
			}
		}
	}
}

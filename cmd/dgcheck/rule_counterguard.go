package main

import (
	"go/ast"
	"go/token"
	"go/types"
	"sort"
	"strings"
)

// COUNTERGUARD: a nesting counter is opened and closed under the same condition. The portable
// JSON skipper counts brackets only outside string literals (`if !inquote { n++ }` / `if !inquote
// { n-- }`); if one of the two updates loses its guard, a bracket inside a string literal unbalances
// the count and a valid document is rejected (or an invalid one accepted).
func init() {
	register(&Rule{
		Name:     "COUNTERGUARD",
		Doc:      "for every local integer variable that a function both increments and decrements by a constant: the boolean flag conditions (`b` / `!b` with b a local bool variable) that enclose the increments are the same as those that enclose the decrements",
		Configs:  "NP",
		Floor:    map[string]int{"N": 1, "P": 1},
		Controls: 1,
		Run:      runCounterGuard,
	})
}

func runCounterGuard(rc *RuleCtx) {
	for _, p := range rc.W.Pkgs {
		rel := strings.TrimPrefix(strings.TrimPrefix(p.PkgPath, modPath), "/")
		if strings.HasPrefix(rel, "internal/native") {
			continue
		}
		info := p.TypesInfo
		for _, f := range p.Syntax {
			for _, d := range f.Decls {
				fd, ok := d.(*ast.FuncDecl)
				if !ok || fd.Body == nil {
					continue
				}
				type upd struct {
					inc    bool
					guards string
					pos    ast.Node
				}
				ups := map[types.Object][]upd{}
				var stack []ast.Node
				flagGuards := func() string {
					var gs []string
					for i, n := range stack {
						is, ok := n.(*ast.IfStmt)
						if !ok || i+1 >= len(stack) || stack[i+1] != ast.Node(is.Body) {
							continue
						}
						c := ast.Unparen(is.Cond)
						neg := false
						if u, ok := c.(*ast.UnaryExpr); ok && u.Op == token.NOT {
							neg = true
							c = ast.Unparen(u.X)
						}
						if id, ok := c.(*ast.Ident); ok {
							if v, ok := info.Uses[id].(*types.Var); ok && !v.IsField() && types.Identical(v.Type().Underlying(), types.Typ[types.Bool]) {
								g := id.Name
								if neg {
									g = "!" + g
								}
								gs = append(gs, g)
							}
						}
					}
					sort.Strings(gs)
					return strings.Join(gs, ",")
				}
				ast.Inspect(fd.Body, func(n ast.Node) bool {
					if n == nil {
						stack = stack[:len(stack)-1]
						return false
					}
					stack = append(stack, n)
					var id *ast.Ident
					inc := false
					switch x := n.(type) {
					case *ast.IncDecStmt:
						id, _ = x.X.(*ast.Ident)
						inc = x.Tok == token.INC
					case *ast.AssignStmt:
						if (x.Tok == token.ADD_ASSIGN || x.Tok == token.SUB_ASSIGN) && len(x.Lhs) == 1 {
							if tv, ok := info.Types[x.Rhs[0]]; ok && tv.Value != nil {
								id, _ = x.Lhs[0].(*ast.Ident)
								inc = x.Tok == token.ADD_ASSIGN
							}
						}
					}
					if id != nil {
						if v, ok := info.Uses[id].(*types.Var); ok && !v.IsField() && v.Parent() != nil && v.Parent() != v.Pkg().Scope() {
							if b, ok := v.Type().Underlying().(*types.Basic); ok && b.Info()&types.IsInteger != 0 {
								ups[v] = append(ups[v], upd{inc, flagGuards(), n})
							}
						}
					}
					return true
				})
				for v, us := range ups {
					incs, decs := map[string]bool{}, map[string]bool{}
					var firstDec, firstInc ast.Node
					for _, u := range us {
						if u.inc {
							incs[u.guards] = true
							if firstInc == nil {
								firstInc = u.pos
							}
						} else {
							decs[u.guards] = true
							if firstDec == nil {
								firstDec = u.pos
							}
						}
					}
					if len(incs) == 0 || len(decs) == 0 {
						continue
					}
					// only counters where some update is flag-guarded are of interest
					anyGuard := false
					for g := range incs {
						if g != "" {
							anyGuard = true
						}
					}
					for g := range decs {
						if g != "" {
							anyGuard = true
						}
					}
					if !anyGuard {
						continue
					}
					rc.Examined++
					same := len(incs) == len(decs)
					for g := range incs {
						if !decs[g] {
							same = false
						}
					}
					ks := func(m map[string]bool) string {
						var o []string
						for k := range m {
							if k == "" {
								k = "(none)"
							}
							o = append(o, k)
						}
						sort.Strings(o)
						return strings.Join(o, " | ")
					}
					rc.add(nil, declName(rel, fd), "counter "+v.Name(), firstInc.Pos(), map[bool]string{true: "discharged", false: "violated"}[same],
						map[bool]string{true: "increments and decrements of `" + v.Name() + "` are guarded alike (" + ks(incs) + ")", false: "`" + v.Name() + "` is incremented under [" + ks(incs) + "] but decremented under [" + ks(decs) + "]: the nesting count goes wrong whenever the flag is set"}[same], false)
				}
			}
		}
	}
}

package main

import (
	"strings"

	"golang.org/x/tools/go/ssa"
)

// REWIND: structIterator.Next() of proto/generic consumes ONE occurrence (tag, length, value) of a
// field and leaves the cursor behind it. SkipAllElements*, which delimits a whole repeated/map
// field, expects the cursor on the tag of the FIRST occurrence. A walker that has just taken the
// first occurrence with Next() therefore has to move the cursor back (`it.p.Read = tagPos`)
// before it calls SkipAllElements*; otherwise the next field's tag is consumed as part of the list.
func init() {
	register(&Rule{
		Name:     "REWIND",
		Doc:      "on every path from a structIterator.Next() call to a BinaryProtocol.SkipAllElements/SkipAllElementsWithType call in proto/generic the cursor is re-positioned (a store to `.Read`) in between: Next() has already consumed the first occurrence that SkipAllElements must start on",
		Configs:  "NP",
		Floor:    map[string]int{"N": 4, "P": 4},
		Controls: 1,
		Run:      runRewind,
	})
}

func runRewind(rc *RuleCtx) {
	for _, fn := range rc.W.Funcs {
		if fn.Blocks == nil {
			continue
		}
		for _, b := range fn.Blocks {
			for i, ins := range b.Instrs {
				c, ok := ins.(ssa.CallInstruction)
				if !ok {
					continue
				}
				cal := c.Common().StaticCallee()
				if cal == nil || !strings.HasPrefix(cal.Name(), "SkipAllElements") {
					continue
				}
				rc.Examined++
				// backward search
				seen := map[*ssa.BasicBlock]bool{}
				var hit ssa.Instruction
				var back func(x *ssa.BasicBlock, from int) bool
				back = func(x *ssa.BasicBlock, from int) bool {
					for k := from; k >= 0; k-- {
						in := x.Instrs[k]
						if storesRead(in) {
							return false
						}
						if t, kind := iterCall(in); kind == "next" && strings.HasSuffix(t, "structIterator") {
							hit = in
							return true
						}
					}
					for _, p := range x.Preds {
						if !seen[p] {
							seen[p] = true
							if back(p, len(p.Instrs)-1) {
								return true
							}
						}
					}
					return false
				}
				if back(b, i-1) {
					rc.bad(fn, cal.Name(), ins.Pos(), "reached from structIterator.Next ("+rc.W.relPos(hit.Pos())+") without re-positioning the cursor: the first occurrence has been consumed, the following field is swallowed as a list element")
				} else {
					rc.ok(fn, cal.Name(), ins.Pos(), "the cursor is re-positioned between Next() and SkipAllElements (or Next() does not precede it)", true)
				}
			}
		}
	}
}

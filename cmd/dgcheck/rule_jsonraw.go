package main

import (
	"strings"

	"golang.org/x/tools/go/ssa"
)

func init() {
	register(&Rule{
		Name:     "JSONSTRRAW",
		Doc:      "in the binary->JSON converters a string or byte slice read from the message (result of BinaryProtocol.ReadString*/ReadBinary/ReadBytes of either protocol) never reaches the JSON output through a raw append(out, s...): it must pass json.EncodeString / NoQuote / EncodeBaniry, which escape quotes, backslashes and control characters (map keys included); the one verbatim splice the library wants (agw.body_dynamic: the string IS a JSON document) is accepted only on the true edge of encoding/json.Valid of that string",
		Configs:  "NP",
		Floor:    map[string]int{"N": 8, "P": 8},
		Controls: 1,
		Run:      runJSONStrRaw,
	})
	register(&Rule{
		Name:     "ERRMISMATCH",
		Doc:      "an error returned by a fallible call is judged by its OWN nil test: if the value is never compared with nil, and its only uses (wrapping / returning) sit inside a branch guarded by the nil test of a DIFFERENT error variable, the check tests the wrong variable and the failure is silently ignored",
		Configs:  "NP",
		Floor:    map[string]int{"N": 300, "P": 300},
		Controls: 1,
		Run:      runErrMismatch,
	})
}

func wireString(v ssa.Value, d int) bool {
	if d > 6 || v == nil {
		return false
	}
	switch x := v.(type) {
	case *ssa.Extract:
		if c, ok := x.Tuple.(*ssa.Call); ok {
			if cal := c.Call.StaticCallee(); cal != nil && cal.Signature.Recv() != nil &&
				(isNamed(cal.Signature.Recv().Type(), "thrift", "BinaryProtocol") || isNamed(cal.Signature.Recv().Type(), "proto/binary", "BinaryProtocol")) {
				n := cal.Name()
				return strings.HasPrefix(n, "ReadString") || n == "ReadBinary" || n == "ReadBytes"
			}
		}
	case *ssa.Convert:
		return wireString(x.X, d+1)
	case *ssa.ChangeType:
		return wireString(x.X, d+1)
	case *ssa.Phi:
		for _, e := range x.Edges {
			if wireString(e, d+1) {
				return true
			}
		}
	case *ssa.Slice:
		return wireString(x.X, d+1)
	case *ssa.Call:
		if cal := x.Call.StaticCallee(); cal != nil && (shortName(cal) == "internal/rt.Str2Mem" || shortName(cal) == "internal/rt.Mem2Str") {
			return wireString(x.Call.Args[0], d+1)
		}
	}
	return false
}

func runJSONStrRaw(rc *RuleCtx) {
	w := rc.W
	for _, fn := range w.Funcs {
		pr := pkgRel(fn)
		if pr != "conv/t2j" && pr != "conv/p2j" && pr != "thrift/annotation" {
			continue
		}
		for _, b := range fn.Blocks {
			for _, ins := range b.Instrs {
				c, ok := ins.(*ssa.Call)
				if !ok {
					continue
				}
				// every use of a wire string is an obligation: it must be an argument of an escaping encoder
				if bi, ok := c.Call.Value.(*ssa.Builtin); ok && bi.Name() == "append" && len(c.Call.Args) == 2 {
					rc.Examined++
					if wireString(c.Call.Args[1], 0) {
						// a wire string that was found to BE a JSON document (encoding/json.Valid, true edge) may be
						// spliced in verbatim: that is what agw.body_dynamic asks for
						validated := false
						for _, cd := range controllingIfs(b) {
							k, neg := condKey(cd.cond)
							if vc, ok := k.(*ssa.Call); ok && vc.Call.StaticCallee() != nil && vc.Call.StaticCallee().Name() == "Valid" &&
								vc.Call.StaticCallee().Pkg != nil && vc.Call.StaticCallee().Pkg.Pkg.Path() == "encoding/json" &&
								len(vc.Call.Args) == 1 && wireString(vc.Call.Args[0], 0) && cd.val != neg {
								validated = true
							}
						}
						if validated {
							rc.ok(fn, "append(out, wire-string...)", c.Pos(), "the string is spliced in only after encoding/json.Valid accepted it", true)
							continue
						}
						rc.bad(fn, "append(out, wire-string...)", c.Pos(), "a string read from the message is appended to the JSON output without escaping (quotes, backslashes, control characters would break the document)")
					}
					continue
				}
				cal := c.Call.StaticCallee()
				if cal == nil || pkgRel(cal) != "internal/json" {
					continue
				}
				for _, a := range c.Call.Args {
					if wireString(a, 0) {
						rc.Examined++
						esc := cal.Name() == "EncodeString" || cal.Name() == "NoQuote" || cal.Name() == "EncodeBaniry" || cal.Name() == "EncodeBase64"
						rc.verdict(esc, fn, "json."+cal.Name()+"(wire-string)", c.Pos(), map[bool]string{true: "escaped by json." + cal.Name(), false: "passed to json." + cal.Name() + ", which does not escape"}[esc], true)
					}
				}
			}
		}
	}
}

func runErrMismatch(rc *RuleCtx) {
	w := rc.W
	for _, fn := range w.Funcs {
		if fn.Blocks == nil {
			continue
		}
		for _, b := range fn.Blocks {
			for _, ins := range b.Instrs {
				call, ok := ins.(*ssa.Call)
				if !ok {
					continue
				}
				ev := errValueOf(call)
				if ev == nil || len(*ev.Referrers()) == 0 {
					continue
				}
				if cal := call.Call.StaticCallee(); cal != nil {
					// error constructors/wrappers always return non-nil: they are not fallible calls
					if w.EC().mustFail[cal] || cal.String() == "errors.New" || cal.String() == "fmt.Errorf" {
						continue
					}
				}
				rc.Examined++
				// classify referrers (through phis)
				tested, flows := false, false
				var uses []ssa.Instruction
				seen := map[ssa.Value]bool{}
				var visit func(v ssa.Value)
				visit = func(v ssa.Value) {
					if seen[v] {
						return
					}
					seen[v] = true
					for _, r := range *v.Referrers() {
						switch u := r.(type) {
						case *ssa.BinOp:
							tested = true
						case *ssa.Phi:
							visit(u)
						case *ssa.Return, *ssa.Store, *ssa.MapUpdate, *ssa.Send, *ssa.MakeClosure:
							if ret, ok := r.(*ssa.Return); ok {
								uses = append(uses, ret)
							} else {
								flows = true
							}
						case *ssa.MakeInterface, *ssa.ChangeInterface, *ssa.TypeAssert:
							flows = true
						case *ssa.Call:
							uses = append(uses, u)
						default:
							flows = true
						}
					}
				}
				visit(ev)
				if tested || flows || len(uses) == 0 {
					continue
				}
				// every use must sit under a nil test of another error value
				allUnderOther := true
				other := ""
				for _, u := range uses {
					under := false
					for _, cd := range controllingIfs(u.Block()) {
						subj, nilOnTrue, ok := nilTest(cd.cond)
						if !ok || subj == ev || seen[subj] || !types_isError(subj) {
							continue
						}
						if cd.val != nilOnTrue { // the non-nil side
							under = true
							other = subj.Name()
						}
					}
					if !under {
						allUnderOther = false
					}
				}
				if !allUnderOther {
					continue
				}
				name := calleeShort(call)
				if name == "" {
					name = "<dynamic>"
				}
				if !w.calleeMayFail(call) {
					continue
				}
				rc.bad(fn, name, call.Pos(), "the error of "+name+" is never compared with nil; it is only used inside a branch guarded by the nil test of another error value ("+other+"): the wrong variable is tested")
			}
		}
	}
}

package main

import (
	"go/ast"
	"go/types"
	"strings"

	"golang.org/x/tools/go/ssa"
)

// KINDNAME: the protobuf scalar primitives are named after the kind they implement
// (DecodeInt32/DecodeUint32/DecodeSint32…, ReadUint64, WriteSfixed32, AppendFixed64 …). RWPAIR
// decides that a clause reaches the right WIRE primitive (varint / zigzag / fixed); two kinds that
// share the wire primitive still differ in signedness and width (int32 vs uint32 vs enum: all
// varint). In a clause of a kind switch labelled with one kind, the primitive that is called is
// therefore the one named after that kind.
func init() {
	register(&Rule{
		Name:     "KINDNAME",
		Doc:      "in every clause of a switch over proto.Type / ProtoKind that is labelled with scalar kinds only, each called primitive of proto/binary or proto/protowire whose name is <Decode|Read|Write|Encode|Append|Consume><Kind> names the kind of every label of the clause (ENUM uses the Int32 primitives; BYTE/STRING share Bytes/String; a clause grouping INT32 and INT64 that does not dispatch again on the kind inside may not call a 32-bit primitive); (b) a constructor NewNode<Kind> of proto/generic encodes with the Encode<Kind> primitive: DecodeUint32 in the ENUM or INT32 clause turns -1 into 4294967295 although both are varints",
		Configs:  "NP",
		Floor:    map[string]int{"N": 60, "P": 60},
		Controls: 1,
		Run:      runKindName,
	})
}

var kindNameEquiv = map[string]string{"ENUM": "INT32", "BYTE": "STRING"}

func primKind(name string) (string, bool) {
	for _, pre := range []string{"Decode", "Read", "Write", "Encode", "Append", "Consume"} {
		if strings.HasPrefix(name, pre) {
			k := kindKey(strings.TrimPrefix(name, pre))
			if k == "BYTES" {
				k = "BYTE"
			}
			if _, ok := kindSpec[k]; ok {
				return k, true
			}
			return "", false
		}
	}
	return "", false
}

func runKindName(rc *RuleCtx) {
	norm := func(k string) string {
		if e, ok := kindNameEquiv[k]; ok {
			return e
		}
		return k
	}
	// clause (b): NewNode<Kind> constructors
	for _, fn := range rc.W.Funcs {
		if pkgRel(fn) != "proto/generic" || fn.Blocks == nil || !strings.HasPrefix(fn.Name(), "NewNode") {
			continue
		}
		ck := kindKey(strings.TrimPrefix(fn.Name(), "NewNode"))
		if ck == "BYTES" {
			ck = "BYTE"
		}
		if _, ok := kindSpec[ck]; !ok {
			continue
		}
		for _, b := range fn.Blocks {
			for _, ins := range b.Instrs {
				c, ok := ins.(*ssa.Call)
				if !ok {
					continue
				}
				cal := c.Call.StaticCallee()
				if cal == nil || !(pkgRel(cal) == "proto/protowire" || pkgRel(cal) == "proto/binary") {
					continue
				}
				pk, ok := primKind(cal.Name())
				if !ok {
					continue
				}
				rc.Examined++
				good := norm(pk) == norm(ck)
				rc.verdict(good, fn, "constructor calls "+cal.Name(), c.Pos(), map[bool]string{
					true:  "the constructor encodes with the primitive of its own kind",
					false: fn.Name() + " encodes its value with " + cal.Name() + ", the primitive of another kind: the node says " + ck + " but its bytes are not a " + ck + " value"}[good], false)
			}
		}
	}
	for _, ks := range rc.W.kindSwitches(1) {
		if !(strings.HasSuffix(ks.tagType, "proto.Type") || strings.HasSuffix(ks.tagType, "ProtoKind") || strings.HasSuffix(ks.tagType, "proto.ProtoKind")) {
			continue
		}
		info := ks.pkg.TypesInfo
		for _, cl := range ks.clauses {
			if len(cl.labels) == 0 {
				continue
			}
			// all labels must be scalar kinds; a clause that groups several kinds may only call primitives
			// whose kind every label normalises to (a width-specific primitive under `case Int32Kind, Int64Kind:` truncates)
			lk := kindKey(cl.labels[0].name)
			allScalar := true
			sameKind := true
			for _, l := range cl.labels {
				k := kindKey(l.name)
				if _, ok := kindSpec[k]; !ok {
					allScalar = false
				}
				if norm(k) != norm(lk) {
					sameKind = false
				}
			}
			if !allScalar {
				continue
			}
			if !sameKind {
				// a grouping clause may dispatch again inside (`if t == proto.UINT32 {…}`): then the calls are
				// selected by that inner test, which this rule does not evaluate
				inner := false
				for _, st := range cl.body {
					ast.Inspect(st, func(n ast.Node) bool {
						if id, ok := n.(*ast.Ident); ok {
							for _, l := range cl.labels {
								if id.Name == l.name {
									inner = true
								}
							}
						}
						return !inner
					})
				}
				if inner {
					continue
				}
			}
			labelText := cl.labels[0].name
			if len(cl.labels) > 1 {
				var ns []string
				for _, l := range cl.labels {
					ns = append(ns, l.name)
				}
				labelText = strings.Join(ns, ", ")
			}
			for _, st := range cl.body {
				ast.Inspect(st, func(n ast.Node) bool {
					switch n.(type) {
					case *ast.SwitchStmt, *ast.TypeSwitchStmt:
						return false // a nested dispatch has its own labels
					}
					ce, ok := n.(*ast.CallExpr)
					if !ok {
						return true
					}
					sel, ok := ce.Fun.(*ast.SelectorExpr)
					if !ok {
						return true
					}
					fn, _ := info.Uses[sel.Sel].(*types.Func)
					if fn == nil || fn.Pkg() == nil || !(strings.HasSuffix(fn.Pkg().Path(), "/proto/binary") || strings.HasSuffix(fn.Pkg().Path(), "/proto/protowire")) {
						return true // only the protobuf wire primitives (json.EncodeInt64 etc. are text encoders)
					}
					pk, ok := primKind(sel.Sel.Name)
					if !ok {
						return true
					}
					rc.Examined++
					good := sameKind && norm(pk) == norm(lk)
					rc.add(nil, ks.fnName, "case "+labelText+": "+sel.Sel.Name, ce.Pos(), map[bool]string{true: "discharged", false: "violated"}[good],
						map[bool]string{true: "the primitive is the one named after the clause's kind",
							false: "the clause for " + labelText + " calls " + sel.Sel.Name + ", a primitive that is not the one of (every one of) its kinds: same wire form, different signedness / width"}[good], false)
					return true
				})
			}
		}
	}
}

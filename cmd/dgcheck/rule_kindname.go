package main

import (
	"go/ast"
	"go/types"
	"strings"
)

// KINDNAME: the protobuf scalar primitives are named after the kind they implement
// (DecodeInt32/DecodeUint32/DecodeSint32…, ReadUint64, WriteSfixed32, AppendFixed64 …). RWPAIR
// decides that a clause reaches the right WIRE primitive (varint / zigzag / fixed); two kinds that
// share the wire primitive still differ in signedness and width (int32 vs uint32 vs enum: all
// varint). In a clause of a kind switch labelled with one kind, the primitive that is called is
// therefore the one named after that kind.
func init() {
	register(&Rule{
		Name:     "KINDNAME",
		Doc:      "in every clause of a switch over proto.Type / ProtoKind that is labelled with a single scalar kind, each called primitive of proto/binary or proto/protowire whose name is <Decode|Read|Write|Encode|Append|Consume><Kind> names the label's kind (ENUM uses the Int32 primitives; BYTE/STRING share Bytes/String): DecodeUint32 in the ENUM or INT32 clause turns -1 into 4294967295 although both are varints",
		Configs:  "NP",
		Floor:    map[string]int{"N": 60, "P": 60},
		Controls: 1,
		Run:      runKindName,
	})
}

var kindNameEquiv = map[string]string{"ENUM": "INT32", "BYTE": "STRING"}

func primKind(name string) (string, bool) {
	for _, pre := range []string{"Decode", "Read", "Write", "Encode", "Append", "Consume"} {
		if strings.HasPrefix(name, pre) {
			k := kindKey(strings.TrimPrefix(name, pre))
			if k == "BYTES" {
				k = "BYTE"
			}
			if _, ok := kindSpec[k]; ok {
				return k, true
			}
			return "", false
		}
	}
	return "", false
}

func runKindName(rc *RuleCtx) {
	norm := func(k string) string {
		if e, ok := kindNameEquiv[k]; ok {
			return e
		}
		return k
	}
	for _, ks := range rc.W.kindSwitches(1) {
		if !(strings.HasSuffix(ks.tagType, "proto.Type") || strings.HasSuffix(ks.tagType, "ProtoKind") || strings.HasSuffix(ks.tagType, "proto.ProtoKind")) {
			continue
		}
		info := ks.pkg.TypesInfo
		for _, cl := range ks.clauses {
			if len(cl.labels) != 1 {
				continue
			}
			lk := kindKey(cl.labels[0].name)
			if _, ok := kindSpec[lk]; !ok {
				continue
			}
			for _, st := range cl.body {
				ast.Inspect(st, func(n ast.Node) bool {
					switch n.(type) {
					case *ast.SwitchStmt, *ast.TypeSwitchStmt:
						return false // a nested dispatch has its own labels
					}
					ce, ok := n.(*ast.CallExpr)
					if !ok {
						return true
					}
					sel, ok := ce.Fun.(*ast.SelectorExpr)
					if !ok {
						return true
					}
					fn, _ := info.Uses[sel.Sel].(*types.Func)
					if fn == nil || fn.Pkg() == nil || !(strings.HasSuffix(fn.Pkg().Path(), "/proto/binary") || strings.HasSuffix(fn.Pkg().Path(), "/proto/protowire")) {
						return true // only the protobuf wire primitives (json.EncodeInt64 etc. are text encoders)
					}
					pk, ok := primKind(sel.Sel.Name)
					if !ok {
						return true
					}
					rc.Examined++
					good := norm(pk) == norm(lk)
					rc.add(nil, ks.fnName, "case "+cl.labels[0].name+": "+sel.Sel.Name, ce.Pos(), map[bool]string{true: "discharged", false: "violated"}[good],
						map[bool]string{true: "the primitive is the one named after the clause's kind",
							false: "the clause for " + cl.labels[0].name + " calls " + sel.Sel.Name + ", the primitive of another kind: same wire form, different signedness / width"}[good], false)
					return true
				})
			}
		}
	}
}

package main

var properties = []*Property{}

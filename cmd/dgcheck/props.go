package main

import (
	"encoding/json"
	"fmt"
	"os"
	"path/filepath"
	"sort"
	"strings"
)

func use(rule, what string, scope func(*Obl) bool) RuleUse {
	return RuleUse{Rule: rule, Scope: scope, What: what}
}

var (
	thriftGeneric = inPkgs("thrift/generic")
	protoGeneric  = inPkgs("proto/generic")
	thriftPkg     = inPkgs("thrift")
	protoBinary   = inPkgs("proto/binary", "proto/protowire")
)

func anyOf(fs ...func(*Obl) bool) func(*Obl) bool {
	return func(o *Obl) bool {
		for _, f := range fs {
			if f(o) {
				return true
			}
		}
		return false
	}
}

func funcHas(subs ...string) func(*Obl) bool {
	return func(o *Obl) bool {
		for _, s := range subs {
			if strings.Contains(o.Func, s) {
				return true
			}
		}
		return false
	}
}

func notFunc(f func(*Obl) bool) func(*Obl) bool { return func(o *Obl) bool { return !f(o) } }

// ruleKnown filters uses to rules that are registered (lets props reference rules that are
// built later without breaking the build order).
func uses(us ...RuleUse) []RuleUse {
	var out []RuleUse
	for _, u := range us {
		if rules[u.Rule] != nil {
			out = append(out, u)
		}
	}
	return out
}

var properties []*Property

func initProperties() {
	mutators := funcHas("SetByPath", "SetMany", "UnsetByPath", "ReplaceByPath", "setNotFound", "deleteChild", "findDeleteChild", "replace", "updateByteLen")
	properties = []*Property{
		{ID: "C01", Title: "Thrift reads return exactly what the bytes encode",
			Decides: "the clause `a path that does not fit the value's shape or the descriptor yields an error result, never a panic` and error propagation of the read walkers: descriptor lookups are nil-checked before use (NILLOOKUP), no fallible call's error is dropped or swallowed (DROPERR, ERRSWALLOW), size-guarded cursor functions get positive sizes (PANICARG), container counts are bounded (ALLOCBOUND), every search loop consumes (LOOPPROGRESS) and the unknown-field branches skip (UNKNOWNSKIP) — over package thrift/generic and the thrift skip/readers it uses.",
			NotDec:  "that offsets, spans and values returned are the right ones (chained skip arithmetic is value-level); typed/untyped agreement; effect of each read option.",
			Uses: uses(
				use("FIELDLOOPEXIT", "a struct is read to its STOP byte", anyOf(thriftGeneric, thriftPkg)),
				use("MULTICASEADDR", "an unhashable map key is boxed as a pointer to its concrete type", thriftGeneric),
				use("OPTSFORWARD", "the caller's options reach every part of the result", thriftGeneric),
				use("ITERKIND", "a typed key reader checks the map's key type first", thriftGeneric),
				use("SIGNEDBYTE", "an i8 map key / element is widened as a signed value", anyOf(thriftGeneric, thriftPkg)),
				use("NEXTSTOREBACK", "Children/Load store the refilled children back on every success path", thriftGeneric),
				use("DEPTHBUDGET", "the skip depth budget counts nesting levels, not elements", anyOf(thriftGeneric, thriftPkg)),
				use("RAWWIDTH", "scalar casts of a generic node are bounded by the node's length", nil),
				use("UNKNOWNBREAK", "an unknown field does not end the field loop", thriftGeneric),
				use("RANGECOPYWRITE", "reset loops write the elements, not per-iteration copies", thriftGeneric),
				use("NILLOOKUP", "lookup results checked", anyOf(thriftGeneric, thriftPkg)),
				use("DROPERR", "errors propagate", notFunc(mutators)),
				use("ERRSWALLOW", "errors propagate", thriftGeneric),
				use("PANICARG", "no size panic", thriftPkg),
				use("ALLOCBOUND", "counts bounded", anyOf(thriftGeneric, thriftPkg)),
				use("LOOPPROGRESS", "search loops consume", anyOf(thriftGeneric, thriftPkg)),
				use("UNKNOWNSKIP", "unknown fields skipped", anyOf(thriftGeneric, thriftPkg)),
				use("RECDEPTH", "recursion budget", anyOf(thriftGeneric)),
				use("KINDEXH", "type switches exhaustive", anyOf(thriftGeneric, thriftPkg)),
				use("ADVANCEPOS", "skip helpers advance", thriftPkg),
				use("ROLEMIX", "key/value type dispatch not mixed", nil),
				use("TYPESWITCHAGREE", "unhashable map keys boxed by every decoder", anyOf(thriftGeneric, thriftPkg)),
				use("SIBLINGOPTS", "bulk getters honour ClearDirtyValues", thriftGeneric),
				use("HDRUSED", "container header types checked", anyOf(thriftGeneric, thriftPkg)),
				use("DESCSTEP", "descriptor follows the path step", thriftGeneric),
				use("WALKADVANCE", "descriptor advances per path step", thriftGeneric),
				use("NEXTGUARD", "one element read per HasNext", thriftGeneric),
				use("STRUCTNIL", "a field step on a non-struct descriptor is an error, not a nil dereference", thriftGeneric),
				use("INDEXLOWER", "a negative element index is rejected", thriftGeneric),
				use("UNSIGNEDWIDEN", "i16/i32 are not read without sign extension", anyOf(thriftGeneric, thriftPkg)),
				use("NEXTERR", "no node is cut from the span of a failed iterator step", thriftGeneric),
				use("KTETROLE", "key/element types not mixed up", thriftGeneric),
				use("CLAUSEWIDTH", "fixed-width clauses use the label's width", anyOf(thriftGeneric, thriftPkg)),
				use("ERRASSERT", "no unchecked error type assertion can panic", thriftGeneric),
				use("DEADARM", "every error-classification arm can match a type the module boxes", thriftGeneric),
				use("COUNTCMP", "index == count is out of range", anyOf(thriftGeneric, thriftPkg)),
			)},
		{ID: "C02", Title: "JSON->Thrift conversion encodes exactly the value the JSON denotes", QuickP: true,
			Decides: "option plumbing into the native FSM (FLAGSYNC: every conv.Option that affects j2t reaches its own flag bit, flags recomputed after every options write), the native status is tested and handled (NATIVERET), and for the portable converter (config P): every JSON-kind case of doRecurse ends in a return (CASEEXIT), the portable code reads the same options the flag table maps (OPTAGREE), no error dropped (DROPERR), thrift type switch exhaustive (KINDEXH).",
			NotDec:  "everything inside the native FSM (opaque machine code): number/escape handling, resumption after ERR_OOM_*, buffer-capacity independence; value equality of the output.",
			Uses: uses(
				use("KEYMAPNONEMPTY", "a member is found under its declared key", nil),
				use("PARSEWIDTH", "text integers are parsed at the width of their target", nil),
				use("CTWINLIT", "the Go-built key trie / hash map is probed by the native code with the same constants", nil),
				use("PARSEBASE", "text integers (map keys, quoted numbers) are decimal", nil),
				use("GROWCAP", "the output buffer is re-allocated with room for what it holds", nil),
				use("NATIVEROW", "each native stub row is built from its own routine's constants", nil),
				use("POOLNEWSHARED", "pooled state machines share no scratch storage", nil),
				use("TRUNCALLPATHS", "the field cache is emptied on every success exit of the fallback handler", inPkgs("conv/j2t")),
				use("ROOTSTRUCTNIL", "a non-struct root descriptor is not dereferenced as a struct", inPkgs("conv/j2t")),
				use("FLAGSYNC", "options reach flags", nil),
				use("NATIVERET", "native status handled", inPkgs("conv/j2t")),
				use("SIZEPATCH", "portable converter patches placeholder container counts", inPkgs("conv/j2t")),
				use("BMSET", "written fields are recorded in the requires bitmap", inPkgs("conv/j2t")),
				use("UNDOMARK", "a null value removes the whole entry it was written for", inPkgs("conv/j2t")),
				use("COUNTERGUARD", "the portable skipper counts brackets outside strings only, in both directions", nil),
				use("EXPCASE", "both exponent markers accepted by the portable number scanner", nil),
				use("CASEEXIT", "kind mismatch is an error", nil),
				use("OPTAGREE", "portable reads mapped options", nil),
				use("DROPERR", "errors propagate", inPkgs("conv/j2t")),
				use("ERRSWALLOW", "errors propagate", inPkgs("conv/j2t")),
				use("KINDEXH", "type switch exhaustive", inPkgs("conv/j2t")),
				use("ARGSWAP", "arguments in order", inPkgs("conv/j2t")),
				use("POOLESCAPE", "result copied out of the pooled buffer", inPkgs("conv/j2t")),
				use("CHDRAGREE", "flag/trap constants = C header", nil),
				use("REQAFFINITY", "requiredness <-> option", inPkgs("conv/j2t")),
				use("GUARDCOVER", "bytes added after a capacity guard fit the guard (zero values, injected base)", inPkgs("conv/j2t", "thrift")),
			)},
		{ID: "C03", Title: "Thrift->JSON conversion emits valid JSON denoting exactly the value",
			Decides: "balanced `{}`/`[]` on every success path of the t2j walkers (JSONPAIR — a necessary condition of `never malformed JSON with a nil error`), member keys come from one FieldDescriptor accessor everywhere (KEYSRC), thrift type switches are exhaustive (KINDEXH), unknown fields are an error exactly when disallowed and are otherwise skipped (NEGPOLARITY, UNKNOWNSKIP), no error dropped (DROPERR), loops consume (LOOPPROGRESS).",
			NotDec:  "comma placement, numeric and string exactness (value-level).",
			Uses: uses(
				use("KEYMAPNONEMPTY", "members are written under their declared keys, never under the empty string", nil),
				use("FIELDLISTFIRST", "a response carrying the second declared exception is not converted to {}", nil),
				use("LASTBYTEPATCH", "no container is closed by overwriting the last byte unconditionally", nil),
				use("FIELDLOOPEXIT", "a struct is converted to its STOP byte: no field loop is left early", nil),
				use("B64STD", "binary is written and read in the standard base64 alphabet", nil),
				use("NOCAPREAD", "a reader never looks beyond len(Buf)", inPkgs("conv/t2j", "thrift")),
				use("NOGOQUOTE", "keys and strings are quoted as JSON, not as Go literals", nil),
				use("GROWCAP", "the output buffer is re-allocated with room for what it holds", nil),
				use("DONILNIL", "no converter answers (nil, nil)", inPkgs("conv/t2j")),
				use("BYTEOPT", "byte keys and byte values honour ByteAsUint8 alike", nil),
				use("DEFAULTARM", "an IDL default matters for optional fields only", thriftPkg),
				use("ROOTSTRUCTNIL", "a non-struct root descriptor is not dereferenced as a struct", inPkgs("conv/t2j")),
				use("UNKNOWNBREAK", "an unknown field does not end the field loop", inPkgs("conv/t2j", "thrift")),
				use("JSONPAIR", "balanced JSON", inPkgs("conv/t2j")),
				use("KEYSRC", "declared keys", nil),
				use("KINDEXH", "type switches exhaustive", inPkgs("conv/t2j")),
				use("NEGPOLARITY", "unknown = error iff disallowed", inPkgs("conv/t2j")),
				use("UNKNOWNSKIP", "unknown skipped", inPkgs("conv/t2j")),
				use("DROPERR", "errors propagate", inPkgs("conv/t2j")),
				use("ERRSWALLOW", "errors propagate", inPkgs("conv/t2j")),
				use("LOOPPROGRESS", "loops consume", inPkgs("conv/t2j")),
				use("COUNTCMP", "element loops stop at the header count", inPkgs("conv/t2j")),
				use("NONFINITE", "NaN/Inf never reach the float formatter (which writes nothing for them)", inPkgs("conv/t2j", "thrift/annotation")),
				use("COUNTFACTOR", "unknown fields are skipped by count × width", thriftPkg),
				use("NILLOOKUP", "lookups checked", inPkgs("conv/t2j")),
				use("NATIVEQUOTE", "string escaper retry contract", nil),
				use("POOLESCAPE", "result copied out of the pooled buffer", inPkgs("conv/t2j")),
				use("CONSTAFFINITY", "number formatter head-room", nil),
				use("JSONSTRRAW", "input strings are escaped", inPkgs("conv/t2j", "thrift/annotation")),
				use("ERRMISMATCH", "the tested error is the assigned one", inPkgs("conv/t2j")),
			)},
		{ID: "C04", Title: "Thrift in-place edits change exactly the addressed element",
			Decides: "every locator loop of the mutators has a not-found exit and no in-place size patch precedes a fallible step (NOTFOUNDEXIT), name->id translation checks the lookup (NILLOOKUP), in-place patching of the caller's bytes is confined to the mutators (INPUTRO), insertion errors propagate (DROPERR).",
			NotDec:  "splice arithmetic, count/order after arbitrary histories, fork independence.",
			Uses: uses(
				use("HDRPEEK", "an inserted map key is encoded by the key type read at its wire offset", nil),
				use("MAPHDRORDER", "an empty map written for an absent field names key type before value type", thriftPkg),
				use("INDEXLOWER", "a negative element index is rejected by the editors too", thriftGeneric),
				use("NOTFOUNDEXIT", "absent element changes nothing", thriftGeneric),
				use("NILLOOKUP", "name->id checked", funcHas("thrift/generic.Value).SetByPath", "thrift/generic.Value).UnsetByPath", "thrift/generic.GetDescByPath")),
				use("INPUTRO", "patching confined", thriftGeneric),
				use("DROPERR", "errors propagate", func(o *Obl) bool { return thriftGeneric(o) && mutators(o) }),
				use("KINDEXH", "key/type switches exhaustive", thriftGeneric),
				use("SWAPBOTH", "multi-set sort permutes old and new nodes together", thriftGeneric),
				use("LESSTIE", "multi-set orders an insertion point before the element starting at the same address", thriftGeneric),
				use("LASTSTEPONLY", "only a missing LAST step is insertable", thriftGeneric),
				use("COUNTCMP", "index == count addresses nothing", thriftGeneric),
				use("WALKADVANCE", "name->id translation resolves against the parent of the addressed element", thriftGeneric),
				use("MAPKEYTYPE", "new map keys are encoded by the key type", thriftGeneric),
				use("CLAUSEWIDTH", "int map keys are serialised with the key type's width", thriftGeneric),
				use("PATHKEYFAMILY", "all three map-key path kinds handled", thriftGeneric),
				use("NOTFOUNDPOS", "a missing element is inserted into the searched container", thriftGeneric),
			)},
		{ID: "C05", Title: "Thrift DOM load/marshal is lossless; DOM edits marshal as edited",
			Decides: "the by-id slot threshold is compared identically at load, lookup and store (THRESHAGREE), PathNode.marshal covers every thrift type and writes headers before elements (KINDEXH, HDRFIRST), child-slice growth is bounded by the input (ALLOCBOUND), Marshal copies out of the pooled buffer (POOLESCAPE).",
			NotDec:  "losslessness itself (byte equality of Marshal(Load(x)) with x for every x); that edits through SetField/SetByStr land in the slot a later lookup consults.",
			Uses: uses(
				use("PROBEBOUND", "a lookup in the child hash table ends after one round", thriftGeneric),
				use("PATCHAFTERDEC", "a dropped empty child patches the header with the corrected count", thriftGeneric),
				use("BUFOWN", "marshal only extends the writer's buffer", thriftGeneric),
				use("BARESPAN", "an empty container child keeps its own span when the parent is not scanned", thriftGeneric),
				use("HASHTHRESH", "the map getters probe a hash table only when the loader built one", thriftGeneric),
				use("SIGNEDBYTE", "an i8 map key is the same integer at load, lookup and store", anyOf(thriftGeneric, thriftPkg)),
				use("HDRKEEP", "a loaded container remembers the element/key type of its header", thriftGeneric),
				use("BOUNDAGREE", "skipping accepts a value that ends exactly at the end of the buffer", thriftPkg),
				use("SLOTID", "the by-id fast path verifies the id held by the slot", thriftGeneric),
				use("NEXTSTOREBACK", "a refill stores the children back on every success path", thriftGeneric),
				use("SETSLOT", "a replaced child loses the old value's children; an empty by-id slot gets its path", thriftGeneric),
				use("SPARSECLEAR", "a re-used children array starts empty where a sparse store skips or probes slots", thriftGeneric),
				use("CHILDRESET", "a slot that is not re-scanned loses the children of its previous value", thriftGeneric),
				use("PROBEWRAP", "hash probing wraps the slot pointer with the slot index", thriftGeneric),
				use("THRESHAGREE", "slot choice agrees", nil),
				use("KINDEXH", "marshal covers all types", funcHas("thrift/generic.PathNode")),
				use("HDRFIRST", "header before elements", funcHas("thrift/generic.PathNode")),
				use("ALLOCBOUND", "growth bounded", funcHas("thrift/generic.PathNode")),
				use("POOLESCAPE", "copy-out before free", funcHas("thrift/generic.PathNode")),
				use("TYPESWITCHAGREE", "unhashable map keys boxed by every decoder", thriftGeneric),
				use("SIZEPATCH", "a skipped child corrects the container count", thriftGeneric),
				use("INDEXUPPER", "the by-id fast path is bounded by the loaded children", thriftGeneric),
				use("DIVZERO", "hash-slot arithmetic survives an empty container", thriftGeneric),
				use("COUNTFACTOR", "children that are skipped are skipped by count × width", thriftPkg),
				use("KTETROLE", "key/element types not mixed up", thriftGeneric),
				use("DROPERR", "errors propagate", funcHas("thrift/generic.PathNode")),
			)},
		{ID: "C06", Title: "Decoders survive arbitrary bytes: error, not crash, hang or over-read", QuickP: true,
			Decides: "for every function of both protocols, both generic packages and the four converters, in both build configurations: every cursor loop consumes input or leaves (LOOPPROGRESS), no input-derived count sizes an allocation unbounded (ALLOCBOUND), size-guarded functions never get a non-positive size (PANICARG), descriptor lookups on input-derived ids are nil-checked (NILLOOKUP), input-driven recursion carries a depth budget (RECDEPTH), no decoder error is dropped or swallowed (DROPERR, ERRSWALLOW).",
			NotDec:  "out-of-bounds reads through unsafe in general (only the scalar casts of thrift/generic are tied to the node length, RAWWIDTH; header peeks of iterators and of the protobuf side need value ranges), panics inside sonic or the native blob, wall-clock bounds.",
			Uses: uses(
				use("ERRVALDESC", "a chained lookup on a failed value does not dereference the missing descriptor", nil),
				use("NOCAPREAD", "a truncated message in a larger array is not read past its length", nil),
				use("PROBEBOUND", "a lookup in the child hash table ends after one round", nil),
				use("COUNTSIGN", "a count decoded in place is sign-tested before it scales a cursor advance", nil),
				use("GROWCAP", "a nearly full buffer is re-allocated with a capacity above its length", nil),
				use("CURSORBACK", "a reader steps its cursor back only after comparing it with the step", nil),
				use("RAWHDR", "a node constructor peeks at the type bytes only of a source that has them", nil),
				use("MSGDESCNIL", "a lookup below a scalar field finds a nil message descriptor tolerated", protoGeneric),
				use("REGIONEXACT", "a packed list / embedded message is walked exactly to the end of its payload", nil),
				use("KNOWNNILARG", "no nil probe result is passed on as a value", nil),
				use("DEPTHBUDGET", "the recursion budget is decremented once per level", nil),
				use("RESULTUSED", "a re-allocated buffer is not dropped", nil),
				use("COPYZERO", "no copy into a zero-length destination", nil),
				use("HEADERKIND", "no slice with len > cap, no string read through a slice header", nil),
				use("ROOTSTRUCTNIL", "a non-struct root descriptor is not dereferenced as a struct", nil),
				use("RAWWIDTH", "scalar casts of a generic node are bounded by the node's length", nil),
				use("PREFIXBOUND", "a decoded length is compared with the bytes after its prefix", nil),
				use("LOOPPROGRESS", "never loops without consuming", nil),
				use("ALLOCBOUND", "allocation bounded by input", nil),
				use("PANICARG", "no explicit-size panic", nil),
				use("NILLOOKUP", "no nil-descriptor panic", nil),
				use("RECDEPTH", "bounded stack", nil),
				use("DROPERR", "decoder errors stop the walk", nil),
				use("ERRSWALLOW", "decoder errors stop the walk", nil),
				use("UNKNOWNSKIP", "unknown fields skipped", nil),
				use("ROLEMIX", "key/value type dispatch not mixed", nil),
				use("ADVANCEPOS", "skip helpers advance", nil),
				use("VARINTNARROW", "varint lengths bounded before narrowing", nil),
				use("CURSORBOUND", "cursor never jumps past the buffer; no 32-bit byte-count overflow", nil),
				use("CONSTAFFINITY", "number formatter head-room (native writer must not overrun)", nil),
				use("HDRUSED", "container header types checked", nil),
				use("COUNTCMP", "no element read one past the header count", nil),
				use("DEADCMP", "limit guards are not dead by type range", nil),
				use("STACKCAP", "a fixed-capacity stack has a slot for every value of its stack pointer", nil),
				use("REPEATCOUNT", "the error renderer cannot panic on a negative padding", nil),
				use("ASSERTFAILUSE", "no use of a failed assertion's zero value", nil),
				use("UNUSEDBOUND", "length / depth bounds handed to a walker are used", nil),
				use("SENTINELPOS", "negative `none` positions never reach a slicing callee", nil),
				use("NILGUARDAGREE", "optional collaborators are nil-tested at every call site", nil),
				use("CURSORREL", "the cursor only moves relatively (a callee's byte count is added, never assigned)", nil),
				use("ERRASSERT", "no unchecked error type assertion can panic", nil),
				use("DEADARM", "every error-classification arm can match a type the module boxes", nil),
				use("WIREEXH", "group / invalid wire types are an error, not a silent no-op", nil),
				use("NEXTERR", "no node is cut from the span of a failed iterator step", nil),
				use("PACKEDKIND", "packed payloads are walked by the element kind", nil),
				use("COUNTFACTOR", "count × width: every term of a skipped byte count carries the count", nil),
				use("SLICEHIGH", "slices that cut a trailer are guarded by their own bound", nil),
				use("PREFIXBOUND", "a decoded length is compared with the bytes after its prefix", nil),
				use("NATIVEQUOTE", "string escaper retry contract", nil),
				use("NATIVERET", "native status / buffer window", nil),
			)},
		{ID: "C07", Title: "Protobuf reads return exactly what the reference decoder sees",
			Decides: "unknown field numbers in the message cannot crash reads (NILLOOKUP over proto/generic), kind/wire-type/packedness tables match the protobuf spec (KINDTABLE — they drive every skip), errors propagate (DROPERR, ERRSWALLOW), search loops consume (LOOPPROGRESS), unknown fields are skipped (UNKNOWNSKIP).",
			NotDec:  "positions/values, packed/unpacked boundaries, empty sub-messages.",
			Uses: uses(
				use("ROOTLEN", "a field walk over a non-root message value skips its length prefix", nil),
				use("ERRVALDESC", "a getter applied to an error value hands the error on", nil),
				use("NOUNTYPEDSKIP", "a packed list is skipped by its element wire type", nil),
				use("OPTSFORWARD", "the caller's options reach every part of the result", protoGeneric),
				use("TWINCMP", "the peeking tag reader rejects what the moving one rejects", inPkgs("proto/binary")),
				use("PEEKBREAK", "the tag that ends a field's run is peeked at, not consumed", nil),
				use("LAZYSIZE", "an index is compared with a list size only once the size has been counted", protoGeneric),
				use("CLAUSEREJECT", "a cast helper accepts every kind whose clause calls it", protoGeneric),
				use("CURSORBACK", "element 0 is handed back at its tag only if a tag of that size precedes the cursor", protoGeneric),
				use("MSGDESCNIL", "a path below a scalar field is not-found, not a nil dereference", protoGeneric),
				use("COUNTERRESET", "a scan counts a container's elements from zero", protoGeneric),
				use("NEXTSTOREBACK", "a refill stores the children back on every success path", protoGeneric),
				use("TAGPOS", "locators hand out tag positions", nil),
				use("TYPESWITCHAGREE", "unhashable map keys are boxed before use", protoGeneric),
				use("DUALEXIT", "index == element count is not-found, not the bytes after the list", protoGeneric),
				use("PREFIXBOUND", "a decoded length is compared with the bytes after its prefix", nil),
				use("KINDNAME", "each kind's clause calls the primitive named after that kind (signedness / width)", nil),
				use("UNKNOWNBREAK", "an unknown field does not end the field loop", anyOf(protoGeneric, protoBinary)),
				use("RANGECOPYWRITE", "reset loops write the elements, not per-iteration copies", protoGeneric),
				use("NILLOOKUP", "lookups checked", protoGeneric),
				use("KINDTABLE", "wire tables = spec", nil),
				use("DROPERR", "errors propagate", func(o *Obl) bool { return protoGeneric(o) && !mutators(o) }),
				use("ERRSWALLOW", "errors propagate", protoGeneric),
				use("LOOPPROGRESS", "loops consume", protoGeneric),
				use("UNKNOWNSKIP", "unknown skipped", protoGeneric),
				use("RWPAIR", "reader primitives per kind", nil),
				use("KINDEXH", "kind switches exhaustive", anyOf(protoGeneric, protoBinary)),
				use("SIBLINGOPTS", "bulk getters honour ClearDirtyValues", protoGeneric),
				use("DESCSTEP", "descriptor follows the path step", protoGeneric),
				use("WALKADVANCE", "descriptor advances per path step", protoGeneric),
				use("NEXTGUARD", "one element read per HasNext", protoGeneric),
				use("KTETROLE", "key/element types not mixed up", protoGeneric),
				use("MSGNARROW", "repeated/map walkers cannot leave the embedded message", protoGeneric),
				use("REWIND", "cursor re-positioned before SkipAllElements", protoGeneric),
				use("INDEXLOWER", "a negative element index is rejected", protoGeneric),
				use("MSGNARROW", "repeated/map walkers cannot leave the embedded message", anyOf(protoGeneric, protoBinary)),
				use("UNUSEDBOUND", "message-length bounds are used by the scanners", anyOf(protoGeneric, protoBinary)),
				use("UNSIGNEDWIDEN", "unsigned 32-bit kinds are not sign-extended", nil),
				use("MSGNARROW", "repeated/map walkers cannot leave the embedded message", protoBinary),
				use("ELEMTAG", "unpacked list elements carry the element's wire type", protoBinary),
				use("BOOLNONZERO", "a bool is true for every non-zero varint", nil),
				use("PREFIXBOUND", "a decoded length is compared with the bytes after its prefix", nil),
				use("WIREEXH", "group / invalid wire types are an error, not a silent no-op", nil),
				use("NEXTERR", "no node is cut from the span of a failed iterator step", nil),
				use("PACKEDKIND", "packed payloads are walked by the element kind", nil),
				use("LENZERO", "empty length-delimited payloads are accepted", anyOf(protoGeneric, protoBinary)),
				use("ERRASSERT", "no unchecked error type assertion can panic", protoGeneric),
				use("DEADARM", "every error-classification arm can match a type the module boxes", protoGeneric),
				use("COUNTCMP", "index == count is out of range", protoGeneric),
			)},
		{ID: "C08", Title: "Protobuf->JSON conversion emits valid JSON denoting exactly the message",
			Decides: "balanced JSON on every success path of p2j (JSONPAIR), every legal map-key kind is quoted (MAPKEYQUOTE), unsigned kinds are not routed through a signed formatter (SIGNCONV), the kind switch covers the 15 scalar kinds + MESSAGE (KINDEXH), list/map loops consume and stop on errors (LOOPPROGRESS, DROPERR), unknown = error iff disallowed (NEGPOLARITY).",
			NotDec:  "float exactness, comma placement.",
			Uses: uses(
				use("LASTBYTEPATCH", "no container is closed by overwriting the last byte unconditionally", nil),
				use("NOCAPREAD", "the narrowed buffer of a sub-message is restored from the saved slice, not from its capacity", inPkgs("conv/p2j", "proto/binary")),
				use("B64STD", "bytes fields are written in the standard base64 alphabet", nil),
				use("DONILNIL", "no converter answers (nil, nil): an empty message is {}", inPkgs("conv/p2j")),
				use("NOGOQUOTE", "keys and strings are quoted as JSON, not as Go literals", nil),
				use("REGIONEXACT", "a packed list / embedded message is walked exactly to the end of its payload", nil),
				use("KEYSRC", "object members are keyed by the JSON name at every nesting level", inPkgs("conv/p2j")),
				use("OPTPRESENCE", "[packed = false] is read only where the option is present", nil),
				use("KINDNAME", "each kind's clause calls the primitive named after that kind (signedness / width)", nil),
				use("UNKNOWNBREAK", "an unknown field does not end the field loop", inPkgs("conv/p2j")),
				use("JSONPAIR", "balanced JSON", inPkgs("conv/p2j")),
				use("MAPKEYQUOTE", "map keys quoted", nil),
				use("UNSIGNEDWIDEN", "unsigned 32-bit kinds are not sign-extended", inPkgs("conv/p2j", "proto/binary")),
				use("MSGNARROW", "repeated/map walkers cannot leave the embedded message", inPkgs("conv/p2j")),
				use("NONFINITE", "NaN/Inf never reach the float formatter (which writes nothing for them)", inPkgs("conv/p2j")),
				use("SIGNCONV", "unsigned exact", nil),
				use("KINDEXH", "all kinds", inPkgs("conv/p2j")),
				use("LOOPPROGRESS", "loops consume", inPkgs("conv/p2j")),
				use("DROPERR", "errors propagate", inPkgs("conv/p2j")),
				use("ERRSWALLOW", "errors propagate", inPkgs("conv/p2j")),
				use("NEGPOLARITY", "unknown handling", inPkgs("conv/p2j")),
				use("UNKNOWNSKIP", "unknown skipped", inPkgs("conv/p2j")),
				use("NILLOOKUP", "lookups checked", inPkgs("conv/p2j")),
				use("NATIVEQUOTE", "string escaper retry contract", nil),
				use("POOLESCAPE", "result copied out of the pooled buffer", inPkgs("conv/p2j")),
				use("CONSTAFFINITY", "number formatter head-room", nil),
				use("JSONSTRRAW", "input strings are escaped", inPkgs("conv/p2j")),
				use("ERRMISMATCH", "the tested error is the assigned one", inPkgs("conv/p2j")),
			)},
		{ID: "C09", Title: "JSON->Protobuf conversion encodes exactly the value the JSON denotes",
			Decides: "the visitor's kind switches accept every kind the spec allows for a JSON number/string/bool and map key (KINDEXH), per-kind writer primitives match the spec (RWPAIR), tags use real wire types and map entries use field numbers 1/2 (TAGTYPE, MAPTAG), parse errors are not blanked (DROPERR), unknown = error iff disallowed (NEGPOLARITY).",
			NotDec:  "speculative-length shifting at 127/128/16383 (value-level; pairing across sonic callbacks is dynamic), range checks.",
			Uses: uses(
				use("B64STD", "bytes fields are read in the alphabet p2j writes", nil),
				use("PARSEWIDTH", "map keys given as text are parsed at the width of the key kind", inPkgs("conv/j2p")),
				use("VALUEEND", "every value handler closes the value it handled", nil),
				use("LENBEFOREEND", "a length is written back before its frame is released", nil),
				use("PARSEBASE", "map keys given as text are decimal", inPkgs("conv/j2p")),
				use("SIGNPARSE", "map keys are parsed with the signedness of their kind", inPkgs("conv/j2p")),
				use("REGISTERALL", "every field is findable by its JSON name", nil),
				use("KINDCHECKED", "a JSON scalar is written only under a test of the target field kind", nil),
				use("PACKEDTAG", "only the elements of a packed list go without a tag", nil),
				use("RESULTUSED", "the buffer returned by FinishSpeculativeLength is kept", inPkgs("conv/j2p", "proto/binary")),
				use("KINDNAME", "each kind's clause calls the primitive named after that kind (signedness / width)", nil),
				use("KINDEXH", "kinds accepted", inPkgs("conv/j2p")),
				use("RWPAIR", "writer primitives per kind", nil),
				use("UNSIGNEDWIDEN", "unsigned 32-bit kinds are not sign-extended", inPkgs("conv/j2p", "proto/binary")),
				use("TAGTYPE", "tag wire types", inPkgs("conv/j2p")),
				use("MAPTAG", "map entry numbers", inPkgs("conv/j2p")),
				use("DROPERR", "errors propagate", inPkgs("conv/j2p")),
				use("ERRSWALLOW", "errors propagate", inPkgs("conv/j2p")),
				use("NEGPOLARITY", "unknown handling", inPkgs("conv/j2p")),
				use("NILLOOKUP", "lookups checked", inPkgs("conv/j2p")),
				use("GROWCOPY", "speculative length re-allocation keeps the payload", nil),
				use("DEADCMP", "the nesting-depth limit is representable in the stack pointer type", inPkgs("conv/j2p")),
				use("STACKCAP", "the nesting stack has a slot for every value of the stack pointer", inPkgs("conv/j2p")),
				use("FRAMEWRITE", "a value that opens no frame does not deepen the nesting stack (JSON null)", inPkgs("conv/j2p")),
				use("MSGDESCNIL", "a JSON object for a scalar field is a mismatch error, not a nil message descriptor", inPkgs("conv/j2p")),
				use("UNKNOWNSKIP", "disallow option honoured at every lookup", inPkgs("conv/j2p")),
				use("POOLESCAPE", "result copied out of the pooled buffer", inPkgs("conv/j2p")),
				use("POOLFIELD", "the protocol object behind the returned bytes is not recycled", inPkgs("conv/j2p")),
				use("SENTINELPOS", "the `no open length` sentinel never reaches FinishSpeculativeLength", inPkgs("conv/j2p")),
				use("NILABLEFIELD", "a JSON scalar without a pending descriptor is an error, not a nil dereference", inPkgs("conv/j2p")),
				use("SKIPRESET", "a skipped value does not swallow the member that follows it", nil),
				use("POOLRESET", "pooled visitor state fully reset", inPkgs("conv/j2p")),
			)},
		{ID: "C10", Title: "Protobuf edits and DOM marshalling keep the message well-formed and exact",
			Decides: "inserted tags carry a real wire type and map entries key=1/value=2 (TAGTYPE, MAPTAG), speculative lengths are finished on every path of PathNode.marshal (SPECLENPAIR), name->number translation is nil-checked (NILLOOKUP), insertion/tag errors propagate (DROPERR), the delete locator has a not-found exit (NOTFOUNDEXIT).",
			NotDec:  "updateByteLen ancestor-length arithmetic.",
			Uses: uses(
				use("CLOSURERESULT", "every re-written length prefix reports its own size change to the enclosing ones", protoGeneric),
				use("NOUNTYPEDSKIP", "a packed list is skipped by its element wire type", nil),
				use("PEEKBREAK", "the not-found position of a map / list lies before the next field's tag", protoGeneric),
				use("BUFOWN", "marshal only extends the writer's buffer", protoGeneric),
				use("ONESHOTFLAG", "the packed flag is re-read at every level of the length update", protoGeneric),
				use("WIREDISPATCH", "no value is encoded by its wire type alone (zig-zag / signedness come from the kind)", nil),
				use("COUNTERRESET", "a scan counts a container's elements from zero", protoGeneric),
				use("COPYZERO", "SetMany's scratch copy really copies", protoGeneric),
				use("RESULTUSED", "a re-allocated buffer is not dropped", anyOf(protoGeneric, protoBinary)),
				use("ENTRYLEN", "an edit inside a map value re-writes the map entry's length prefix", nil),
				use("TAGPOS", "positions recorded for the length fix-up are tag positions", nil),
				use("CHILDRESET", "a slot that is not re-scanned loses the children of its previous value", protoGeneric),
				use("INDEXLOWER", "a negative element index is rejected by lookups and editors", protoGeneric),
				use("DUALEXIT", "index == element count is not-found, not the bytes after the list", protoGeneric),
				use("KINDNAME", "each kind's clause calls the primitive named after that kind (signedness / width)", nil),
				use("LASTSTEPONLY", "only a missing LAST step is insertable", protoGeneric),
				use("LESSTIE", "multi-set splices edits in start-address order", func(o *Obl) bool { return protoGeneric(o) && strings.Contains(o.Key, "primary key") }),
				use("TAGTYPE", "tag wire types", protoGeneric),
				use("MAPTAG", "map entry numbers", protoGeneric),
				use("MAPKEYTYPE", "new map keys are encoded by the key kind", protoGeneric),
				use("NOTFOUNDPOS", "a missing element is inserted into the searched container", protoGeneric),
				use("LENZERO", "empty length-delimited payloads are accepted", protoGeneric),
				use("KTETROLE", "key/element types not mixed up", protoGeneric),
				use("MSGNARROW", "repeated/map walkers cannot leave the embedded message", protoGeneric),
				use("WALKADVANCE", "descriptor advances per path step", protoGeneric),
				use("SPECLENPAIR", "lengths finished", protoGeneric),
				use("NILLOOKUP", "lookups checked", func(o *Obl) bool { return protoGeneric(o) && mutators(o) }),
				use("DROPERR", "errors propagate", func(o *Obl) bool { return protoGeneric(o) && mutators(o) }),
				use("NOTFOUNDEXIT", "absent element changes nothing", protoGeneric),
				use("INPUTRO", "patching confined", protoGeneric),
				use("KINDEXH", "kind switches exhaustive", protoGeneric),
				use("RWPAIR", "per-kind primitives in key/value encoders", protoGeneric),
				use("GROWCOPY", "speculative length re-allocation keeps the payload", nil),
				use("SWAPBOTH", "multi-set sort permutes old and new nodes together", protoGeneric),
				use("POOLESCAPE", "Marshal copies out of the pooled buffer", protoGeneric),
			)},
		{ID: "C11", Title: "Cutting (MarshalTo) yields exactly the projection onto the target schema",
			Decides: "every success return of thrift marshalTo has consumed from the source and produced output (MUSTCONSUME: identical descriptors must copy, not drop), headers precede elements (HDRFIRST), proto marshalTo finishes its lengths and propagates nested errors (SPECLENPAIR, DROPERR), unknown fields are skipped/rejected per option (UNKNOWNSKIP, NEGPOLARITY), lookups checked (NILLOOKUP), recursion bounded (RECDEPTH), MarshalTo copies out of the pooled buffer (POOLESCAPE).",
			NotDec:  "that the output is exactly the projection.",
			Uses: uses(
				use("ROOTLEN", "a sub-message value is cut from its payload, not from its length prefix", nil),
				use("BITMAPLEN", "a required bit is never written beyond the bitmap's length", nil),
				use("DEFAULTARM", "a missing required field stays an error whether or not it has a default", thriftPkg),
				use("UNKNOWNBREAK", "an unknown field does not end the field loop", anyOf(thriftGeneric, protoGeneric)),
				use("MUSTCONSUME", "copy, never drop", nil),
				use("BMSET", "written fields are recorded in the requires bitmap", thriftGeneric),
				use("HDRFIRST", "header first", funcHas("generic.marshalTo")),
				use("SPECLENPAIR", "lengths finished", funcHas("generic.marshalTo")),
				use("DROPERR", "errors propagate", funcHas("generic.marshalTo", "MarshalTo", "handleUnsets")),
				use("UNKNOWNSKIP", "unknown skipped", funcHas("generic.marshalTo")),
				use("NEGPOLARITY", "unknown handling", funcHas("generic.marshalTo")),
				use("NILLOOKUP", "lookups checked", funcHas("generic.marshalTo")),
				use("RECDEPTH", "recursion budget", funcHas("generic.marshalTo")),
				use("POOLESCAPE", "copy-out", funcHas("MarshalTo")),
				use("LOOPPROGRESS", "loops consume", funcHas("generic.marshalTo")),
				use("REQAFFINITY", "requiredness <-> option", inPkgs("thrift", "thrift/generic")),
				use("ARGSWAP", "arguments in order", inPkgs("thrift", "thrift/generic", "proto/generic")),
				use("RAWCOPYGUARD", "raw-copy shortcut guarded by descriptor identity", nil),
			)},
		{ID: "C12", Title: "Shared descriptors/buffers are safe for concurrent use; results are not aliased",
			Decides: "no function reachable (VTA call graph) from a read-side entry point writes descriptor state (DESCIMMUT), a package-level variable (GLOBALWRITE), the caller's input bytes (INPUTRO) or a converter receiver — hence concurrent read-side calls share only immutable data and sync.Pool objects; pooled buffers are never returned, stored in caller-visible memory or used after Put (POOLESCAPE).",
			NotDec:  "result equality under interleavings, dirty pooled bitmaps (value-level), user-supplied http getters.",
			Uses: uses(
				use("RECYCLEFOREIGN", "the caller's input array never enters the protocol pool", nil),
				use("POOLNEWSHARED", "pooled objects share no storage", nil),
				use("BUFOWN", "a pooled writer's buffer never aliases the caller's input", nil),
				use("SPARSECLEAR", "a pooled PathNode does not show the previous document's children", nil),
				use("CHILDRESET", "a pooled PathNode does not show the previous document's children", nil),
				use("PARAMFORWARD", "an option parameter reaches every call of the callee it is forwarded to (copyString covers keys and values)", nil),
				use("RANGECOPYWRITE", "reset loops write the elements, not per-iteration copies", nil),
				use("DESCIMMUT", "descriptors immutable", nil),
				use("GLOBALWRITE", "no global writes", nil),
				use("INPUTRO", "input read-only", nil),
				use("POOLESCAPE", "pooled buffers do not escape", nil),
				use("POOLFIELD", "a pooled object whose buffer was handed out is not recycled", nil),
				use("POOLRESET", "pooled state fully reset", nil),
			)},
		{ID: "C13", Title: "JSON<->binary conversions are mutually inverse on their domains",
			Decides: "every kind one direction emits as a JSON number/string/bool is accepted from that JSON kind by the inverse direction (KINDINV), both directions use the same key accessor (KEYSRC).",
			NotDec:  "everything numeric (precision, sign of zero), string quoting, base64.",
			Uses: uses(
				use("B64STD", "encoder and decoder of binary values share one alphabet", nil),
				use("SIGNPARSE", "a key that p2j printed is accepted by j2p", nil),
				use("GROWCAP", "buffer growth keeps what was written", nil),
				use("PACKEDTAG", "a [packed = false] list written by j2p is the one p2j read", nil),
				use("RESULTUSED", "a re-allocated buffer is not dropped", nil),
				use("KINDINV", "emitted kinds accepted", nil),
				use("KEYSRC", "same keys both ways", nil),
				use("NATIVEQUOTE", "string escaper retry contract", nil),
				use("JSONSTRRAW", "input strings are escaped", nil),
				use("POOLRESET", "pooled converter state fully reset", nil),
			)},
		{ID: "C14", Title: "Thrift descriptors mirror the IDL and lookups are exact",
			Decides: "every name map that is filled is built (BUILDPAIR: without Build every key lookup returns nil), trie/hash Set and Get derive slots through the same helper (SEQAGREE), descriptors are not written after parsing (DESCIMMUT).",
			NotDec:  "fidelity to the IDL, default values, requiredness under options, the native trie_get/hm_get twins, adversarial keys.",
			Uses: uses(
				use("KEYMAPNONEMPTY", "an annotation with an empty value does not rename the field to the empty string", nil),
				use("FIELDLISTFIRST", "every declared exception is a field of the response descriptor", nil),
				use("PROBEMOD", "Get and Set of the name hash map probe with the same modulus", nil),
				use("INPLACEFILTER", "selecting methods does not overwrite the list still being searched", nil),
				use("BITMAPLEN", "the requires bitmap of a struct with sparse ids keeps every bit", nil),
				use("RECINTARG", "key and value of a map type are parsed at the same depth", thriftPkg),
				use("PUBLISHCOMPLETE", "a descriptor is complete when it enters the compile cache", thriftPkg),
				use("KNOWNNILARG", "the name index is not filled with nil probe results", inPkgs("internal/util", "internal/caching", "thrift")),
				use("DEFAULTLIT", "every literal kind the grammar allows for a field type yields a default", nil),
				use("PROBEWRAP", "hash probing wraps the slot pointer with the slot index", inPkgs("internal/caching")),
				use("IDUPPERCONST", "the shared id table has no protocol-specific upper bound", nil),
				use("BUILDPAIR", "maps built", inPkgs("thrift", "internal/util")),
				use("SEQAGREE", "set/get agree", nil),
				use("DESCIMMUT", "descriptors immutable", nil),
				use("SCOPEFOLLOW", "names resolved in the file they were found in", nil),
				use("DROPERR", "parse errors propagate", inPkgs("thrift", "internal/util", "internal/caching")),
				use("PARAMMAPWRITE", "parse entry points do not store into the caller's includes map", inPkgs("thrift")),
				use("INDEXLOWER", "lookups by id reject negative ids instead of indexing with them", inPkgs("thrift", "internal/util")),
				use("REFLOCAL", "same-file references (service inheritance) are resolved", inPkgs("thrift")),
				use("FIELDNEVERSET", "no descriptor accessor returns a never-assigned field", inPkgs("thrift")),
				use("LITPAIR", "name and alias are set together", inPkgs("thrift")),
				use("PARSEPURE", "a parse leaves nothing behind for the next parse", nil),
				use("DIVZERO", "name-index hash arithmetic never divides by zero", inPkgs("internal/caching", "internal/util")),
				use("SERVICEONLY", "…ServiceOnly modes expose one service's methods", inPkgs("thrift")),
				use("KEYBOTH", "MapFieldUseBoth registers alias and name", nil),
				use("KEYNORM", "annotation registry keys are normalised alike on registration and lookup", nil),
				use("TARGETAFFINITY", "each type is parsed for the target it belongs to", nil),
			)},
		{ID: "C15", Title: "Protobuf descriptors mirror the schema",
			Decides: "the compiling cache is keyed injectively (CACHEKEY: message types sharing a simple name get distinct descriptors), kind/wire/packedness tables match the spec (KINDTABLE), name maps are built (BUILDPAIR).",
			NotDec:  "field-by-field fidelity, streaming flags.",
			Uses: uses(
				use("PROBEMOD", "Get and Set of the name hash map probe with the same modulus", nil),
				use("REGISTERALL", "name, number and JSON-name tables are filled under the same conditions", nil),
				use("PUBLISHCOMPLETE", "a descriptor is complete when it enters the compile cache", inPkgs("proto")),
				use("KNOWNNILARG", "the name index is not filled with nil probe results", inPkgs("internal/util", "internal/caching", "proto")),
				use("OPTPRESENCE", "[packed = false] is read only where the option is present", nil),
				use("IDUPPERCONST", "the shared id table has no protocol-specific upper bound", nil),
				use("CACHEKEY", "descriptor identity", nil),
				use("KINDTABLE", "tables = spec", nil),
				use("BUILDPAIR", "maps built", inPkgs("proto", "internal/util")),
				use("PARAMMAPWRITE", "parse entry points do not store into the caller's includes map", inPkgs("proto")),
				use("INDEXLOWER", "lookups by number reject negative numbers instead of indexing with them", inPkgs("proto", "internal/util")),
				use("ATTRCOVER", "every schema attribute the property names is read by the parser", nil),
				use("FIELDNEVERSET", "no descriptor accessor returns a never-assigned field", inPkgs("proto")),
				use("LITPAIR", "name and JSON name are set together", inPkgs("proto")),
				use("PARSEPURE", "a parse leaves nothing behind for the next parse", nil),
				use("SERVICEONLY", "…ServiceOnly modes expose one service's methods", inPkgs("proto")),
			)},
		{ID: "C16", Title: "Requiredness, defaults and unknown-field options behave as documented", QuickP: true,
			Decides: "each write/disallow option reaches its own flag bit with the documented polarity (FLAGSYNC), options reach the matching parameter of HandleRequires/CheckRequires/EncodeText/ReadAnyWithDesc (ARGSWAP), an unknown member is an error exactly when disallowed and is otherwise skipped (NEGPOLARITY, UNKNOWNSKIP), unset fields are written under the same key as present ones (KEYSRC), the descriptor's requires bitmap is only copied, never written (DESCIMMUT).",
			NotDec:  "the truth table itself under dirty bitmaps and ids > 64/256.",
			Uses: uses(
				use("BMSETCONST", "the to-do bitmap of a conversion is marked with constants, not with the declared requiredness", nil),
				use("BITMAPLEN", "a required field with a sparse high id is still checked / written", nil),
				use("ARGAGREE", "every fallback look-up of a field uses the same key accessor", nil),
				use("DEFAULTARM", "an IDL default matters for optional fields only", thriftPkg),
				use("DEFAULTLIT", "every literal kind the grammar allows for a field type yields a default", nil),
				use("UNKNOWNBREAK", "an unknown field does not end the field loop", nil),
				use("FLAGSYNC", "option -> flag", nil),
				use("ARGSWAP", "option -> parameter", nil),
				use("NEGPOLARITY", "unknown = error iff disallowed", nil),
				use("UNKNOWNSKIP", "unknown skipped / disallow honoured", nil),
				use("KEYSRC", "same key for unset fields", nil),
				use("DESCIMMUT", "requires bitmap copied", nil),
				use("REQAFFINITY", "requiredness <-> option", nil),
				use("RAWCOPYGUARD", "raw-copy shortcut guarded by descriptor identity", nil),
				use("SCOPEFOLLOW", "IDL defaults resolved in the file they were found in", nil),
				use("POOLRESET", "pooled state-machine fully reset", nil),
			)},
		{ID: "C17", Title: "HTTP mapping takes each annotated field from its declared source",
			Decides: "each annotation key maps to the type whose Request/Response calls the getter/setter of its declared source (ANNOTABLE), the first listed source with a value wins (FIRSTWINS), HTTPConv really enables mapping before flags are computed (FLAGSYNC), fallback options reach the right parameters (ARGSWAP), mapping errors are not dropped (DROPERR).",
			NotDec:  "precedence/fallback decision table, field-cache replay in the native converter.",
			Uses: uses(
				use("BMSETCONST", "a field without an HTTP value stays on the to-do list of the body fallback", inPkgs("conv/j2t")),
				use("B64STD", "a binary field from an HTTP source is decoded in the standard alphabet", nil),
				use("PARSEWIDTH", "an HTTP value is parsed at the width of its field: out-of-range text is an error", nil),
				use("ENCODINGTABLE", "each mapping announces the value codec the converters expect", nil),
				use("SIGNEDBYTE", "the text form of an i8 (header, query, js_conv) is signed", nil),
				use("ARGAGREE", "every HTTP look-up of a field uses the same key accessor", nil),
				use("CACHERET", "the body-member cache returns what it stored", nil),
				use("BODYNIL", "a request without a body is an empty body, not a nil dereference", nil),
				use("ANNOTABLE", "annotation -> source", nil),
				use("BMSET", "http-mapped fields are recorded in the requires bitmap", inPkgs("conv/j2t", "conv/t2j")),
				use("NILGUARDAGREE", "an absent ResponseSetter/RequestGetter never reaches the mapping code", nil),
				use("DEADSTORE", "no option source is overwritten before it is read", nil),
				use("LISTORDER", "the listed order of the sources survives annotation mapping", nil),
				use("MEDIATYPE", "the body is read whatever parameters the Content-Type carries", nil),
				use("FORMSOURCE", "api.body / api.form read the body, not the query string", nil),
				use("FIRSTWINS", "first source wins", nil),
				use("FLAGSYNC", "HTTPConv enables mapping", nil),
				use("ARGSWAP", "options in order", inPkgs("conv/j2t", "conv/t2j", "thrift/annotation")),
				use("DROPERR", "errors propagate", inPkgs("thrift/annotation", "conv/t2j", "conv/j2t", "http")),
				use("POOLESCAPE", "response body/result copied out of the pooled buffer", funcHas("HTTPConv", "thrift/annotation")),
				use("REQAFFINITY", "requiredness <-> option in http fallback", inPkgs("conv/j2t", "conv/t2j")),
				use("GUARDCOVER", "injected base bytes fit the reserved capacity", inPkgs("conv/j2t")),
			)},
		{ID: "C18", Title: "Native and portable implementations agree; text encoders are exact", QuickP: true,
			Decides: "every native stub is bound in all three SIMD flavours with identical key sets and each flavour loads its own text (STUBTABLE), native and portable files are selected by exactly complementary build constraints (TAGPARTITION), the portable converter reads the options the native flags carry (OPTAGREE) and rejects kind mismatches on every path (CASEEXIT), native skip failure is an error like Go skip (NATIVERET).",
			NotDec:  "agreement of outputs, text-encoder exactness (opaque blob).",
			Uses: uses(
				use("NOCAPREAD", "native and portable skip both stop at len(Buf)", nil),
				use("CTWINLIT", "Go and native halves of the field-name lookup use the same constants", nil),
				use("NATIVEROW", "each native stub row is built from its own routine's constants", nil),
				use("PARSEBASE", "the portable converter reads text integers in base 10 like the native one", nil),
				use("TRUNCALLPATHS", "the native field cache is emptied on every success exit of the fallback handler", nil),
				use("STUBTABLE", "flavour tables", nil),
				use("CURSORREL", "native skip result is added to the cursor", thriftPkg),
				use("UNDOMARK", "portable converter removes null entries completely, as the native one does", inPkgs("conv/j2t")),
				use("COUNTERGUARD", "the portable skipper counts brackets outside strings only, in both directions", nil),
				use("EXPCASE", "both exponent markers accepted by the portable number scanner", nil),
				use("TAGPARTITION", "one implementation per platform", nil),
				use("OPTAGREE", "same options", nil),
				use("CASEEXIT", "both reject mismatches", nil),
				use("NATIVERET", "both fail", nil),
				use("NATIVEQUOTE", "string escaper retry contract", nil),
				use("CHDRAGREE", "Go constants = C header", nil),
				use("CONSTAFFINITY", "number formatter head-room", nil),
			)},
		{ID: "C19", Title: "Thrift protocol codec: write/read inverse, skip exact, envelope faithful",
			Decides: "skip width = read width = write width per fixed-size type (WIDTHTABLE), container/field headers precede elements in the generic writers (HDRFIRST), structs are closed with STOP (STRUCTPAIR), casted values are the ones written (CASTUSED), precomputed header/footer issue the same writer sequence as WrapBinaryBody (SEQAGREE), type switches exhaustive (KINDEXH), counts bounded (ALLOCBOUND), no size panics (PANICARG).",
			NotDec:  "value round-trips.",
			Uses: uses(
				use("FIELDLOOPEXIT", "a struct is read to its STOP byte", thriftPkg),
				use("NOCAPREAD", "fixed-width reads are bounded by len(Buf)", thriftPkg),
				use("INTSWITCHCOVER", "the Go-value writer accepts every integer width the reader produces", nil),
				use("MAPHDRORDER", "a map header is key type, value type, count", thriftPkg),
				use("SIGNEDBYTE", "ReadInt(I08) is the inverse of WriteInt(I08)", thriftPkg),
				use("BOUNDAGREE", "skip accepts a value that ends exactly at the end of the buffer", thriftPkg),
				use("DEPTHBUDGET", "the skip depth budget counts nesting levels, not elements", thriftPkg),
				use("HEADERKIND", "byte slices are built through the slice header (len and cap)", thriftPkg),
				use("PARAMFORWARD", "an option parameter reaches every call of the callee it is forwarded to (copyString covers keys and values)", nil),
				use("WIDTHTABLE", "widths agree", nil),
				use("CLAUSEWIDTH", "fixed-width clauses use the label's width", thriftPkg),
				use("CURSORREL", "the cursor only moves relatively", thriftPkg),
				use("GOKINDAGREE", "scalar writer and container element classifier accept the same Go types", nil),
				use("COUNTFACTOR", "count × width: every term of a skipped byte count carries the count", thriftPkg),
				use("UNSIGNEDWIDEN", "i16/i32 are not read without sign extension", thriftPkg),
				use("SLICEHIGH", "the envelope body is cut only after its own bound was checked", thriftPkg),
				use("MSGMASK", "message type / version masks of the envelope", nil),
				use("HDRFIRST", "header first", thriftPkg),
				use("STRUCTPAIR", "STOP written", thriftPkg),
				use("CASTUSED", "cast value written", thriftPkg),
				use("SEQAGREE", "header/footer = wrapped form", nil),
				use("KINDEXH", "type switches", thriftPkg),
				use("ALLOCBOUND", "counts bounded", thriftPkg),
				use("PANICARG", "no size panic", thriftPkg),
				use("CURSORBOUND", "cursor never jumps past the buffer", thriftPkg),
				use("DROPERR", "errors propagate", thriftPkg),
				use("NEGPOLARITY", "unknown handling", thriftPkg),
				use("UNKNOWNSKIP", "unknown skipped", thriftPkg),
				use("ARGSWAP", "arguments in order", thriftPkg),
				use("ADVANCEPOS", "skip helpers advance", thriftPkg),
				use("ROLEMIX", "key/value type dispatch not mixed", nil),
				use("RECDEPTH", "recursion budget", thriftPkg),
				use("TYPESWITCHAGREE", "unhashable map keys boxed by every decoder", thriftPkg),
				use("HDRUSED", "container header types checked", thriftPkg),
				use("TWINCMP", "set and list headers are bounded alike", thriftPkg),
				use("ASSERTFAILUSE", "no arm of a Go-type dispatch uses the value of another arm's failed assertion", thriftPkg),
				use("COUNTCMP", "element loops stop at the header count", thriftPkg),
				use("POOLRESET", "recycled protocol objects fully reset", thriftPkg),
				use("WIDTHTABLE", "skip = read = write width", nil),
				use("GUARDCOVER", "zero-value encodings fit the reserved capacity", thriftPkg),
			)},
		{ID: "C20", Title: "Protobuf wire codec agrees with the reference implementation",
			Decides: "per kind, the descriptor-driven reader and writer use inverse wire primitives matching the spec incl. zig-zag (RWPAIR), unrolled varint stages follow the template (VARINTTEMPLATE), kind/wire tables = spec (KINDTABLE), option/flag arguments are passed in parameter order (ARGSWAP), map entries key=1/value=2 (MAPTAG), speculative lengths finished and writer errors propagated in WriteList/WriteMap/WriteMessageFields (SPECLENPAIR, DROPERR), no size panics (PANICARG).",
			NotDec:  "byte-identity with the reference encoder.",
			Uses: uses(
				use("VARINTSIGNEXT", "a negative int32 is a sign-extended 10-byte varint", nil),
				use("TWINCMP", "the peeking tag reader rejects what the moving one rejects", inPkgs("proto/binary")),
				use("LENZERO", "an empty embedded message is a present value, not nil and not an error", protoBinary),
				use("WIREDISPATCH", "no value is encoded by its wire type alone (zig-zag / signedness come from the kind)", nil),
				use("REGIONEXACT", "a packed list / embedded message is walked exactly to the end of its payload", nil),
				use("KINDNAME", "each kind's clause calls the primitive named after that kind (signedness / width)", nil),
				use("RWPAIR", "reader/writer symmetric", nil),
				use("UNSIGNEDWIDEN", "unsigned 32-bit kinds are not sign-extended", nil),
				use("MSGNARROW", "repeated/map walkers cannot leave the embedded message", protoBinary),
				use("ELEMTAG", "unpacked list elements carry the element's wire type", protoBinary),
				use("BOOLNONZERO", "a bool is true for every non-zero varint", nil),
				use("PREFIXBOUND", "a decoded length is compared with the bytes after its prefix", nil),
				use("WIREEXH", "group / invalid wire types are an error, not a silent no-op", nil),
				use("GROWCOPY", "speculative length re-allocation keeps the payload", nil),
				use("VARINTNARROW", "varint lengths bounded before narrowing", nil),
				use("POOLRESET", "recycled protocol objects fully reset", protoBinary),
				use("VARINTTEMPLATE", "varint stages", nil),
				use("KINDTABLE", "tables = spec", nil),
				use("ARGSWAP", "arguments in order", protoBinary),
				use("MAPTAG", "map entry numbers", protoBinary),
				use("TAGTYPE", "tag wire types", protoBinary),
				use("SPECLENPAIR", "lengths finished", protoBinary),
				use("DROPERR", "errors propagate", protoBinary),
				use("ERRSWALLOW", "errors propagate", protoBinary),
				use("PANICARG", "no size panic", protoBinary),
				use("ASSERTFAILUSE", "no arm of a Go-type dispatch uses the value of another arm's failed assertion", protoBinary),
				use("NEGPOLARITY", "unknown handling", protoBinary),
				use("UNKNOWNSKIP", "unknown skipped", protoBinary),
				use("LOOPPROGRESS", "loops consume", protoBinary),
			)},
	}
	// clauses of rules that the hand-written summary does not name yet are appended, so that the
	// MANIFEST text and DESIGN.md always list everything that is checked
	for _, p := range properties {
		var extra []string
		seen := map[string]bool{}
		for _, u := range p.Uses {
			if seen[u.Rule] || strings.Contains(p.Decides, u.Rule) {
				continue
			}
			seen[u.Rule] = true
			extra = append(extra, u.What+" ("+u.Rule+")")
		}
		if len(extra) > 0 {
			p.Decides = strings.TrimRight(p.Decides, ". ") + "; further structural clauses: " + strings.Join(extra, ", ") + "."
		}
	}

}

// writeManifest regenerates /verif/MANIFEST.json from the property table.
func writeManifest() {
	type level struct {
		Category  string `json:"category"`
		Text      string `json:"text"`
		DesignRef string `json:"design_ref"`
	}
	type check struct {
		PropertyID string `json:"property_id"`
		QuickCmd   string `json:"quick_cmd"`
		Thorough   string `json:"thorough_cmd"`
		Evidence   string `json:"evidence_file"`
		Replay     string `json:"replay_cmd_template"`
		Engine     string `json:"engine"`
		Level      level  `json:"level_claimed"`
		LevelNote  string `json:"level_note"`
		Technique  string `json:"technique"`
	}
	var checks []check
	allRules := map[string][]string{}
	for _, p := range properties {
		if len(p.Uses) == 0 {
			continue
		}
		var rs []string
		seen := map[string]bool{}
		for _, u := range p.Uses {
			if !seen[u.Rule] {
				seen[u.Rule] = true
				rs = append(rs, u.Rule)
				allRules[u.Rule] = append(allRules[u.Rule], p.ID)
			}
		}
		checks = append(checks, check{
			PropertyID: p.ID,
			QuickCmd:   "./dgcheck.sh " + p.ID + " quick",
			Thorough:   "./dgcheck.sh " + p.ID + " thorough",
			Evidence:   "/verif/evidence/" + p.ID + ".json",
			Replay:     "./dgcheck.sh " + p.ID + " quick   # re-analyses /repo; {path} names the violated obligation (file:line, rule, path through the CFG)",
			Engine:     "dgcheck",
			Level: level{Category: "other",
				Text:      "Static analysis (go/types + go/ssa + VTA call graph) of /repo's current source. Structural necessary conditions of the property are decided on every path of every function in scope; the behaviour itself is not. Decided: " + p.Decides + " Not decided: " + p.NotDec,
				DesignRef: "DESIGN.md §3 (rules " + strings.Join(rs, ", ") + "), §4 " + p.ID},
			LevelNote: "Trusted: go/packages, go/types, go/ssa, VTA call graph (x/tools v0.29.0); rule tables holding spec constants; exemptions.jsonl (one named construct each, with reason). Native machine code, sonic and the Go runtime are not analysed. Violations that reproduce as genuine defects are repaired by fix: commits or listed in known_findings.jsonl.",
			Technique: "static analysis: " + strings.Join(rs, ", "),
		})
	}
	type engine struct {
		Name   string   `json:"name"`
		Path   string   `json:"path"`
		Serves []string `json:"serves_properties"`
		Kind   string   `json:"kind_free_text"`
	}
	var served []string
	for _, c := range checks {
		served = append(served, c.PropertyID)
	}
	var na []map[string]string
	for _, p := range properties {
		if len(p.Uses) == 0 {
			na = append(na, map[string]string{"property_id": p.ID, "reason": "no structural clause of this property is decided by a rule that is built yet"})
		}
	}
	var rn []string
	for r := range allRules {
		rn = append(rn, r)
	}
	sort.Strings(rn)
	m := map[string]interface{}{
		"version":   1,
		"setup_cmd": "cd /verif && ./setup.sh",
		"hooks": map[string]interface{}{
			"guard":            "verif",
			"enable":           "none needed: the checks analyse source only and add positive-control fixtures through the go/packages overlay (no file is written under /repo); no hook commits exist",
			"baseline_off_cmd": "/verif/tools/suite.sh",
			"source_commits":   []string{},
			"add_only":         true,
		},
		"engines": []engine{{Name: "dgcheck", Path: "/verif/cmd/dgcheck", Serves: served,
			Kind: "custom static analyser over go/packages + go/types + go/ssa + callgraph/vta: path rules (MUSTPASS), dataflow summaries, call-graph reachability, cross-table comparison"}},
		"checks":         checks,
		"not_applicable": na,
		"notes":          "All checks are static (nothing under /repo is executed). Exit 0 = every obligation discharged/exempt/known; exit 1 + VIOLATION line = an unlisted violated obligation; exit 2 = checker broken (load/type errors, unresolved anchor, instance floor missed, positive control not reported). Rules: " + strings.Join(rn, ", ") + ".",
	}
	if na == nil {
		m["not_applicable"] = []map[string]string{}
	}
	b, _ := json.MarshalIndent(m, "", " ")
	path := filepath.Join(verifDir(), "MANIFEST.json")
	if err := os.WriteFile(path, append(b, '\n'), 0o644); err != nil {
		broken("write manifest: %v", err)
	}
	fmt.Println("wrote", path, "checks:", len(checks))
}

package main

import (
	"fmt"
	"go/ast"
	"go/constant"
	"regexp"
	"strings"

	"golang.org/x/tools/go/ssa"
)

func init() {
	register(&Rule{
		Name: "WIDTHTABLE",
		Doc: "thrift fixed-width types have ONE width everywhere: typeSize[T] (what Skip advances by) = the constant passed to next/malloc in BinaryProtocol.Read<T>/Write<T> = the width of the binary.BigEndian accessor used there and in BinaryEncoding.Encode<T>/Decode<T> " +
			"(bool/byte 1, i16 2, i32 4, i64/double 8) — skip, read and write must agree or a skipped value desynchronises the cursor",
		Configs:  "NP",
		Floor:    map[string]int{"N": 20, "P": 20},
		Controls: 1,
		Run:      runWidthTable,
	})
}

var widthOfStem = map[string]int64{
	"Bool": 1, "Byte": 1, "I08": 1, "I16": 2, "Int16": 2, "I32": 4, "Int32": 4, "I64": 8, "Int64": 8, "Double": 8,
}

var endianRe = regexp.MustCompile(`^(Put)?Uint(16|32|64)$`)

func runWidthTable(rc *RuleCtx) {
	w := rc.W
	// typeSize table
	p := w.Pkg("thrift")
	spec := map[string]int64{"BOOL": 1, "I08": 1, "I16": 2, "I32": 4, "I64": 8, "DOUBLE": 8, "STOP": -1, "VOID": -1, "STRING": -1, "STRUCT": -1, "MAP": -1, "SET": -1, "LIST": -1, "UTF8": -1, "UTF16": -1}
	for _, f := range p.Syntax {
		for _, d := range f.Decls {
			gd, ok := d.(*ast.GenDecl)
			if !ok {
				continue
			}
			for _, sp := range gd.Specs {
				vs, ok := sp.(*ast.ValueSpec)
				if !ok || len(vs.Names) != 1 || vs.Names[0].Name != "typeSize" || len(vs.Values) != 1 {
					continue
				}
				cl, ok := vs.Values[0].(*ast.CompositeLit)
				if !ok {
					continue
				}
				seen := map[string]bool{}
				for _, el := range cl.Elts {
					kv, ok := el.(*ast.KeyValueExpr)
					if !ok {
						continue
					}
					name := lastIdent(kv.Key)
					tv := p.TypesInfo.Types[kv.Value]
					if tv.Value == nil {
						continue
					}
					v, _ := constant.Int64Val(tv.Value)
					want, known := spec[name]
					rc.Examined++
					seen[name] = true
					good := known && v == want
					rc.add(nil, "thrift.typeSize", "typeSize["+name+"]", kv.Pos(), map[bool]string{true: "discharged", false: "violated"}[good], fmt.Sprintf("typeSize[%s] = %d, binary protocol width %d", name, v, want), true)
				}
				for name, want := range spec {
					if want > 0 && !seen[name] {
						rc.Examined++
						rc.add(nil, "thrift.typeSize", "typeSize["+name+"]", cl.Pos(), "violated", "fixed-width type "+name+" has no entry: Skip would treat it as unknown (0)", true)
					}
				}
			}
		}
	}
	// readers / writers / encoders
	for _, fn := range w.Funcs {
		if fn.Signature.Recv() == nil || fn.Blocks == nil || pkgRel(fn) != "thrift" || fn.Parent() != nil {
			continue
		}
		recvBP := isNamed(fn.Signature.Recv().Type(), "thrift", "BinaryProtocol")
		recvBE := isNamed(fn.Signature.Recv().Type(), "thrift", "BinaryEncoding")
		if !recvBP && !recvBE {
			continue
		}
		stem := ""
		for _, pre := range []string{"Read", "Write", "Encode", "Decode"} {
			if strings.HasPrefix(fn.Name(), pre) {
				stem = strings.TrimPrefix(fn.Name(), pre)
			}
		}
		want, ok := widthOfStem[strings.TrimSuffix(stem, "ZZControl")]
		if !ok {
			continue
		}
		var found []string
		good := true
		for _, b := range fn.Blocks {
			for _, ins := range b.Instrs {
				c, ok := ins.(*ssa.Call)
				if !ok {
					continue
				}
				cal := c.Call.StaticCallee()
				if cal == nil {
					continue
				}
				if (cal.Name() == "next" || cal.Name() == "malloc" || cal.Name() == "next_nopanic") && len(c.Call.Args) == 2 {
					if v, ok := constInt(c.Call.Args[1]); ok {
						found = append(found, fmt.Sprintf("%s(%d)", cal.Name(), v))
						if v != want {
							good = false
						}
					}
				}
				if m := endianRe.FindStringSubmatch(cal.Name()); m != nil && strings.Contains(cal.String(), "encoding/binary") {
					bits := map[string]int64{"16": 2, "32": 4, "64": 8}[m[2]]
					found = append(found, cal.Name())
					if bits != want {
						good = false
					}
				}
			}
		}
		if len(found) == 0 {
			continue // delegates to another typed helper
		}
		rc.Examined++
		rc.verdict(good, fn, "width("+stem+")", fn.Pos(), fmt.Sprintf("%s uses %s; width of %s is %d", fn.Name(), strings.Join(found, ", "), stem, want), true)
	}
}

package main

import (
	"fmt"
	"go/ast"
	"go/constant"
	"go/token"
	"go/types"
	"sort"
	"strings"

	"golang.org/x/tools/go/packages"
)

// GUARDCOVER: rt.GuardSlice(&buf, G) reserves G bytes of capacity; the statements that follow in
// the same statement list extend the slice by re-slicing past len (`buf = buf[:len(buf)+K]`) — which
// Go permits up to cap without any check, so an under-sized G lets the encoder write through
// unsafe/reslice windows into memory the slice does not own — or by append. The growth between a
// guard and the next guard / the end of the list, as a linear form over constants and identifiers,
// must be covered term by term by G.
func init() {
	register(&Rule{
		Name:     "GUARDCOVER",
		Doc:      "after rt.GuardSlice(&buf, G) the bytes the same statement list adds to buf by re-slicing past len (`buf = buf[:len(buf)+K]`, `*buf = (*buf)[:l+K]` with l = len(*buf)) or by append of single bytes, summed as a linear form (constants folded; identifiers symbolic and assumed non-negative), are covered term by term by G; sites whose growth contains a term that G does not mention (e.g. the byte count returned by a native formatter) are not decided and not counted",
		Configs:  "NP",
		Floor:    map[string]int{"N": 10, "P": 10},
		Controls: 1,
		Run:      runGuardCover,
	})
}

type linForm struct {
	c    int64
	syms map[string]int64
	ok   bool
}

func newLin() linForm { return linForm{syms: map[string]int64{}, ok: true} }

func (a *linForm) addScaled(b linForm, k int64) {
	if !b.ok {
		a.ok = false
		return
	}
	a.c += b.c * k
	for s, n := range b.syms {
		a.syms[s] += n * k
	}
}

func (a linForm) String() string {
	var parts []string
	var ks []string
	for s := range a.syms {
		ks = append(ks, s)
	}
	sort.Strings(ks)
	for _, s := range ks {
		if a.syms[s] == 0 {
			continue
		}
		if a.syms[s] == 1 {
			parts = append(parts, s)
		} else {
			parts = append(parts, fmt.Sprintf("%d*%s", a.syms[s], s))
		}
	}
	if a.c != 0 || len(parts) == 0 {
		parts = append(parts, fmt.Sprint(a.c))
	}
	return strings.Join(parts, " + ")
}

func linearize(info *types.Info, e ast.Expr) linForm {
	l := newLin()
	e = ast.Unparen(e)
	if tv, ok := info.Types[e]; ok && tv.Value != nil && tv.Value.Kind() == constant.Int {
		if v, exact := constant.Int64Val(tv.Value); exact {
			l.c = v
			return l
		}
	}
	switch x := e.(type) {
	case *ast.BinaryExpr:
		switch x.Op {
		case token.ADD:
			l.addScaled(linearize(info, x.X), 1)
			l.addScaled(linearize(info, x.Y), 1)
			return l
		case token.SUB:
			l.addScaled(linearize(info, x.X), 1)
			l.addScaled(linearize(info, x.Y), -1)
			return l
		case token.MUL:
			a, b := linearize(info, x.X), linearize(info, x.Y)
			if a.ok && len(a.syms) == 0 {
				l.addScaled(b, a.c)
				return l
			}
			if b.ok && len(b.syms) == 0 {
				l.addScaled(a, b.c)
				return l
			}
		}
	case *ast.CallExpr:
		// conversions int(x)
		if tv, ok := info.Types[x.Fun]; ok && tv.IsType() && len(x.Args) == 1 {
			return linearize(info, x.Args[0])
		}
	}
	l.syms[exprKey(e)] = 1
	return l
}

func exprKey(e ast.Expr) string {
	return types.ExprString(ast.Unparen(e))
}

func isGuardSliceCall(info *types.Info, s ast.Stmt) (target string, g ast.Expr, ok bool) {
	es, isE := s.(*ast.ExprStmt)
	if !isE {
		return
	}
	ce, isC := es.X.(*ast.CallExpr)
	if !isC || len(ce.Args) != 2 {
		return
	}
	sel, isS := ce.Fun.(*ast.SelectorExpr)
	if !isS || sel.Sel.Name != "GuardSlice" {
		return
	}
	if fn, _ := info.Uses[sel.Sel].(*types.Func); fn == nil || fn.Pkg() == nil || !strings.HasSuffix(fn.Pkg().Path(), "internal/rt") {
		return
	}
	a := ast.Unparen(ce.Args[0])
	if u, isU := a.(*ast.UnaryExpr); isU && u.Op == token.AND {
		return exprKey(u.X), ce.Args[1], true // &buf -> buf
	}
	return "*" + exprKey(a), ce.Args[1], true // buf (a *[]byte) -> *buf
}

func runGuardCover(rc *RuleCtx) {
	w := rc.W
	for _, p := range w.Pkgs {
		rel := strings.TrimPrefix(strings.TrimPrefix(p.PkgPath, modPath), "/")
		for _, f := range p.Syntax {
			for _, d := range f.Decls {
				fd, ok := d.(*ast.FuncDecl)
				if !ok || fd.Body == nil {
					continue
				}
				name := declName(rel, fd)
				// identifiers assigned len(<target>) anywhere in the function
				ast.Inspect(fd.Body, func(nd ast.Node) bool {
					var list []ast.Stmt
					switch x := nd.(type) {
					case *ast.BlockStmt:
						list = x.List
					case *ast.CaseClause:
						list = x.Body
					case *ast.CommClause:
						list = x.Body
					default:
						return true
					}
					guardCoverList(rc, p, fd, name, list)
					return true
				})
			}
		}
	}
}

func guardCoverList(rc *RuleCtx, p *packages.Package, fd *ast.FuncDecl, name string, list []ast.Stmt) {
	info := p.TypesInfo
	for i := 0; i < len(list); i++ {
		target, gexpr, ok := isGuardSliceCall(info, list[i])
		if !ok {
			continue
		}
		rc.Examined++
		G := linearize(info, gexpr)
		growth := newLin()
		lenIdents := map[string]bool{}
		decided := true
		nGrow := 0
		for j := 0; j < len(list); j++ {
			if j == i {
				continue
			}
			if t2, _, again := isGuardSliceCall(info, list[j]); again && t2 == target {
				if j > i {
					break
				}
				continue
			}
			as, isA := list[j].(*ast.AssignStmt)
			if !isA || len(as.Lhs) != 1 || len(as.Rhs) != 1 {
				// growth hidden in nested statements is not tracked: give up if the target is assigned there
				if j > i && assignsTarget(list[j], target) {
					decided = false
				}
				continue
			}
			lhs := exprKey(as.Lhs[0])
			rhs := ast.Unparen(as.Rhs[0])
			// l := len(target)
			if ce, isC := rhs.(*ast.CallExpr); isC && len(ce.Args) == 1 {
				if id, isI := ce.Fun.(*ast.Ident); isI && id.Name == "len" && exprKey(ce.Args[0]) == target {
					lenIdents[lhs] = true
					continue
				}
			}
			if lenIdents[lhs] {
				delete(lenIdents, lhs) // reassigned to something else
			}
			if lhs != target || j < i {
				continue
			}
			switch x := rhs.(type) {
			case *ast.SliceExpr:
				if exprKey(x.X) != target || x.Low != nil || x.High == nil {
					decided = false
					continue
				}
				h := linearize(info, x.High)
				base := 0
				for s, n := range h.syms {
					if s == "len("+target+")" || lenIdents[s] {
						base += int(n)
						delete(h.syms, s)
					}
				}
				if base != 1 || !h.ok {
					decided = false
					continue
				}
				growth.addScaled(h, 1)
				nGrow++
			case *ast.CallExpr:
				if id, isI := x.Fun.(*ast.Ident); isI && id.Name == "append" && len(x.Args) >= 1 && exprKey(x.Args[0]) == target && !x.Ellipsis.IsValid() {
					growth.c += int64(len(x.Args) - 1)
					nGrow++
				} else {
					decided = false
				}
			default:
				decided = false
			}
		}
		if !decided || nGrow == 0 || !G.ok || !growth.ok {
			continue
		}
		// every symbolic growth term must be mentioned by G, otherwise not decided
		comparable := true
		for s, n := range growth.syms {
			if n != 0 {
				if _, has := G.syms[s]; !has {
					comparable = false
				}
			}
		}
		if !comparable {
			continue
		}
		good := growth.c <= G.c
		for s, n := range growth.syms {
			if n > G.syms[s] {
				good = false
			}
		}
		detail := fmt.Sprintf("guard reserves %s; the statements that follow add %s to %s", G.String(), growth.String(), target)
		if !good {
			detail += " — more than was reserved: the re-slice past len succeeds up to cap and the encoder writes through it into memory the buffer does not own (or panics)"
		}
		rc.add(nil, name, "GuardSlice("+target+")", list[i].Pos(), map[bool]string{true: "discharged", false: "violated"}[good], detail, true)
	}
}

func assignsTarget(s ast.Stmt, target string) bool {
	found := false
	ast.Inspect(s, func(nd ast.Node) bool {
		if as, ok := nd.(*ast.AssignStmt); ok {
			for _, l := range as.Lhs {
				if exprKey(l) == target {
					found = true
				}
			}
		}
		return !found
	})
	return found
}

package main

import (
	"go/ast"
	"go/token"
	"go/types"
	"strings"
)

// PATHKEYFAMILY: thrift maps are addressed by three kinds of path step — PathStrKey, PathIntKey
// and PathBinKey (any other key type, e.g. double or struct keys). A condition that enumerates the
// map-key kinds and names two of them has forgotten the third: the addressed element below such a
// map cannot be reached (or is rejected as an invalid parameter).
func init() {
	register(&Rule{
		Name:     "PATHKEYFAMILY",
		Doc:      "in thrift/generic, a chain of `==`/`!=` comparisons of one path-kind expression (joined by && or ||) that names two of the three map-key kinds PathStrKey, PathIntKey, PathBinKey names all three",
		Configs:  "NP",
		Floor:    map[string]int{"N": 5, "P": 5},
		Controls: 1,
		Run:      runPathKeyFamily,
	})
}

func runPathKeyFamily(rc *RuleCtx) {
	fam := map[string]bool{"PathStrKey": true, "PathIntKey": true, "PathBinKey": true}
	for _, p := range rc.W.Pkgs {
		rel := strings.TrimPrefix(strings.TrimPrefix(p.PkgPath, modPath), "/")
		if rel != "thrift/generic" {
			continue
		}
		for _, f := range p.Syntax {
			for _, d := range f.Decls {
				fd, ok := d.(*ast.FuncDecl)
				if !ok || fd.Body == nil {
					continue
				}
				name := declName(rel, fd)
				visited := map[ast.Node]bool{}
				ast.Inspect(fd.Body, func(n ast.Node) bool {
					x, ok := n.(*ast.BinaryExpr)
					if !ok || visited[x] {
						return true
					}
					var leaves []ast.Expr
					if x.Op == token.LOR || x.Op == token.LAND {
						var flat func(e ast.Expr)
						flat = func(e ast.Expr) {
							e = ast.Unparen(e)
							if b, ok := e.(*ast.BinaryExpr); ok && b.Op == x.Op {
								visited[b] = true
								flat(b.X)
								flat(b.Y)
								return
							}
							leaves = append(leaves, e)
						}
						flat(x)
					} else if x.Op == token.EQL || x.Op == token.NEQ {
						leaves = []ast.Expr{x}
					} else {
						return true
					}
					bySubj := map[string]map[string]bool{}
					for _, l := range leaves {
						b, ok := ast.Unparen(l).(*ast.BinaryExpr)
						if !ok || (b.Op != token.EQL && b.Op != token.NEQ) {
							continue
						}
						visited[b] = true
						// `p.t == PathStrKey`, written either way round
						subj := b.X
						id, ok := ast.Unparen(b.Y).(*ast.Ident)
						if !ok || !fam[id.Name] {
							id, ok = ast.Unparen(b.X).(*ast.Ident)
							subj = b.Y
						}
						if !ok || !fam[id.Name] {
							continue
						}
						k := types.ExprString(subj)
						if bySubj[k] == nil {
							bySubj[k] = map[string]bool{}
						}
						bySubj[k][id.Name] = true
					}
					for subj, set := range bySubj {
						rc.Examined++
						good := len(set) != 2
						var got []string
						for k := range set {
							got = append(got, k)
						}
						rc.add(nil, name, "map-key kinds of "+subj, x.Pos(), map[bool]string{true: "discharged", false: "violated"}[good],
							map[bool]string{true: "the condition names one or all of the map-key kinds", false: "the condition enumerates the map-key kinds but names only two of PathStrKey/PathIntKey/PathBinKey"}[good], false)
					}
					return true
				})
			}
		}
	}
}

package main

import (
	"go/ast"
	"go/token"
	"go/types"
	"strings"
)

// DUALEXIT: a locator that counts elements while it walks (`for cursor < end && cnt < idx`) leaves
// its loop for one of two reasons — the counter reached the wanted index, or the cursor reached
// the end of the container. When both become true in the same iteration (idx == number of
// elements) the counter test alone says "found", and the position returned is the first byte
// AFTER the container: GetByPath reads the next field as the element, SetByPath overwrites it.
func init() {
	register(&Rule{
		Name:     "DUALEXIT",
		Doc:      "in every search* locator of the generic packages, a loop whose condition is a conjunction `A && B` of a cursor bound A (it mentions the read cursor) and a counter test B (`cnt < idx`) is followed by a not-found decision that does not rest on B alone: some if after the loop that returns the not-found sentinel mentions the cursor / the bound of A, or a flag assigned inside the loop — otherwise idx == element count is reported as found, one past the last element",
		Configs:  "NP",
		Floor:    map[string]int{"N": 2, "P": 2},
		Controls: 1,
		Run:      runDualExit,
	})
}

func identsOf(e ast.Node) map[string]bool {
	out := map[string]bool{}
	ast.Inspect(e, func(n ast.Node) bool {
		switch x := n.(type) {
		case *ast.SelectorExpr:
			out[types.ExprString(x)] = true
		case *ast.Ident:
			out[x.Name] = true
		}
		return true
	})
	return out
}

func runDualExit(rc *RuleCtx) {
	for _, p := range rc.W.Pkgs {
		rel := strings.TrimPrefix(strings.TrimPrefix(p.PkgPath, modPath), "/")
		if rel != "proto/generic" && rel != "thrift/generic" {
			continue
		}
		for _, f := range p.Syntax {
			for _, d := range f.Decls {
				fd, ok := d.(*ast.FuncDecl)
				if !ok || fd.Body == nil || !(strings.HasPrefix(fd.Name.Name, "search") || strings.HasPrefix(fd.Name.Name, "zzControlSearch")) {
					continue
				}
				name := declName(rel, fd)
				ast.Inspect(fd.Body, func(n ast.Node) bool {
					fs, ok := n.(*ast.ForStmt)
					if !ok || fs.Cond == nil {
						return true
					}
					be, ok := ast.Unparen(fs.Cond).(*ast.BinaryExpr)
					if !ok || be.Op != token.LAND {
						return true
					}
					var a, b ast.Expr
					for _, side := range []ast.Expr{be.X, be.Y} {
						if strings.Contains(types.ExprString(side), ".Read") {
							a = side
						} else {
							b = side
						}
					}
					if a == nil || b == nil {
						return true
					}
					rc.Examined++
					aIds, bIds := identsOf(a), identsOf(b)
					// variables assigned inside the loop that are not part of B
					flags := map[string]bool{}
					ast.Inspect(fs.Body, func(m ast.Node) bool {
						if as, ok := m.(*ast.AssignStmt); ok {
							for _, l := range as.Lhs {
								if id, ok := l.(*ast.Ident); ok && !bIds[id.Name] {
									if t := p.TypesInfo.TypeOf(id); t != nil {
										if bt, ok := t.Underlying().(*types.Basic); ok && bt.Kind() == types.Bool {
											flags[id.Name] = true
										}
									}
								}
							}
						}
						return true
					})
					good := false
					ast.Inspect(fd.Body, func(m ast.Node) bool {
						is, ok := m.(*ast.IfStmt)
						if !ok || is.Pos() < fs.End() {
							return true
						}
						returnsNotFound := false
						ast.Inspect(is.Body, func(r ast.Node) bool {
							if rs, ok := r.(*ast.ReturnStmt); ok {
								for _, res := range rs.Results {
									if strings.Contains(types.ExprString(res), "errNotFound") {
										returnsNotFound = true
									}
								}
							}
							return true
						})
						if !returnsNotFound {
							return true
						}
						for id := range identsOf(is.Cond) {
							if (aIds[id] && !bIds[id] && id != "p" && id != "len") || flags[id] {
								good = true
							}
						}
						return true
					})
					rc.add(nil, name, "loop `"+types.ExprString(fs.Cond)+"`", fs.Pos(), map[bool]string{true: "discharged", false: "violated"}[good],
						map[bool]string{true: "the not-found decision after the loop looks at the cursor bound (or a flag set in the loop), not only at the counter",
							false: "after the loop only the counter test decides found / not found: when the cursor reaches the end in the same step as the counter reaches the index (idx == element count) the position after the container is returned as the element"}[good], true)
					return true
				})
			}
		}
	}
}

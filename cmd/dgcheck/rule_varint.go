package main

import (
	"fmt"
	"go/ast"
	"go/constant"
	"go/token"
	"strings"

	"golang.org/x/tools/go/packages"
)

func init() {
	register(&Rule{
		Name: "VARINTTEMPLATE",
		Doc: "the unrolled protobuf varint codec follows its template, compared stage by stage on the constant-folded syntax: ConsumeVarint stage i guards len(b) <= i, reads b[i], adds y << 7i, terminates on y < 0x80 returning i+1 (stage 9: y < 2 returning 10, else overflow) and removes the continuation bit 0x80 << 7i; " +
			"AppendVarint case k tests v < 1<<7k and appends k bytes (v>>7j)&0x7f|0x80 … v>>7(k-1); EncodeZigZag/DecodeZigZag are (v<<1)^(v>>63) and (x>>1)^(x<<63>>63)",
		Configs: "NP",
		Floor:   map[string]int{"N": 20, "P": 20},
		Run:     runVarintTemplate,
	})
}

// canon renders an expression with every constant sub-expression folded to its value and full parentheses.
func canon(p *packages.Package, e ast.Expr) string {
	e = ast.Unparen(e)
	if tv, ok := p.TypesInfo.Types[e]; ok && tv.Value != nil && tv.Value.Kind() == constant.Int {
		return tv.Value.ExactString()
	}
	switch x := e.(type) {
	case *ast.Ident:
		return x.Name
	case *ast.BinaryExpr:
		// comparisons with a constant are normalised to `X < c` / `X >= c` so that equivalent spellings
		// (len(b) <= 1, len(b) < 2, 2 > len(b)) compare equal
		if cx, ok := intConst(p, x.X); ok {
			switch x.Op {
			case token.GTR:
				return "(" + canon(p, x.Y) + "<" + fmt.Sprint(cx) + ")"
			case token.GEQ:
				return "(" + canon(p, x.Y) + "<" + fmt.Sprint(cx+1) + ")"
			case token.LSS:
				return "(" + canon(p, x.Y) + ">=" + fmt.Sprint(cx+1) + ")"
			case token.LEQ:
				return "(" + canon(p, x.Y) + ">=" + fmt.Sprint(cx) + ")"
			}
		}
		// a constant too large for int64 (1<<63) on the left: mirror without arithmetic
		if tv, ok := p.TypesInfo.Types[ast.Unparen(x.X)]; ok && tv.Value != nil && tv.Value.Kind() == constant.Int {
			if _, small := intConst(p, x.X); !small {
				switch x.Op {
				case token.GTR:
					return "(" + canon(p, x.Y) + "<" + tv.Value.ExactString() + ")"
				case token.LEQ:
					return "(" + canon(p, x.Y) + ">=" + tv.Value.ExactString() + ")"
				}
			}
		}
		if cy, ok := intConst(p, x.Y); ok {
			switch x.Op {
			case token.LEQ:
				return "(" + canon(p, x.X) + "<" + fmt.Sprint(cy+1) + ")"
			case token.GTR:
				return "(" + canon(p, x.X) + ">=" + fmt.Sprint(cy+1) + ")"
			}
		}
		return "(" + canon(p, x.X) + x.Op.String() + canon(p, x.Y) + ")"
	case *ast.UnaryExpr:
		return "(" + x.Op.String() + canon(p, x.X) + ")"
	case *ast.CallExpr:
		var as []string
		for _, a := range x.Args {
			as = append(as, canon(p, a))
		}
		return canon(p, x.Fun) + "(" + strings.Join(as, ",") + ")"
	case *ast.IndexExpr:
		return canon(p, x.X) + "[" + canon(p, x.Index) + "]"
	case *ast.SelectorExpr:
		return canon(p, x.X) + "." + x.Sel.Name
	}
	return fmt.Sprintf("%T", e)
}

func intConst(p *packages.Package, e ast.Expr) (int64, bool) {
	if tv, ok := p.TypesInfo.Types[ast.Unparen(e)]; ok && tv.Value != nil && tv.Value.Kind() == constant.Int {
		if v, ok := constant.Int64Val(tv.Value); ok {
			return v, true
		}
	}
	return 0, false
}

func canonStmt(p *packages.Package, s ast.Stmt) string {
	switch x := s.(type) {
	case *ast.AssignStmt:
		var l, r []string
		for _, e := range x.Lhs {
			l = append(l, canon(p, e))
		}
		for _, e := range x.Rhs {
			r = append(r, canon(p, e))
		}
		return strings.Join(l, ",") + x.Tok.String() + strings.Join(r, ",")
	case *ast.ReturnStmt:
		var r []string
		for _, e := range x.Results {
			r = append(r, canon(p, e))
		}
		return "return " + strings.Join(r, ",")
	case *ast.IfStmt:
		var b []string
		for _, st := range x.Body.List {
			b = append(b, canonStmt(p, st))
		}
		return "if " + canon(p, x.Cond) + "{" + strings.Join(b, ";") + "}"
	case *ast.DeclStmt:
		return "decl"
	}
	return fmt.Sprintf("%T", s)
}

func runVarintTemplate(rc *RuleCtx) {
	w := rc.W
	check := func(fn string, anchor string, pos token.Pos, got, want string) {
		rc.Examined++
		st := "discharged"
		detail := got
		if got != want {
			st = "violated"
			detail = fmt.Sprintf("template mismatch: found `%s`, template `%s`", got, want)
		}
		rc.add(nil, fn, anchor, pos, st, detail, true)
	}
	// ---- ConsumeVarint ----
	p, fd := w.findDecl("proto/protowire.ConsumeVarint")
	cv := w.constVals("proto/protowire", "errCodeTruncated", "errCodeOverflow")
	trunc, over := fmt.Sprint(cv["errCodeTruncated"]), fmt.Sprint(cv["errCodeOverflow"])
	var stmts []ast.Stmt
	for _, s := range fd.Body.List {
		if _, ok := s.(*ast.DeclStmt); ok {
			continue
		}
		stmts = append(stmts, s)
	}
	var want []string
	for i := 0; i < 10; i++ {
		sh := 7 * i
		want = append(want, fmt.Sprintf("if (len(b)<%d){return 0,%s}", i+1, trunc))
		if i == 0 {
			want = append(want, "v=uint64(b[0])", "if (v<128){return v,1}", "v-=128")
			continue
		}
		want = append(want, fmt.Sprintf("y=uint64(b[%d])", i), fmt.Sprintf("v+=(y<<%d)", sh))
		if i < 9 {
			want = append(want, fmt.Sprintf("if (y<128){return v,%d}", i+1), fmt.Sprintf("v-=%s", constant.Shift(constant.MakeInt64(0x80), token.SHL, uint(sh)).ExactString()))
		} else {
			want = append(want, "if (y<2){return v,10}", "return 0,"+over)
		}
	}
	if len(stmts) != len(want) {
		check("proto/protowire.ConsumeVarint", "statement-count", fd.Pos(), fmt.Sprint(len(stmts)), fmt.Sprint(len(want)))
	} else {
		for i, s := range stmts {
			check("proto/protowire.ConsumeVarint", fmt.Sprintf("stmt[%02d]", i), s.Pos(), canonStmt(p, s), want[i])
		}
	}
	// ---- AppendVarint ----
	p, fd = w.findDecl("proto/protowire.AppendVarint")
	var sw *ast.SwitchStmt
	for _, s := range fd.Body.List {
		if x, ok := s.(*ast.SwitchStmt); ok {
			sw = x
		}
	}
	if sw == nil {
		broken("VARINTTEMPLATE: AppendVarint has no switch (rewritten: update the template)")
	}
	k := 0
	for _, cc := range sw.Body.List {
		cl := cc.(*ast.CaseClause)
		k++
		n := k // bytes appended
		wantCond := ""
		if cl.List != nil {
			wantCond = fmt.Sprintf("(v<%s)", constant.Shift(constant.MakeInt64(1), token.SHL, uint(7*k)).ExactString())
			check("proto/protowire.AppendVarint", fmt.Sprintf("case[%d].cond", k), cl.Pos(), canon(p, cl.List[0]), wantCond)
		} else {
			n = 10
		}
		var elems []string
		for j := 0; j < n-1; j++ {
			elems = append(elems, fmt.Sprintf("byte((((v>>%d)&127)|128))", 7*j))
		}
		if cl.List != nil {
			if n == 1 {
				elems = append(elems, "byte(v)")
			} else {
				elems = append(elems, fmt.Sprintf("byte((v>>%d))", 7*(n-1)))
			}
		} else {
			elems = append(elems, "1")
		}
		wantStmt := "b=append(b," + strings.Join(elems, ",") + ")"
		got := ""
		if len(cl.Body) == 1 {
			got = canonStmt(p, cl.Body[0])
		}
		check("proto/protowire.AppendVarint", fmt.Sprintf("case[%d].append", k), cl.Pos(), got, wantStmt)
	}
	check("proto/protowire.AppendVarint", "case-count", sw.Pos(), fmt.Sprint(k), "10")
	// ---- zig-zag ----
	for _, z := range []struct{ fn, want string }{
		{"proto/protowire.EncodeZigZag", "return (uint64((v<<1))^uint64((v>>63)))"},
		{"proto/protowire.DecodeZigZag", "return (int64((x>>1))^((int64(x)<<63)>>63))"},
	} {
		p, fd := w.findDecl(z.fn)
		got := ""
		if len(fd.Body.List) == 1 {
			got = canonStmt(p, fd.Body.List[0])
		}
		check(z.fn, "body", fd.Pos(), got, z.want)
	}
}

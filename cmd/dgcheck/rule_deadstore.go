package main

import (
	"go/ast"
	"go/token"
	"go/types"
	"strings"
)

// DEADSTORE: an assignment to a local variable that is unconditionally overwritten by the next
// statement of the same block, with no read in between, has no effect. In option plumbing
// (`opts = *op2` immediately followed by `opts = op1`) that means one of the two sources is
// silently ignored.
func init() {
	register(&Rule{
		Name:     "DEADSTORE",
		Doc:      "no plain assignment `x = e` to a local variable is immediately followed, in the same statement list, by another plain assignment `x = e2` whose right-hand side does not read x: the first value is lost on every path (typical slip: an `if !ok { …; x = a }` fall-back whose result is overwritten by the unconditional `x = b` after the if)",
		Configs:  "NP",
		Floor:    map[string]int{"N": 5, "P": 5},
		Controls: 1,
		Run:      runDeadStore,
	})
}

func runDeadStore(rc *RuleCtx) {
	for _, p := range rc.W.Pkgs {
		rel := strings.TrimPrefix(strings.TrimPrefix(p.PkgPath, modPath), "/")
		if strings.HasPrefix(rel, "internal/native") || strings.HasPrefix(rel, "testdata") {
			continue
		}
		info := p.TypesInfo
		for _, f := range p.Syntax {
			for _, d := range f.Decls {
				fd, ok := d.(*ast.FuncDecl)
				if !ok || fd.Body == nil {
					continue
				}
				name := declName(rel, fd)
				// lastAssign: the variable assigned by the LAST statement of a list (descending into a trailing if-body without else)
				var trailingAssign func(st ast.Stmt) (types.Object, ast.Node)
				trailingAssign = func(st ast.Stmt) (types.Object, ast.Node) {
					switch x := st.(type) {
					case *ast.AssignStmt:
						if x.Tok == token.ASSIGN && len(x.Lhs) == 1 {
							if id, ok := x.Lhs[0].(*ast.Ident); ok {
								if o := info.Uses[id]; o != nil {
									if v, ok := o.(*types.Var); ok && !v.IsField() && v.Pkg() != nil && v.Parent() != v.Pkg().Scope() {
										return o, x
									}
								}
							}
						}
					case *ast.IfStmt:
						if x.Else == nil && len(x.Body.List) > 0 {
							return trailingAssign(x.Body.List[len(x.Body.List)-1])
						}
					case *ast.BlockStmt:
						if len(x.List) > 0 {
							return trailingAssign(x.List[len(x.List)-1])
						}
					}
					return nil, nil
				}
				reads := func(e ast.Expr, o types.Object) bool {
					found := false
					ast.Inspect(e, func(n ast.Node) bool {
						if id, ok := n.(*ast.Ident); ok && info.Uses[id] == o {
							found = true
						}
						return !found
					})
					return found
				}
				check := func(list []ast.Stmt) {
					for i := 0; i+1 < len(list); i++ {
						o, at := trailingAssign(list[i])
						if o == nil {
							continue
						}
						// an if-statement's own condition / init may read o: only the trailing assignment matters
						next, ok := list[i+1].(*ast.AssignStmt)
						if !ok || next.Tok != token.ASSIGN || len(next.Lhs) != 1 {
							continue
						}
						id, ok := next.Lhs[0].(*ast.Ident)
						if !ok || info.Uses[id] != o {
							continue
						}
						rc.Examined++
						dead := true
						for _, r := range next.Rhs {
							if reads(r, o) {
								dead = false
							}
						}
						if _, isIf := list[i].(*ast.IfStmt); !isIf {
							// x = a; x = b  directly: also dead, but only report when neither is a multi-value form
						}
						rc.add(nil, name, "overwritten "+o.Name(), at.Pos(), map[bool]string{true: "violated", false: "discharged"}[dead],
							map[bool]string{true: "the value assigned to `" + o.Name() + "` here is overwritten by the next statement on every path without being read: this source is silently ignored", false: "the following assignment reads the variable"}[dead], false)
					}
				}
				ast.Inspect(fd.Body, func(n ast.Node) bool {
					switch x := n.(type) {
					case *ast.BlockStmt:
						check(x.List)
					case *ast.CaseClause:
						check(x.Body)
					}
					return true
				})
			}
		}
	}
}

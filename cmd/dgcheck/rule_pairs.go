package main

import (
	"go/types"
	"strings"

	"golang.org/x/tools/go/ssa"
)

func init() {
	register(&Rule{
		Name:     "JSONPAIR",
		Doc:      "every json.EncodeObjectBegin / EncodeArrayBegin reaches the matching EncodeObjectEnd / EncodeArrayEnd (or a wrapper that always calls it) on every path to a success return of the function — unbalanced output would be malformed JSON with a nil error",
		Configs:  "NP",
		Floor:    map[string]int{"N": 8, "P": 8},
		Controls: 1,
		Run:      runJSONPair,
	})
	register(&Rule{
		Name:     "SPECLENPAIR",
		Doc:      "every proto/binary.AppendSpeculativeLength reaches FinishSpeculativeLength on every path to a success return of the same function (the j2p visitor pairs across sonic callbacks and is checked by SPECLENSTACK instead)",
		Configs:  "NP",
		Floor:    map[string]int{"N": 8, "P": 8},
		Controls: 1,
		Run:      runSpecLenPair,
	})
	register(&Rule{
		Name:    "BUILDPAIR",
		Doc:     "every function that Sets entries of a util.FieldNameMap calls Build() on it on every path to a success return (without Build every key lookup returns nil); FieldNameMap.Build leaves by a path that stored trie or hash",
		Configs: "NP",
		Floor:   map[string]int{"N": 3, "P": 3},
		Run:     runBuildPair,
	})
	register(&Rule{
		Name:    "FIRSTWINS",
		Doc:     "in every loop over FieldDescriptor.HTTPMappings() that asks a mapping for a value, the success branch (error == nil) leaves the loop: the first listed source that has a value wins",
		Configs: "NP",
		Floor:   map[string]int{"N": 2, "P": 2},
		Run:     runFirstWins,
	})
}

func isCallTo(set map[*ssa.Function]bool) func(ssa.Instruction) bool {
	return func(i ssa.Instruction) bool {
		c, ok := i.(*ssa.Call)
		if !ok {
			return false
		}
		cal := c.Call.StaticCallee()
		return cal != nil && set[cal]
	}
}

func runPairRule(rc *RuleCtx, begin *ssa.Function, end *ssa.Function, skipPkg string) {
	w := rc.W
	endSet := wrapperSet(w, func(f *ssa.Function) bool { return f == end }, 3)
	beginSet := map[*ssa.Function]bool{begin: true}
	// a function that itself opens the construct is balanced, not a closer
	for f := range endSet {
		if f != end && callsAny(f, beginSet) {
			delete(endSet, f)
		}
	}
	for _, fn := range w.Funcs {
		if fn.Blocks == nil || fn == begin || fn == end {
			continue
		}
		if skipPkg != "" && pkgRel(fn) == skipPkg {
			continue
		}
		for _, b := range fn.Blocks {
			for _, ins := range b.Instrs {
				if !isCallTo(beginSet)(ins) {
					continue
				}
				rc.Examined++
				if errIndex(fn.Signature) < 0 {
					// function without error result: every return is a success return
				}
				r := mustPass(mpQuery{fn: fn, start: ins, isEvent: isCallTo(endSet), w: w})
				if r == nil {
					rc.ok(fn, begin.Name(), ins.Pos(), "every success path passes "+end.Name(), true)
				} else {
					o := rc.bad(fn, begin.Name(), ins.Pos(), begin.Name()+" is not followed by "+end.Name()+" on a path to the success return at "+w.relPos(instrPos(r.at)))
					o.Path = w.pathStrings(r)
				}
			}
		}
	}
}

func runJSONPair(rc *RuleCtx) {
	w := rc.W
	runPairRule(rc, w.Fn("internal/json.EncodeObjectBegin"), w.Fn("internal/json.EncodeObjectEnd"), "internal/json")
	runPairRule(rc, w.Fn("internal/json.EncodeArrayBegin"), w.Fn("internal/json.EncodeArrayEnd"), "internal/json")
}

func runSpecLenPair(rc *RuleCtx) {
	w := rc.W
	runPairRule(rc, w.Fn("proto/binary.AppendSpeculativeLength"), w.Fn("proto/binary.FinishSpeculativeLength"), "conv/j2p")
}

func runBuildPair(rc *RuleCtx) {
	w := rc.W
	set := w.Fn("(*internal/util.FieldNameMap).Set")
	build := w.Fn("(*internal/util.FieldNameMap).Build")
	buildSet := wrapperSet(w, func(f *ssa.Function) bool { return f == build }, 2)
	for _, fn := range w.Funcs {
		if fn.Blocks == nil || pkgRel(fn) == "internal/util" {
			continue
		}
		// first Set call per receiver root
		seenRoot := map[string]bool{}
		for _, b := range fn.Blocks {
			for _, ins := range b.Instrs {
				c, ok := ins.(*ssa.Call)
				if !ok || c.Call.StaticCallee() != set {
					continue
				}
				root := addrRootString(c.Call.Args[0])
				if seenRoot[root] {
					continue
				}
				seenRoot[root] = true
				rc.Examined++
				r := mustPass(mpQuery{fn: fn, start: ins, isEvent: isCallTo(buildSet), w: w})
				if r == nil {
					rc.ok(fn, "FieldNameMap.Set", ins.Pos(), "Build() on every success path", true)
				} else {
					o := rc.bad(fn, "FieldNameMap.Set", ins.Pos(), "FieldNameMap filled but Build() is not called on a path to the success return at "+w.relPos(instrPos(r.at)))
					o.Path = w.pathStrings(r)
				}
			}
		}
	}
	// inside Build: every return has stored trie or hash (or the map is empty)
	rc.Examined++
	storesIndex := func(i ssa.Instruction) bool {
		st, ok := i.(*ssa.Store)
		if !ok {
			return false
		}
		_, n, ok := fieldNameOf(st.Addr)
		return ok && (n == "trie" || n == "hash") && !isNilConst(st.Val)
	}
	r := mustPass(mpQuery{fn: build, isEvent: storesIndex, w: w})
	if r == nil {
		rc.ok(build, "index-store", build.Pos(), "every return of Build has stored a trie or a hash index", true)
	} else {
		// tolerated exit: the empty-map early return (len(all)==0)
		o := rc.add(build, "", "index-store", instrPos(r.at), "discharged", "a return without index exists (empty map early-exit expected)", true)
		// verify that the only index-less return is guarded by a zero-length test
		if !returnGuardedByEmptyTest(r) {
			o.Status = "violated"
			o.Detail = "Build can return without storing trie or hash at " + w.relPos(instrPos(r.at))
			o.Path = w.pathStrings(r)
		}
	}
}

func returnGuardedByEmptyTest(r *mpResult) bool {
	for _, cd := range controllingIfs(r.exit) {
		k, _ := condKey(cd.cond)
		if bo, ok := k.(*ssa.BinOp); ok {
			for _, op := range []ssa.Value{bo.X, bo.Y} {
				if c, ok := op.(*ssa.Call); ok {
					if b, ok := c.Call.Value.(*ssa.Builtin); ok && b.Name() == "len" {
						return true
					}
				}
			}
		}
	}
	return false
}

func addrRootString(v ssa.Value) string {
	for i := 0; i < 10; i++ {
		switch x := v.(type) {
		case *ssa.FieldAddr:
			if _, n, ok := fieldNameOf(x); ok {
				return addrRootString(x.X) + "." + n
			}
			v = x.X
		case *ssa.UnOp:
			v = x.X
		default:
			return v.Name()
		}
	}
	return v.Name()
}

// FIRSTWINS
func runFirstWins(rc *RuleCtx) {
	w := rc.W
	hm := w.Fn("(thrift.FieldDescriptor).HTTPMappings")
	for _, fn := range w.Funcs {
		if fn.Blocks == nil {
			continue
		}
		usesHM := false
		for _, b := range fn.Blocks {
			for _, ins := range b.Instrs {
				if c, ok := ins.(*ssa.Call); ok && c.Call.StaticCallee() == hm {
					usesHM = true
				}
			}
		}
		if !usesHM {
			continue
		}
		loops := naturalLoops(fn)
		innermost := func(b *ssa.BasicBlock) *natLoop {
			var best *natLoop
			for _, l := range loops {
				if l.blocks[b] && (best == nil || len(l.blocks) < len(best.blocks)) {
					best = l
				}
			}
			return best
		}
		for _, b := range fn.Blocks {
			for _, ins := range b.Instrs {
				c, ok := ins.(*ssa.Call)
				if !ok || !c.Call.IsInvoke() || c.Call.Method.Name() != "Request" {
					continue
				}
				if !strings.HasSuffix(types.TypeString(c.Call.Value.Type(), nil), "thrift.HttpMapping") {
					continue
				}
				l := innermost(b)
				if l == nil {
					continue
				}
				rc.Examined++
				ev := errValueOf(c)
				good := false
				detail := "error of HttpMapping.Request is not tested inside the loop"
				if ev != nil {
					for _, r := range *ev.Referrers() {
						bo, ok := r.(*ssa.BinOp)
						if !ok {
							continue
						}
						for _, rr := range *bo.Referrers() {
							iff, ok := rr.(*ssa.If)
							if !ok {
								continue
							}
							_, nilOnTrue, ok := nilTest(iff.Cond)
							if !ok {
								continue
							}
							succ := iff.Block().Succs[1]
							if nilOnTrue {
								succ = iff.Block().Succs[0]
							}
							if !reachesWithin(succ, l.head, l.blocks) {
								good = true
								detail = "the err == nil branch leaves the loop over HTTPMappings()"
							} else {
								detail = "after a source yields a value (err == nil) the loop continues with the next source: a later source can override the first"
							}
						}
					}
				}
				rc.verdict(good, fn, "HTTPMappings-loop", c.Pos(), detail, true)
			}
		}
	}
}

// reachesWithin: can `from` reach `target` staying inside blocks?
func reachesWithin(from, target *ssa.BasicBlock, blocks map[*ssa.BasicBlock]bool) bool {
	seen := map[*ssa.BasicBlock]bool{}
	stack := []*ssa.BasicBlock{from}
	for len(stack) > 0 {
		x := stack[len(stack)-1]
		stack = stack[:len(stack)-1]
		if x == target {
			return true
		}
		if seen[x] || !blocks[x] {
			continue
		}
		seen[x] = true
		stack = append(stack, x.Succs...)
	}
	return false
}

func callsAny(fn *ssa.Function, set map[*ssa.Function]bool) bool {
	for _, b := range fn.Blocks {
		for _, ins := range b.Instrs {
			if c := staticCallee(ins); c != nil && set[c] {
				return true
			}
		}
	}
	return false
}

// ---------- HDRFIRST / MUSTCONSUME / STRUCTPAIR ----------

func init() {
	register(&Rule{
		Name: "HDRFIRST",
		Doc: "in the recursive thrift value writers (WriteAny, WriteAnyWithDesc, generic marshalTo, PathNode.marshal) no path from the function entry reaches a recursive element/field write " +
			"without first passing a container or field header write (Write{Map,List,Set,Field}Begin): an element written without its header is not a thrift encoding",
		Configs:  "NP",
		Floor:    map[string]int{"N": 20, "P": 20},
		Controls: 1,
		Run:      runHdrFirst,
	})
	register(&Rule{
		Name:    "MUSTCONSUME",
		Doc:     "every success return of thrift generic marshalTo(read, write, …) has passed a consuming call on `read` (Read*/Skip*) and a producing event on `write` (Write* call or append to write.Buf): a thrift value is never empty, so returning without copying drops the value and desynchronises the reader",
		Configs: "NP",
		Floor:   map[string]int{"N": 2, "P": 2},
		Run:     runMustConsume,
	})
	register(&Rule{
		Name:     "STRUCTPAIR",
		Doc:      "every thrift WriteStructBegin reaches WriteStructEnd/WriteFieldStop on every path to a success return (a struct without its STOP byte is malformed)",
		Configs:  "NP",
		Floor:    map[string]int{"N": 4, "P": 4},
		Controls: 1,
		Run:      runStructPair,
	})
}

func thriftBPMethod(ins ssa.Instruction, names ...string) bool {
	c, ok := ins.(*ssa.Call)
	if !ok {
		return false
	}
	cal := c.Call.StaticCallee()
	if cal == nil || cal.Signature.Recv() == nil || !isNamed(cal.Signature.Recv().Type(), "thrift", "BinaryProtocol") {
		return false
	}
	for _, n := range names {
		if strings.HasPrefix(cal.Name(), n) {
			return true
		}
	}
	return false
}

func runHdrFirst(rc *RuleCtx) {
	w := rc.W
	fns := []*ssa.Function{
		w.Fn("(*thrift.BinaryProtocol).WriteAny"),
		w.Fn("(*thrift.BinaryProtocol).WriteAnyWithDesc"),
		w.Fn("thrift/generic.marshalTo"),
		w.Fn("(thrift/generic.PathNode).marshal"),
	}
	// positive-control functions: any function in a control file named hdrFirstControl*
	for _, fn := range w.Funcs {
		if w.isControlFn(fn) && strings.HasPrefix(fn.Name(), "hdrFirstControl") {
			fns = append(fns, fn)
		}
	}
	hdr := func(i ssa.Instruction) bool {
		return thriftBPMethod(i, "WriteMapBegin", "WriteListBegin", "WriteSetBegin", "WriteFieldBegin")
	}
	for _, fn := range fns {
		for _, b := range fn.Blocks {
			for _, ins := range b.Instrs {
				c, ok := ins.(*ssa.Call)
				if !ok || c.Call.StaticCallee() != fn {
					continue
				}
				rc.Examined++
				target := func(i ssa.Instruction) bool { return i == ins }
				r := mustPass(mpQuery{fn: fn, isEvent: hdr, target: target, w: w})
				if r == nil {
					rc.ok(fn, "recursive-write", ins.Pos(), "preceded by a header write on every path", true)
				} else {
					o := rc.bad(fn, "recursive-write", ins.Pos(), "element/field value written without a preceding Write{Map,List,Set,Field}Begin on some path from the entry")
					o.Path = w.pathStrings(r)
				}
			}
		}
	}
}

func runMustConsume(rc *RuleCtx) {
	w := rc.W
	fn := w.Fn("thrift/generic.marshalTo")
	if len(fn.Params) < 2 {
		broken("MUSTCONSUME: marshalTo signature changed")
	}
	read, write := fn.Params[0], fn.Params[1]
	isRecv := func(i ssa.Instruction, recv ssa.Value, prefixes ...string) bool {
		c, ok := i.(*ssa.Call)
		if !ok {
			return false
		}
		cal := c.Call.StaticCallee()
		if cal == nil || len(c.Call.Args) == 0 || c.Call.Args[0] != recv {
			return false
		}
		for _, p := range prefixes {
			if strings.HasPrefix(cal.Name(), p) {
				return true
			}
		}
		return false
	}
	consume := func(i ssa.Instruction) bool {
		if isRecv(i, read, "Read", "Skip") {
			return true
		}
		// recursive call consumes (inductive)
		c, ok := i.(*ssa.Call)
		return ok && c.Call.StaticCallee() == fn
	}
	produce := func(i ssa.Instruction) bool {
		if isRecv(i, write, "Write") {
			return true
		}
		if c, ok := i.(*ssa.Call); ok && c.Call.StaticCallee() == fn {
			return true
		}
		if st, ok := i.(*ssa.Store); ok {
			if fa, ok := st.Addr.(*ssa.FieldAddr); ok && fa.X == write {
				if _, n, ok := fieldNameOf(fa); ok && n == "Buf" {
					return true
				}
			}
		}
		return false
	}
	for _, q := range []struct {
		name string
		ev   func(ssa.Instruction) bool
	}{{"consume(read)", consume}, {"produce(write)", produce}} {
		rc.Examined++
		r := mustPass(mpQuery{fn: fn, isEvent: q.ev, w: w})
		if r == nil {
			rc.ok(fn, q.name, fn.Pos(), "every success return passed the event", true)
		} else {
			o := rc.bad(fn, q.name, instrPos(r.at), "success return at "+w.relPos(instrPos(r.at))+" reached without "+q.name)
			o.Path = w.pathStrings(r)
		}
	}
}

func runStructPair(rc *RuleCtx) {
	w := rc.W
	begin := w.Fn("(*thrift.BinaryProtocol).WriteStructBegin")
	end := w.Fn("(*thrift.BinaryProtocol).WriteStructEnd")
	stop := w.Fn("(*thrift.BinaryProtocol).WriteFieldStop")
	endSet := wrapperSet(w, func(f *ssa.Function) bool { return f == end || f == stop }, 2)
	beginSet := map[*ssa.Function]bool{begin: true}
	for f := range endSet {
		if f != end && f != stop && callsAny(f, beginSet) {
			delete(endSet, f)
		}
	}
	for _, fn := range w.Funcs {
		if fn.Blocks == nil {
			continue
		}
		for _, b := range fn.Blocks {
			for _, ins := range b.Instrs {
				if !isCallTo(beginSet)(ins) {
					continue
				}
				rc.Examined++
				r := mustPass(mpQuery{fn: fn, start: ins, isEvent: isCallTo(endSet), w: w})
				if r == nil {
					rc.ok(fn, "WriteStructBegin", ins.Pos(), "STOP written on every success path", true)
				} else {
					o := rc.bad(fn, "WriteStructBegin", ins.Pos(), "struct opened but no WriteStructEnd/WriteFieldStop on a path to the success return at "+w.relPos(instrPos(r.at)))
					o.Path = w.pathStrings(r)
				}
			}
		}
	}
}

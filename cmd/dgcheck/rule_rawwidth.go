package main

import (
	"fmt"
	"go/token"
	"go/types"

	"golang.org/x/tools/go/ssa"
)

// RAWWIDTH: a generic Node is (type, pointer, length) over the caller's bytes; NewNode accepts any
// bytes. The scalar casts decode with thrift.BinaryEncoding{}.Decode*, which index / fabricate
// string headers WITHOUT bounds checks (DecodeString builds a string of the announced size). The
// only thing that ties the decode to the caller's buffer is the node's own length field, so every
// such decode has to be guarded by a comparison of `l`.
func init() {
	register(&Rule{
		Name:     "RAWWIDTH",
		Doc:      "in thrift/generic, every BinaryEncoding{}.Decode<K> call on bytes fabricated from the node's own pointer (rt.BytesFrom over field `v`, forward offsets only) is control-dependent on the node's length field: a dominating `self.l < k` (false edge) with k >= the constant offset of the decode inside the node plus the decoded width (1/2/4/8; 4 for a size prefix), or — for DecodeString/DecodeBytes, whose result length comes from the data — a validator call that reads `l` and the decoded size prefix; otherwise a node over short or hostile bytes is read past the caller's buffer",
		Configs:  "NP",
		Floor:    map[string]int{"N": 10, "P": 10},
		Controls: 1,
		Run:      runRawWidth,
	})
}

var decodeWidth = map[string]int64{"DecodeBool": 1, "DecodeByte": 1, "DecodeInt16": 2, "DecodeInt32": 4, "DecodeInt64": 8, "DecodeDouble": 8, "DecodeString": 4, "DecodeBytes": 4}

// fromOwnPointer: v is rt.BytesFrom(p, …) with p derived from a load of a field named v by forward steps;
// also returns the constant byte offset added on the way (0 if none / unknown).
func fromOwnPointer(v ssa.Value) (bool, int64) {
	c, ok := v.(*ssa.Call)
	if !ok {
		return false, 0
	}
	cal := c.Call.StaticCallee()
	if cal == nil || cal.Name() != "BytesFrom" || len(c.Call.Args) == 0 {
		return false, 0
	}
	var off int64
	var walk func(p ssa.Value, d int) bool
	walk = func(p ssa.Value, d int) bool {
		if d > 6 {
			return false
		}
		switch x := p.(type) {
		case *ssa.Convert:
			return walk(x.X, d+1)
		case *ssa.ChangeType:
			return walk(x.X, d+1)
		case *ssa.BinOp:
			if x.Op == token.ADD {
				if k, isC := constInt(convRoot(x.Y)); isC {
					off += k
				}
				return walk(x.X, d+1)
			}
		case *ssa.Call:
			if cc := x.Call.StaticCallee(); cc != nil && (cc.Name() == "AddPtr" || cc.Name() == "IndexPtr") && len(x.Call.Args) > 0 {
				if cc.Name() == "AddPtr" && len(x.Call.Args) > 1 {
					if k, isC := constInt(convRoot(x.Call.Args[1])); isC {
						off += k
					}
				}
				return walk(x.Call.Args[0], d+1)
			}
		default:
			if f, ok := loadedField(p); ok && f.name == "v" {
				return true
			}
		}
		return false
	}
	return walk(c.Call.Args[0], 0), off
}

// readsLenAndSize: a bool validator that loads a field `l` and decodes a size prefix.
func readsLenAndSize(fn *ssa.Function) bool {
	if fn == nil || fn.Blocks == nil {
		return false
	}
	l, sz := false, false
	for _, b := range fn.Blocks {
		for _, ins := range b.Instrs {
			if v, ok := ins.(ssa.Value); ok {
				if f, ok := loadedField(v); ok && f.name == "l" {
					l = true
				}
			}
			if c, ok := ins.(*ssa.Call); ok {
				if cal := c.Call.StaticCallee(); cal != nil && cal.Name() == "DecodeInt32" {
					sz = true
				}
			}
		}
	}
	if bt, ok := fn.Signature.Results().At(0).Type().Underlying().(*types.Basic); !ok || bt.Kind() != types.Bool {
		return false
	}
	return l && sz
}

func runRawWidth(rc *RuleCtx) {
	for _, fn := range rc.W.Funcs {
		if pkgRel(fn) != "thrift/generic" || fn.Blocks == nil {
			continue
		}
		for _, b := range fn.Blocks {
			for _, ins := range b.Instrs {
				c, ok := ins.(*ssa.Call)
				if !ok {
					continue
				}
				cal := c.Call.StaticCallee()
				if cal == nil || cal.Signature.Recv() == nil || typeShort(cal.Signature.Recv().Type()) != "thrift.BinaryEncoding" {
					continue
				}
				w, ok := decodeWidth[cal.Name()]
				if !ok || len(c.Call.Args) < 2 {
					continue
				}
				own, off := fromOwnPointer(c.Call.Args[1])
				if !own {
					continue
				}
				w += off // the decode starts `off` bytes into the node
				rc.Examined++
				needValidator := cal.Name() == "DecodeString" || cal.Name() == "DecodeBytes"
				good := false
				why := ""
				for _, cd := range controllingIfs(b) {
					k, neg := condKey(cd.cond)
					truth := cd.val != neg
					switch x := k.(type) {
					case *ssa.BinOp:
						if needValidator {
							continue
						}
						var kc int64
						var isC bool
						op := x.Op
						lf, okl := loadedField(convRoot(x.X))
						if okl && lf.name == "l" {
							kc, isC = constInt(x.Y)
						} else if lf, okl = loadedField(convRoot(x.Y)); okl && lf.name == "l" {
							kc, isC = constInt(x.X)
							op = map[token.Token]token.Token{token.LSS: token.GTR, token.LEQ: token.GEQ, token.GTR: token.LSS, token.GEQ: token.LEQ}[op]
						}
						if !isC {
							continue
						}
						// l >= kmin on this edge?
						var lb int64 = -1
						switch {
						case op == token.LSS && !truth:
							lb = kc
						case op == token.LEQ && !truth:
							lb = kc + 1
						case op == token.GEQ && truth:
							lb = kc
						case op == token.GTR && truth:
							lb = kc + 1
						}
						if lb >= w {
							good, why = true, fmt.Sprintf("guarded by l >= %d", lb)
						}
					case *ssa.Call:
						if truth && readsLenAndSize(x.Call.StaticCallee()) {
							good, why = true, "guarded by "+x.Call.StaticCallee().Name()+"()"
						}
					}
				}
				rc.verdict(good, fn, cal.Name(), c.Pos(), map[bool]string{
					true:  "the decode is " + why,
					false: fmt.Sprintf("%s reads %d+ bytes (and, for strings, as many as the data announces) from the node's pointer without any test of the node's length: a node over short / hostile bytes is read past the caller's buffer or panics", cal.Name(), w)}[good], true)
			}
		}
	}
}

package main

import (
	"go/token"
	"go/types"
	"strings"

	"golang.org/x/tools/go/ssa"
)

func init() {
	register(&Rule{
		Name: "LOOPPROGRESS",
		Doc: "every loop whose continuation depends on the read cursor (header condition derived from BinaryProtocol.Read / Left() / HasNext(), or a `for {}` that reads field headers) touches the cursor on EVERY cycle: no path from the loop header back to the header avoids all cursor events " +
			"(a call to a function that may advance the cursor — summary `mayAdvance`: stores to .Read or calls such a function — or a direct store to .Read). Together with DROPERR/ERRSWALLOW (every failing cursor call leaves the loop) this is the structural part of `never loops without consuming input`",
		Configs:  "NP",
		Floor:    map[string]int{"N": 40, "P": 40},
		Controls: 1,
		Run:      runLoopProgress,
	})
}

func isCursorStruct(t types.Type) bool {
	t = derefType(t)
	if isNamed(t, "thrift", "BinaryProtocol") || isNamed(t, "proto/binary", "BinaryProtocol") {
		return true
	}
	return false
}

func storesRead(ins ssa.Instruction) bool {
	st, ok := ins.(*ssa.Store)
	if !ok {
		return false
	}
	t, n, ok := fieldNameOf(st.Addr)
	return ok && n == "Read" && isCursorStruct(t)
}

// mayAdvance: least fixpoint — the function stores to a cursor's Read field or calls a function that may.
func mayAdvanceSummary(w *World) map[*ssa.Function]bool {
	adv := map[*ssa.Function]bool{}
	changed := true
	for changed {
		changed = false
		for _, fn := range w.Funcs {
			if adv[fn] || fn.Blocks == nil {
				continue
			}
			for _, b := range fn.Blocks {
				for _, ins := range b.Instrs {
					if storesRead(ins) {
						adv[fn] = true
					}
					if cal := staticCallee(ins); cal != nil && adv[cal] {
						adv[fn] = true
					}
				}
			}
			if adv[fn] {
				changed = true
			}
		}
	}
	return adv
}

func dependsOnCursor(v ssa.Value, adv map[*ssa.Function]bool, d int) bool {
	if d > 6 || v == nil {
		return false
	}
	switch x := v.(type) {
	case *ssa.BinOp:
		return dependsOnCursor(x.X, adv, d+1) || dependsOnCursor(x.Y, adv, d+1)
	case *ssa.UnOp:
		if t, n, ok := fieldNameOf(x.X); ok && x.Op == token.MUL && n == "Read" && isCursorStruct(t) {
			return true
		}
		return dependsOnCursor(x.X, adv, d+1)
	case *ssa.Phi:
		for _, e := range x.Edges {
			if dependsOnCursor(e, adv, d+1) {
				return true
			}
		}
	case *ssa.Call:
		if cal := x.Call.StaticCallee(); cal != nil && (cal.Name() == "HasNext" || cal.Name() == "Left") {
			return true
		}
	case *ssa.Convert:
		return dependsOnCursor(x.X, adv, d+1)
	}
	return false
}

func runLoopProgress(rc *RuleCtx) {
	w := rc.W
	adv := mayAdvanceSummary(w)
	rc.Stats["mayAdvance_functions"] = len(adv)
	isEvent := func(ins ssa.Instruction) bool {
		if storesRead(ins) {
			return true
		}
		if c, ok := ins.(*ssa.Call); ok {
			if cal := c.Call.StaticCallee(); cal != nil && adv[cal] {
				return true
			}
		}
		return false
	}
	for _, fn := range w.Funcs {
		if fn.Blocks == nil {
			continue
		}
		pr := pkgRel(fn)
		if !(strings.HasPrefix(pr, "thrift") || strings.HasPrefix(pr, "proto") || strings.HasPrefix(pr, "conv")) {
			continue
		}
		for _, l := range naturalLoops(fn) {
			kind := ""
			if iff, ok := lastInstr(l.head).(*ssa.If); ok {
				if dependsOnCursor(iff.Cond, adv, 0) {
					kind = "cursor-condition"
				}
			} else {
				// for {} : cursor loop when it reads field headers / calls advancing functions
				for b := range l.blocks {
					for _, ins := range b.Instrs {
						if isEvent(ins) {
							kind = "for{}"
						}
					}
				}
			}
			if kind == "" {
				continue
			}
			rc.Examined++
			// search a cycle head -> ... -> latch -> head avoiding event blocks
			latch := map[*ssa.BasicBlock]bool{}
			for _, lb := range l.latch {
				latch[lb] = true
			}
			blockHasEvent := func(b *ssa.BasicBlock) bool {
				for _, ins := range b.Instrs {
					if isEvent(ins) {
						return true
					}
				}
				return false
			}
			seen := map[*ssa.BasicBlock]bool{}
			var path []*ssa.BasicBlock
			var dfs func(b *ssa.BasicBlock) bool
			dfs = func(b *ssa.BasicBlock) bool {
				if !l.blocks[b] || seen[b] || blockHasEvent(b) {
					return false
				}
				seen[b] = true
				path = append(path, b)
				if latch[b] {
					return true
				}
				for _, s := range b.Succs {
					if s == l.head {
						return true
					}
					if dfs(s) {
						return true
					}
				}
				path = path[:len(path)-1]
				return false
			}
			bad := false
			if !blockHasEvent(l.head) {
				seen[l.head] = true
				path = []*ssa.BasicBlock{l.head}
				for _, s := range l.head.Succs {
					if dfs(s) {
						bad = true
						break
					}
				}
			}
			pos := blockPos(l.head)
			if bad {
				o := rc.bad(fn, "cursor-loop("+kind+")", pos, "a cycle of this loop returns to its header without any call that can advance the read cursor: on that path the loop makes no progress")
				for _, pb := range path {
					o.Path = append(o.Path, "block "+w.relPos(blockPos(pb)))
				}
			} else {
				rc.ok(fn, "cursor-loop("+kind+")", pos, "every cycle passes a cursor event", true)
			}
		}
	}
}

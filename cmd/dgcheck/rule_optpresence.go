package main

import (
	"go/ast"
	"go/token"
	"go/types"
	"strings"
)

func runOptPresence(rc *RuleCtx) {
	for _, p := range rc.W.Pkgs {
		rel := strings.TrimPrefix(strings.TrimPrefix(p.PkgPath, modPath), "/")
		info := p.TypesInfo
		for _, f := range p.Syntax {
			for _, d := range f.Decls {
				fd, ok := d.(*ast.FuncDecl)
				if !ok || fd.Body == nil {
					continue
				}
				name := declName(rel, fd)
				// every maximal boolean expression: conditions of if/for, operands of assignments/returns
				var visitCond func(e ast.Expr)
				visitCond = func(root ast.Expr) {
					var conj []ast.Expr
					var flat func(e ast.Expr)
					flat = func(e ast.Expr) {
						if be, ok := ast.Unparen(e).(*ast.BinaryExpr); ok && be.Op == token.LAND {
							flat(be.X)
							flat(be.Y)
							return
						}
						conj = append(conj, ast.Unparen(e))
					}
					flat(root)
					for _, c := range conj {
						ue, ok := c.(*ast.UnaryExpr)
						if !ok || ue.Op != token.NOT {
							continue
						}
						ce, ok := ast.Unparen(ue.X).(*ast.CallExpr)
						if !ok || len(ce.Args) != 0 {
							continue
						}
						sel, ok := ce.Fun.(*ast.SelectorExpr)
						if !ok || !strings.HasPrefix(sel.Sel.Name, "Get") {
							continue
						}
						fieldName := strings.TrimPrefix(sel.Sel.Name, "Get")
						rt := info.TypeOf(sel.X)
						if rt == nil {
							continue
						}
						st, ok := derefType(rt).Underlying().(*types.Struct)
						if !ok {
							continue
						}
						isOpt := false
						for i := 0; i < st.NumFields(); i++ {
							if st.Field(i).Name() == fieldName {
								if pt, ok := st.Field(i).Type().(*types.Pointer); ok {
									if bt, ok := pt.Elem().Underlying().(*types.Basic); ok && bt.Kind() == types.Bool {
										isOpt = true
									}
								}
							}
						}
						if !isOpt {
							continue
						}
						rc.Examined++
						want := types.ExprString(sel.X) + "." + fieldName
						good := false
						for _, o := range conj {
							if be, ok := o.(*ast.BinaryExpr); ok && be.Op == token.NEQ {
								if (types.ExprString(be.X) == want && types.ExprString(be.Y) == "nil") || (types.ExprString(be.Y) == want && types.ExprString(be.X) == "nil") {
									good = true
								}
							}
						}
						rc.add(nil, name, "!"+types.ExprString(ce), ue.Pos(), map[bool]string{true: "discharged", false: "violated"}[good],
							map[bool]string{true: "the negated getter is conjoined with the presence test of the optional field",
								false: "`!" + types.ExprString(ce) + "` without `" + want + " != nil`: the getter is false for an absent option as well, so every message that leaves the option unset is treated as if it had set it to false"}[good], true)
					}
				}
				ast.Inspect(fd.Body, func(n ast.Node) bool {
					switch x := n.(type) {
					case *ast.IfStmt:
						visitCond(x.Cond)
					case *ast.ForStmt:
						if x.Cond != nil {
							visitCond(x.Cond)
						}
					case *ast.AssignStmt:
						for _, r := range x.Rhs {
							visitCond(r)
						}
					case *ast.ReturnStmt:
						for _, r := range x.Results {
							visitCond(r)
						}
					}
					return true
				})
			}
		}
	}
}

package main

import (
	"fmt"
	"go/token"
	"sort"
	"strings"

	"golang.org/x/tools/go/ssa"
)

func init() {
	register(&Rule{
		Name: "RECDEPTH",
		Doc: "every recursion cycle (SCC of the static call graph of the repository, closures included) that consumes input through a cursor (thrift/proto BinaryProtocol Read*/Skip*/Consume*/next, json.DecodeValue/SkipValue) carries a depth budget: " +
			"an integer parameter compared against a bound and passed strictly decreased/increased on every call that stays inside the cycle — otherwise input nesting drives the Go stack without limit",
		Configs:  "NP",
		Floor:    map[string]int{"N": 8, "P": 8},
		Controls: 1,
		Run:      runRecDepth,
	})
}

func consumesCursor(fn *ssa.Function) bool {
	for _, b := range fn.Blocks {
		for _, ins := range b.Instrs {
			c, ok := ins.(*ssa.Call)
			if !ok {
				continue
			}
			cal := c.Call.StaticCallee()
			if cal == nil {
				continue
			}
			n := cal.Name()
			if cal.Signature.Recv() != nil && (isNamed(cal.Signature.Recv().Type(), "thrift", "BinaryProtocol") || isNamed(cal.Signature.Recv().Type(), "proto/binary", "BinaryProtocol")) {
				if strings.HasPrefix(n, "Read") || strings.HasPrefix(n, "Skip") || strings.HasPrefix(n, "Consume") || n == "next" {
					return true
				}
			}
			if pkgRel(cal) == "internal/json" && (n == "DecodeValue" || n == "SkipValue" || n == "Peek") {
				return true
			}
		}
	}
	return false
}

func repoSCCs(w *World) [][]*ssa.Function {
	inset := map[*ssa.Function]bool{}
	for _, f := range w.Funcs {
		inset[f] = true
	}
	succ := func(f *ssa.Function) []*ssa.Function {
		var r []*ssa.Function
		seen := map[*ssa.Function]bool{}
		add := func(g *ssa.Function) {
			if g != nil && inset[g] && !seen[g] {
				seen[g] = true
				r = append(r, g)
			}
		}
		for _, b := range f.Blocks {
			for _, ins := range b.Instrs {
				if c, ok := ins.(ssa.CallInstruction); ok {
					add(c.Common().StaticCallee())
					for _, a := range c.Common().Args {
						if mc, ok := a.(*ssa.MakeClosure); ok {
							if fn, ok := mc.Fn.(*ssa.Function); ok {
								add(fn)
							}
						}
					}
				}
				if mc, ok := ins.(*ssa.MakeClosure); ok {
					if fn, ok := mc.Fn.(*ssa.Function); ok {
						add(fn)
					}
				}
			}
		}
		return r
	}
	index := 0
	idx := map[*ssa.Function]int{}
	low := map[*ssa.Function]int{}
	on := map[*ssa.Function]bool{}
	var stack []*ssa.Function
	var comps [][]*ssa.Function
	var strong func(f *ssa.Function)
	strong = func(f *ssa.Function) {
		idx[f], low[f] = index, index
		index++
		stack = append(stack, f)
		on[f] = true
		for _, g := range succ(f) {
			if _, ok := idx[g]; !ok {
				strong(g)
				if low[g] < low[f] {
					low[f] = low[g]
				}
			} else if on[g] && idx[g] < low[f] {
				low[f] = idx[g]
			}
		}
		if low[f] == idx[f] {
			var comp []*ssa.Function
			for {
				g := stack[len(stack)-1]
				stack = stack[:len(stack)-1]
				on[g] = false
				comp = append(comp, g)
				if g == f {
					break
				}
			}
			self := false
			for _, g := range succ(f) {
				if g == f {
					self = true
				}
			}
			if len(comp) > 1 || self {
				sort.Slice(comp, func(i, j int) bool { return shortName(comp[i]) < shortName(comp[j]) })
				comps = append(comps, comp)
			}
		}
	}
	for _, f := range w.Funcs {
		if _, ok := idx[f]; !ok {
			strong(f)
		}
	}
	sort.Slice(comps, func(i, j int) bool { return shortName(comps[i][0]) < shortName(comps[j][0]) })
	return comps
}

func runRecDepth(rc *RuleCtx) {
	w := rc.W
	comps := repoSCCs(w)
	rc.Stats["recursive_sccs"] = len(comps)
	for _, c := range comps {
		in := map[*ssa.Function]bool{}
		cons := false
		for _, f := range c {
			in[f] = true
			if consumesCursor(f) {
				cons = true
			}
		}
		if !cons {
			continue
		}
		rc.Examined++
		guarded, why := false, ""
		for _, f := range c {
			for pi, p := range f.Params {
				if !isIntType(p.Type()) {
					continue
				}
				compared := false
				for _, r := range *p.Referrers() {
					if bo, ok := r.(*ssa.BinOp); ok {
						switch bo.Op {
						case token.LEQ, token.LSS, token.GEQ, token.GTR, token.EQL:
							for _, rr := range *bo.Referrers() {
								if _, ok := rr.(*ssa.If); ok {
									compared = true
								}
							}
						}
					}
				}
				if !compared {
					continue
				}
				okAll, n := true, 0
				for _, g := range c {
					for _, b := range g.Blocks {
						for _, ins := range b.Instrs {
							ci, ok := ins.(ssa.CallInstruction)
							if !ok || ci.Common().StaticCallee() != f {
								continue
							}
							n++
							if pi >= len(ci.Common().Args) {
								okAll = false
								continue
							}
							a := ci.Common().Args[pi]
							bo, ok := a.(*ssa.BinOp)
							if !ok || (bo.Op != token.SUB && bo.Op != token.ADD) {
								okAll = false
								continue
							}
							if _, isConst := bo.Y.(*ssa.Const); !isConst {
								okAll = false
							}
						}
					}
				}
				if okAll && n > 0 {
					guarded = true
					why = fmt.Sprintf("%s carries budget parameter %s", f.Name(), p.Name())
				}
			}
		}
		var names []string
		for _, f := range c {
			names = append(names, shortName(f))
		}
		head := c[0]
		anchor := "recursion-cycle"
		if guarded {
			rc.ok(head, anchor, head.Pos(), why, true)
		} else {
			rc.bad(head, anchor, head.Pos(), "input-driven recursion without a depth budget: nesting depth of the input bounds the Go stack (cycle: "+strings.Join(names, " <-> ")+")")
		}
	}
}

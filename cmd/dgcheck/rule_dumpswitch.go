package main

import (
	"fmt"
	"sort"
	"strings"
)

func dumpSwitches(w *World) {
	for _, ks := range w.kindSwitches(3) {
		var ls []string
		for l := range ks.labelSet() {
			ls = append(ls, l)
		}
		sort.Strings(ls)
		fmt.Printf("%s #%d on %s (%s) default=%v %d labels: %s\n", ks.fnName, ks.ordinal, ks.tagType, w.relPos(ks.sw.Pos()), ks.hasDflt, len(ls), strings.Join(ls, ","))
	}
}

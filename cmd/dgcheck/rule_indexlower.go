package main

import (
	"go/token"
	"go/types"
	"strings"

	"golang.org/x/tools/go/ssa"
)

// INDEXLOWER: a contradiction rule. A function that protects a slice access `s[i]` against
// `i >= len(s)` believes the index can be out of range; if the index is a SIGNED parameter and
// nothing excludes negative values it can be out of range on the other side as well, and the
// access panics (lookup of field number -1, a negative field id in an IDL) instead of reporting
// "not found".
func init() {
	register(&Rule{
		Name:     "INDEXLOWER",
		Doc:      "every slice/array access whose index is (a conversion of) a signed integer parameter and whose function tests that parameter against len(…) (a dominating bound check, or the grow-then-index idiom) is also dominated by a test that excludes negative values (`i < 0`, `i >= 0`, `i > c`, c >= -1) — or the parameter is unsigned; (b) a signed index — a parameter, or the integer of a caller-supplied path step (Path.int()) — that is compared with an element count decoded from a container header (COUNTCMP's notion) or with a running element counter (`cnt < idx`) is also compared with 0 somewhere in the function",
		Configs:  "NP",
		Floor:    map[string]int{"N": 2, "P": 2},
		Controls: 1,
		Run:      runIndexLower,
	})
}

func paramRoot(v ssa.Value, d int) *ssa.Parameter {
	if d > 4 {
		return nil
	}
	switch x := v.(type) {
	case *ssa.Parameter:
		return x
	case *ssa.Convert:
		return paramRoot(x.X, d+1)
	case *ssa.ChangeType:
		return paramRoot(x.X, d+1)
	}
	return nil
}

// indexRoot: paramRoot, or the result of Path.int() — the integer of a path step supplied by the caller.
func indexRoot(v ssa.Value, d int) ssa.Value {
	if p := paramRoot(v, d); p != nil {
		return p
	}
	if d > 4 {
		return nil
	}
	switch x := v.(type) {
	case *ssa.Convert:
		return indexRoot(x.X, d+1)
	case *ssa.Call:
		if cal := x.Call.StaticCallee(); cal != nil && cal.Name() == "int" && cal.Signature.Recv() != nil && strings.HasSuffix(typeShort(cal.Signature.Recv().Type()), "generic.Path") {
			return x
		}
	}
	return nil
}

// onlyMatched: every use of the index (through conversions) is an equality test or an ordered
// comparison with a header count — it never enters arithmetic, a loop bound or an index expression.
func onlyMatched(v ssa.Value) bool {
	ok := true
	var visit func(x ssa.Value, d int)
	visit = func(x ssa.Value, d int) {
		if x.Referrers() == nil || d > 3 {
			return
		}
		for _, r := range *x.Referrers() {
			switch u := r.(type) {
			case *ssa.Convert:
				visit(u, d+1)
			case *ssa.DebugRef:
			case *ssa.BinOp:
				switch u.Op {
				case token.EQL, token.NEQ:
				case token.LSS, token.LEQ, token.GTR, token.GEQ:
					if !(headerCount(u.X, 0) || headerCount(u.Y, 0)) {
						ok = false
					}
				default:
					ok = false
				}
			default:
				ok = false
			}
		}
	}
	visit(v, 0)
	return ok
}

// zeroCounter: a loop-carried element counter (φ of the constant 0 and itself + 1): `cnt < idx`.
func zeroCounter(v ssa.Value) bool {
	ph, ok := v.(*ssa.Phi)
	if !ok {
		return false
	}
	zero, inc := false, false
	for _, e := range ph.Edges {
		if k, isC := constInt(e); isC && k == 0 {
			zero = true
		}
		if bo, ok := e.(*ssa.BinOp); ok && bo.Op == token.ADD && (bo.X == ssa.Value(ph) || bo.Y == ssa.Value(ph)) {
			inc = true
		}
	}
	return zero && inc
}

func indexName(v ssa.Value) string {
	if p, ok := v.(*ssa.Parameter); ok {
		return p.Name()
	}
	return "path.int()"
}

func mentionsLen(v ssa.Value, d int) bool {
	if v == nil || d > 4 {
		return false
	}
	switch x := v.(type) {
	case *ssa.Call:
		if bi, ok := x.Call.Value.(*ssa.Builtin); ok && (bi.Name() == "len" || bi.Name() == "cap") {
			return true
		}
	case *ssa.Convert:
		return mentionsLen(x.X, d+1)
	case *ssa.BinOp:
		return mentionsLen(x.X, d+1) || mentionsLen(x.Y, d+1)
	}
	return false
}

func runIndexLower(rc *RuleCtx) {
	for _, fn := range rc.W.Funcs {
		if fn.Blocks == nil {
			continue
		}
		// clause (b): an element index compared with the container's header count
		for _, b := range fn.Blocks {
			for _, ins := range b.Instrs {
				bo, ok := ins.(*ssa.BinOp)
				if !ok || (bo.Op != token.GEQ && bo.Op != token.LSS && bo.Op != token.GTR && bo.Op != token.LEQ) {
					continue
				}
				// the index: a signed int parameter, or the integer of a caller-supplied path step (Path.int())
				var p ssa.Value
				if headerCount(bo.Y, 0) || zeroCounter(bo.Y) {
					p = indexRoot(bo.X, 0)
				} else if headerCount(bo.X, 0) || zeroCounter(bo.X) {
					p = indexRoot(bo.Y, 0)
				}
				if p == nil {
					continue
				}
				bt, ok := p.Type().Underlying().(*types.Basic)
				if !ok || bt.Info()&types.IsInteger == 0 || bt.Info()&types.IsUnsigned != 0 {
					continue
				}
				rc.Examined++
				lower := false
				for _, ob := range fn.Blocks {
					for _, oi := range ob.Instrs {
						o, ok := oi.(*ssa.BinOp)
						if !ok {
							continue
						}
						var other ssa.Value
						if indexRoot(o.X, 0) == p {
							other = o.Y
						} else if indexRoot(o.Y, 0) == p {
							other = o.X
						} else {
							continue
						}
						if k, isC := constInt(other); isC && k >= -1 && k <= 1 {
							switch o.Op {
							case token.LSS, token.GEQ, token.GTR, token.LEQ:
								lower = true
							}
						}
					}
				}
				if !lower && onlyMatched(p) {
					// the index is never used to address anything: it is only compared with the count and
					// matched by equality against a running (non-negative) position — a negative value matches nothing
					rc.ok(fn, "element index "+indexName(p), bo.Pos(), "the index is only matched by equality against a running position; a negative value matches no element", false)
					continue
				}
				rc.verdict(lower, fn, "element index "+indexName(p), bo.Pos(), map[bool]string{
					true:  "the signed element index is bounded on both sides",
					false: "the signed element index `" + indexName(p) + "` is compared with the container's element count but never with 0: a negative index passes the bound check and addresses element 0 (or worse) instead of being rejected"}[lower], true)
			}
		}
		for _, b := range fn.Blocks {
			for _, ins := range b.Instrs {
				var idx ssa.Value
				switch x := ins.(type) {
				case *ssa.IndexAddr:
					idx = x.Index
				case *ssa.Index:
					idx = x.Index
				default:
					continue
				}
				p := paramRoot(idx, 0)
				if p == nil {
					continue
				}
				bt, ok := p.Type().Underlying().(*types.Basic)
				if !ok || bt.Info()&types.IsInteger == 0 || bt.Info()&types.IsUnsigned != 0 {
					continue
				}
				upper, lower := false, false
				for _, cd := range controllingIfs(b) {
					cond, _ := condKey(cd.cond)
					bo, ok := cond.(*ssa.BinOp)
					if !ok {
						continue
					}
					px, py := paramRoot(bo.X, 0) == p, paramRoot(bo.Y, 0) == p
					if !px && !py {
						continue
					}
					other := bo.Y
					if py {
						other = bo.X
					}
					if mentionsLen(other, 0) {
						upper = true
						continue
					}
					if k, isC := constInt(other); isC && k >= -1 && k <= 1 {
						switch bo.Op {
						case token.LSS, token.GEQ, token.GTR, token.LEQ:
							lower = true
						}
					}
				}
				if !upper {
					// the grow-then-index idiom: `if i >= len(s) { s = grow(s, i) }; s[i]` — the upper test exists
					// but does not dominate the access
					for _, ob := range fn.Blocks {
						for _, oi := range ob.Instrs {
							bo, ok := oi.(*ssa.BinOp)
							if !ok {
								continue
							}
							if (paramRoot(bo.X, 0) == p && mentionsLen(bo.Y, 0)) || (paramRoot(bo.Y, 0) == p && mentionsLen(bo.X, 0)) {
								upper = true
							}
						}
					}
				}
				if !upper {
					continue
				}
				rc.Examined++
				rc.verdict(lower, fn, "index "+p.Name(), ins.Pos(), map[bool]string{
					true:  "the signed index is bounded on both sides",
					false: "the signed parameter `" + p.Name() + "` is checked against len(…) but never against 0: a negative value indexes the slice and panics"}[lower], true)
			}
		}
	}
}

package main

import (
	"go/token"
	"go/types"

	"golang.org/x/tools/go/ssa"
)

// INDEXLOWER: a contradiction rule. A function that protects a slice access `s[i]` against
// `i >= len(s)` believes the index can be out of range; if the index is a SIGNED parameter and
// nothing excludes negative values it can be out of range on the other side as well, and the
// access panics (lookup of field number -1, a negative field id in an IDL) instead of reporting
// "not found".
func init() {
	register(&Rule{
		Name:     "INDEXLOWER",
		Doc:      "every slice/array access whose index is (a conversion of) a signed integer parameter and whose function tests that parameter against len(…) (a dominating bound check, or the grow-then-index idiom) is also dominated by a test that excludes negative values (`i < 0`, `i >= 0`, `i > c`, c >= -1) — or the parameter is unsigned; (b) a signed index parameter that is compared with an element count decoded from a container header (COUNTCMP's notion) is also compared with 0 somewhere in the function",
		Configs:  "NP",
		Floor:    map[string]int{"N": 2, "P": 2},
		Controls: 1,
		Run:      runIndexLower,
	})
}

func paramRoot(v ssa.Value, d int) *ssa.Parameter {
	if d > 4 {
		return nil
	}
	switch x := v.(type) {
	case *ssa.Parameter:
		return x
	case *ssa.Convert:
		return paramRoot(x.X, d+1)
	case *ssa.ChangeType:
		return paramRoot(x.X, d+1)
	}
	return nil
}

func mentionsLen(v ssa.Value, d int) bool {
	if v == nil || d > 4 {
		return false
	}
	switch x := v.(type) {
	case *ssa.Call:
		if bi, ok := x.Call.Value.(*ssa.Builtin); ok && (bi.Name() == "len" || bi.Name() == "cap") {
			return true
		}
	case *ssa.Convert:
		return mentionsLen(x.X, d+1)
	case *ssa.BinOp:
		return mentionsLen(x.X, d+1) || mentionsLen(x.Y, d+1)
	}
	return false
}

func runIndexLower(rc *RuleCtx) {
	for _, fn := range rc.W.Funcs {
		if fn.Blocks == nil {
			continue
		}
		// clause (b): an element index compared with the container's header count
		for _, b := range fn.Blocks {
			for _, ins := range b.Instrs {
				bo, ok := ins.(*ssa.BinOp)
				if !ok || (bo.Op != token.GEQ && bo.Op != token.LSS && bo.Op != token.GTR && bo.Op != token.LEQ) {
					continue
				}
				var p *ssa.Parameter
				if headerCount(bo.Y, 0) {
					p = paramRoot(bo.X, 0)
				} else if headerCount(bo.X, 0) {
					p = paramRoot(bo.Y, 0)
				}
				if p == nil {
					continue
				}
				bt, ok := p.Type().Underlying().(*types.Basic)
				if !ok || bt.Info()&types.IsInteger == 0 || bt.Info()&types.IsUnsigned != 0 {
					continue
				}
				rc.Examined++
				lower := false
				for _, ob := range fn.Blocks {
					for _, oi := range ob.Instrs {
						o, ok := oi.(*ssa.BinOp)
						if !ok {
							continue
						}
						var other ssa.Value
						if paramRoot(o.X, 0) == p {
							other = o.Y
						} else if paramRoot(o.Y, 0) == p {
							other = o.X
						} else {
							continue
						}
						if k, isC := constInt(other); isC && k >= -1 && k <= 1 {
							switch o.Op {
							case token.LSS, token.GEQ, token.GTR, token.LEQ:
								lower = true
							}
						}
					}
				}
				rc.verdict(lower, fn, "element index "+p.Name(), bo.Pos(), map[bool]string{
					true:  "the signed element index is bounded on both sides",
					false: "the signed element index `" + p.Name() + "` is compared with the container's element count but never with 0: a negative index passes the bound check and addresses element 0 (or worse) instead of being rejected"}[lower], true)
			}
		}
		for _, b := range fn.Blocks {
			for _, ins := range b.Instrs {
				var idx ssa.Value
				switch x := ins.(type) {
				case *ssa.IndexAddr:
					idx = x.Index
				case *ssa.Index:
					idx = x.Index
				default:
					continue
				}
				p := paramRoot(idx, 0)
				if p == nil {
					continue
				}
				bt, ok := p.Type().Underlying().(*types.Basic)
				if !ok || bt.Info()&types.IsInteger == 0 || bt.Info()&types.IsUnsigned != 0 {
					continue
				}
				upper, lower := false, false
				for _, cd := range controllingIfs(b) {
					cond, _ := condKey(cd.cond)
					bo, ok := cond.(*ssa.BinOp)
					if !ok {
						continue
					}
					px, py := paramRoot(bo.X, 0) == p, paramRoot(bo.Y, 0) == p
					if !px && !py {
						continue
					}
					other := bo.Y
					if py {
						other = bo.X
					}
					if mentionsLen(other, 0) {
						upper = true
						continue
					}
					if k, isC := constInt(other); isC && k >= -1 && k <= 1 {
						switch bo.Op {
						case token.LSS, token.GEQ, token.GTR, token.LEQ:
							lower = true
						}
					}
				}
				if !upper {
					// the grow-then-index idiom: `if i >= len(s) { s = grow(s, i) }; s[i]` — the upper test exists
					// but does not dominate the access
					for _, ob := range fn.Blocks {
						for _, oi := range ob.Instrs {
							bo, ok := oi.(*ssa.BinOp)
							if !ok {
								continue
							}
							if (paramRoot(bo.X, 0) == p && mentionsLen(bo.Y, 0)) || (paramRoot(bo.Y, 0) == p && mentionsLen(bo.X, 0)) {
								upper = true
							}
						}
					}
				}
				if !upper {
					continue
				}
				rc.Examined++
				rc.verdict(lower, fn, "index "+p.Name(), ins.Pos(), map[bool]string{
					true:  "the signed index is bounded on both sides",
					false: "the signed parameter `" + p.Name() + "` is checked against len(…) but never against 0: a negative value indexes the slice and panics"}[lower], true)
			}
		}
	}
}

package main

import (
	"fmt"
	"go/types"
	"sort"

	"golang.org/x/tools/go/ssa"
)

// NILGUARDAGREE: a belief-contradiction rule (Engler et al.). When two or more call sites hand
// their own interface-typed parameter to a callee only under `x != nil`, the callers believe the
// value may be nil and that the callee cannot take nil (it invokes methods on it). A sibling call
// site that passes the same kind of parameter to the same callee without the test panics with a
// nil dereference whenever the optional collaborator (e.g. the http.ResponseSetter of a nested
// struct conversion) is absent.
func init() {
	register(&Rule{
		Name:     "NILGUARDAGREE",
		Doc:      "for every repo function F and interface-typed parameter position i on which F (or a callee it forwards the parameter to, depth <= 2) invokes a method without a nil test: if at least two call sites pass their own interface-typed parameter for i under a dominating `x != nil`, every call site that passes its own parameter for i does",
		Configs:  "NP",
		Floor:    map[string]int{"N": 2, "P": 2},
		Controls: 1,
		Run:      runNilGuardAgree,
	})
}

// invokesUnchecked: fn invokes a method on its i-th parameter (receiver included in Params) in a block
// that is not dominated by a non-nil test of it, or forwards it to a callee that does.
func invokesUnchecked(fn *ssa.Function, i int, depth int, memo map[string]bool) bool {
	if fn == nil || fn.Blocks == nil || i >= len(fn.Params) || depth > 2 {
		return false
	}
	key := fmt.Sprintf("%p/%d", fn, i)
	if v, ok := memo[key]; ok {
		return v
	}
	memo[key] = false
	p := fn.Params[i]
	res := false
	for _, r := range *p.Referrers() {
		c, ok := r.(ssa.CallInstruction)
		if !ok {
			continue
		}
		guarded := false
		for _, cd := range controllingIfs(r.Block()) {
			if subj, nilOnTrue, ok := nilTest(cd.cond); ok && subj == p && nilOnTrue != cd.val {
				guarded = true
			}
		}
		if guarded {
			continue
		}
		if c.Common().IsInvoke() {
			// a method is invoked on it, or it is handed to caller-supplied code (assumed to use it)
			res = true
			break
		}
		if cal := c.Common().StaticCallee(); cal != nil {
			for ai, a := range c.Common().Args {
				if a == p && invokesUnchecked(cal, ai, depth+1, memo) {
					res = true
				}
			}
		}
	}
	memo[key] = res
	return res
}

func runNilGuardAgree(rc *RuleCtx) {
	type site struct {
		fn      *ssa.Function
		ins     ssa.Instruction
		guarded bool
	}
	type key struct {
		cal *ssa.Function
		idx int
	}
	sites := map[key][]site{}
	memo := map[string]bool{}
	for _, fn := range rc.W.Funcs {
		for _, b := range fn.Blocks {
			for _, ins := range b.Instrs {
				c, ok := ins.(ssa.CallInstruction)
				if !ok {
					continue
				}
				cal := c.Common().StaticCallee()
				if cal == nil || cal.Blocks == nil || cal.Pkg == nil || !inRepo(cal.Pkg.Pkg.Path()) {
					continue
				}
				for ai, a := range c.Common().Args {
					p := ifaceParamRoot(a)
					if p == nil {
						continue
					}
					if _, isIface := a.Type().Underlying().(*types.Interface); !isIface {
						continue
					}
					if a.Type().String() == "context.Context" || a.Type().String() == "error" {
						continue
					}
					guarded := false
					for _, cd := range controllingIfs(b) {
						if subj, nilOnTrue, ok := nilTest(cd.cond); ok && ifaceParamRoot(subj) == p && nilOnTrue != cd.val {
							guarded = true
						}
					}
					sites[key{cal, ai}] = append(sites[key{cal, ai}], site{fn, ins, guarded})
				}
			}
		}
	}
	var keys []key
	for k := range sites {
		keys = append(keys, k)
	}
	sort.Slice(keys, func(i, j int) bool {
		if keys[i].cal.String() != keys[j].cal.String() {
			return keys[i].cal.String() < keys[j].cal.String()
		}
		return keys[i].idx < keys[j].idx
	})
	for _, k := range keys {
		ss := sites[k]
		ng := 0
		for _, s := range ss {
			if s.guarded {
				ng++
			}
		}
		if ng < 2 || !invokesUnchecked(k.cal, k.idx, 0, memo) {
			continue
		}
		for _, s := range ss {
			rc.Examined++
			anchor := fmt.Sprintf("%s(arg %d)", k.cal.Name(), k.idx)
			rc.verdict(s.guarded, s.fn, anchor, s.ins.Pos(), map[bool]string{
				true:  "the interface parameter is handed on only when it is non-nil",
				false: fmt.Sprintf("%d sibling call sites pass their interface parameter to %s only under `!= nil`, this one passes it untested; %s invokes methods on it: a nil collaborator panics here", ng, k.cal.Name(), k.cal.Name())}[s.guarded], true)
		}
	}
}

// ifaceParamRoot: the parameter (or the captured variable / spilled cell holding a parameter) a value was loaded from.
func ifaceParamRoot(v ssa.Value) ssa.Value {
	switch x := v.(type) {
	case *ssa.Parameter:
		return x
	case *ssa.UnOp:
		switch a := x.X.(type) {
		case *ssa.FreeVar:
			return a
		case *ssa.Alloc:
			for _, r := range *a.Referrers() {
				if st, ok := r.(*ssa.Store); ok && st.Addr == a {
					if _, isP := st.Val.(*ssa.Parameter); isP {
						return a
					}
				}
			}
		}
	}
	return nil
}

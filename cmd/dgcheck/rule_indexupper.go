package main

import (
	"go/types"

	"golang.org/x/tools/go/ssa"
)

// INDEXUPPER: the mirror of INDEXLOWER. An access `s[i]` into a slice of run-time length whose
// index comes from a parameter and is protected only by a comparison with a CONSTANT (an id
// threshold) believes the slice always has that many elements. When the slice is as long as the
// data that filled it (the children loaded from a message), an id below the threshold but beyond
// the loaded children panics with index out of range.
func init() {
	register(&Rule{
		Name:     "INDEXUPPER",
		Doc:      "every access into a slice (not an array) whose index is (a conversion of) a parameter and that is dominated by a comparison of that parameter with a constant (or a package-level threshold variable) is also dominated by a comparison of it with len(…): a constant bound says nothing about how many elements the slice holds",
		Configs:  "NP",
		Floor:    map[string]int{"N": 2, "P": 2},
		Controls: 1,
		Run:      runIndexUpper,
	})
}

func runIndexUpper(rc *RuleCtx) {
	for _, fn := range rc.W.Funcs {
		if fn.Blocks == nil {
			continue
		}
		for _, b := range fn.Blocks {
			for _, ins := range b.Instrs {
				ia, ok := ins.(*ssa.IndexAddr)
				if !ok {
					continue
				}
				if _, isSlice := ia.X.Type().Underlying().(*types.Slice); !isSlice {
					continue
				}
				p := paramRoot(ia.Index, 0)
				if p == nil {
					continue
				}
				constBound, lenBound := false, false
				for _, cd := range controllingIfs(b) {
					cond, _ := condKey(cd.cond)
					bo, ok := cond.(*ssa.BinOp)
					if !ok {
						continue
					}
					var other ssa.Value
					if paramRoot(bo.X, 0) == p {
						other = bo.Y
					} else if paramRoot(bo.Y, 0) == p {
						other = bo.X
					} else {
						continue
					}
					if mentionsLen(other, 0) {
						lenBound = true
					} else if k, isC := constInt(other); isC && k > 1 {
						constBound = true
					} else if ld, ok := other.(*ssa.UnOp); ok {
						if _, isG := ld.X.(*ssa.Global); isG {
							constBound = true // a package-level threshold
						}
					}
				}
				if !constBound {
					continue
				}
				rc.Examined++
				rc.verdict(lenBound, fn, "index "+p.Name(), ia.Pos(), map[bool]string{
					true:  "the index is bounded by the slice's length",
					false: "the index `" + p.Name() + "` is compared with a constant threshold only; the slice is as long as the data that filled it, so an index below the threshold but beyond len(…) panics"}[lenBound], true)
			}
		}
	}
}

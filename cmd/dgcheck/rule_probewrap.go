package main

import (
	"go/token"
	"go/types"

	"golang.org/x/tools/go/ssa"
)

// PROBEWRAP: open addressing with linear probing over a table of N slots advances the slot index
// modulo N. When the code also keeps a POINTER to the current slot, that pointer has to wrap with
// the index: a pointer that is simply bumped by the slot size walks past slot N-1 into whatever
// follows the table while the index wraps to 0 — the emptiness / key test is made on one slot and
// the index that is returned (or the slot that is written) is another.
func init() {
	register(&Rule{
		Name:     "PROBEWRAP",
		Doc:      "in every loop that advances a slot index with wrap-around (`h = (h + 1) % N`), a slot pointer that is loop-carried in the same loop is recomputed from the index (rt.IndexPtr(base, size, h)), not advanced linearly from its previous value (`s = s + size` / rt.AddPtr(s, size)): the linear pointer leaves the table when the index wraps, so the probe inspects a slot that is not the slot number h",
		Configs:  "NP",
		Floor:    map[string]int{"N": 3, "P": 3},
		Controls: 1,
		Run:      runProbeWrap,
	})
}

func derivesFromSelfLinear(v ssa.Value, self ssa.Value, d int) bool {
	if d > 6 || v == nil {
		return false
	}
	if v == self {
		return d > 0
	}
	switch x := v.(type) {
	case *ssa.Convert:
		return derivesFromSelfLinear(x.X, self, d+1)
	case *ssa.ChangeType:
		return derivesFromSelfLinear(x.X, self, d+1)
	case *ssa.BinOp:
		if x.Op == token.ADD {
			return derivesFromSelfLinear(x.X, self, d+1) || derivesFromSelfLinear(x.Y, self, d+1)
		}
	case *ssa.Call:
		if cal := x.Call.StaticCallee(); cal != nil && cal.Name() == "AddPtr" && len(x.Call.Args) > 0 {
			return derivesFromSelfLinear(x.Call.Args[0], self, d+1)
		}
	}
	return false
}

func runProbeWrap(rc *RuleCtx) {
	for _, fn := range rc.W.Funcs {
		for _, b := range fn.Blocks {
			// wrapping index phis of this header
			var wrapPhi *ssa.Phi
			for _, ins := range b.Instrs {
				ph, ok := ins.(*ssa.Phi)
				if !ok {
					break
				}
				for _, e := range ph.Edges {
					if rem, ok := e.(*ssa.BinOp); ok && rem.Op == token.REM {
						if add, ok := rem.X.(*ssa.BinOp); ok && add.Op == token.ADD && (add.X == ssa.Value(ph) || add.Y == ssa.Value(ph)) {
							wrapPhi = ph
						}
					}
				}
			}
			if wrapPhi == nil {
				continue
			}
			rc.Examined++
			var bad *ssa.Phi
			for _, ins := range b.Instrs {
				ph, ok := ins.(*ssa.Phi)
				if !ok {
					break
				}
				if ph == wrapPhi {
					continue
				}
				// only a POINTER (or uintptr address) is a slot pointer; a plain integer that counts the probes
				// (`for i := 0; i < N; i++`) advances linearly by design
				if bt, ok := ph.Type().Underlying().(*types.Basic); ok && bt.Kind() != types.UnsafePointer && bt.Kind() != types.Uintptr {
					continue
				}
				for _, e := range ph.Edges {
					if derivesFromSelfLinear(e, ph, 0) {
						bad = ph
					}
				}
			}
			if bad != nil {
				rc.bad(fn, "probe loop", bad.Pos(), "the slot pointer `"+bad.Comment+"` is advanced linearly while the slot index `"+wrapPhi.Comment+"` wraps modulo N: after the wrap the pointer is outside the table and no longer addresses slot "+wrapPhi.Comment)
			} else {
				rc.ok(fn, "probe loop", wrapPhi.Pos(), "no linearly advanced pointer accompanies the wrapping index", true)
			}
		}
	}
}

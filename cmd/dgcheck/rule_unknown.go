package main

import (
	"go/token"
	"strings"

	"golang.org/x/tools/go/ssa"
)

func init() {
	register(&Rule{
		Name: "NEGPOLARITY",
		Doc: "a return of the unknown-field error (a call carrying the constant meta.ErrUnknownField, or a package variable initialised with it) that is control-dependent (edge-based) on a disallow-unknown flag " +
			"(parameter/field whose name contains `disallow`) depends on it positively: unknown members are an error exactly when disallowed",
		Configs:  "NP",
		Floor:    map[string]int{"N": 10, "P": 10},
		Controls: 1,
		Run:      runNegPolarity,
	})
	register(&Rule{
		Name: "UNKNOWNSKIP",
		Doc: "in a field loop that read a field header itself (ReadFieldBegin / ConsumeTag*), the unknown-field branch (descriptor lookup returned nil) passes a value skip (Skip*/next call or cursor store) before it re-enters the loop: " +
			"continuing without skipping parses the value bytes as the next header",
		Configs:  "NP",
		Floor:    map[string]int{"N": 6, "P": 6},
		Controls: 1,
		Run:      runUnknownSkip,
	})
}

func condName(v ssa.Value) string {
	switch x := v.(type) {
	case *ssa.Parameter:
		return x.Name()
	case *ssa.FreeVar:
		return x.Name()
	case *ssa.UnOp:
		if _, n, ok := fieldNameOf(x.X); ok {
			return n
		}
		return condName(x.X)
	case *ssa.Field:
		if _, n, ok := fieldNameOf(x); ok {
			return n
		}
	case *ssa.Alloc:
		return x.Comment
	}
	return ""
}

type unknownErrs struct {
	code    int64
	globals map[*ssa.Global]bool
}

func findUnknownErrs(w *World) *unknownErrs {
	u := &unknownErrs{code: -1, globals: map[*ssa.Global]bool{}}
	mp := w.Pkg("meta")
	for _, p := range w.Prog.AllPackages() {
		if p.Pkg == mp.Types {
			if c, ok := p.Members["ErrUnknownField"].(*ssa.NamedConst); ok {
				u.code = c.Value.Int64()
			}
		}
	}
	if u.code < 0 {
		broken("NEGPOLARITY: meta.ErrUnknownField does not resolve")
	}
	for _, fn := range w.Funcs {
		if fn.Name() != "init" {
			continue
		}
		for _, b := range fn.Blocks {
			for _, ins := range b.Instrs {
				st, ok := ins.(*ssa.Store)
				if !ok {
					continue
				}
				g, ok := st.Addr.(*ssa.Global)
				if !ok {
					continue
				}
				if u.isUnknown(st.Val, 0) {
					u.globals[g] = true
				}
			}
		}
	}
	return u
}

func (u *unknownErrs) isUnknown(v ssa.Value, d int) bool {
	if d > 5 || v == nil {
		return false
	}
	switch x := v.(type) {
	case *ssa.MakeInterface:
		return u.isUnknown(x.X, d+1)
	case *ssa.ChangeInterface:
		return u.isUnknown(x.X, d+1)
	case *ssa.UnOp:
		if g, ok := x.X.(*ssa.Global); ok && x.Op == token.MUL {
			return u.globals[g]
		}
	case *ssa.Call:
		for _, a := range x.Call.Args {
			if c, ok := a.(*ssa.Const); ok && c.Value != nil && strings.HasSuffix(c.Type().String(), "/meta.ErrCode") {
				if i, ok := constInt(c); ok && i == u.code {
					return true
				}
			}
		}
	case *ssa.Phi:
		for _, e := range x.Edges {
			if u.isUnknown(e, d+1) {
				return true
			}
		}
	}
	return false
}

func runNegPolarity(rc *RuleCtx) {
	w := rc.W
	u := findUnknownErrs(w)
	rc.Stats["unknown_error_globals"] = len(u.globals)
	for _, fn := range w.Funcs {
		for _, b := range fn.Blocks {
			ret, ok := lastInstr(b).(*ssa.Return)
			if !ok {
				continue
			}
			is := false
			for _, rv := range ret.Results {
				if u.isUnknown(rv, 0) {
					is = true
				}
			}
			if !is {
				continue
			}
			rc.Examined++
			pol, name := "", ""
			for _, cd := range controllingIfs(b) {
				k, neg := condKey(cd.cond)
				nm := condName(k)
				if !strings.Contains(strings.ToLower(nm), "disallow") {
					continue
				}
				positive := cd.val != neg
				name = nm
				if positive {
					pol = "positive"
				} else {
					pol = "negative"
				}
				break
			}
			pos := instrPos(ret)
			switch pol {
			case "":
				rc.ok(fn, "unknown-field-return", pos, "not conditioned on a disallow flag (typed lookup: always an error)", false)
			case "positive":
				rc.ok(fn, "unknown-field-return", pos, "returned when "+name+" is true", true)
			default:
				rc.bad(fn, "unknown-field-return", pos, "unknown-field error is returned when "+name+" is FALSE (inverted polarity)")
			}
		}
	}
}

func isCursorType(v ssa.Value) bool {
	t := v.Type()
	return isNamed(t, "thrift", "BinaryProtocol") || isNamed(t, "proto/binary", "BinaryProtocol")
}

func runUnknownSkip(rc *RuleCtx) {
	w := rc.W
	lookups := map[*ssa.Function]bool{}
	for _, n := range []string{"(thrift.StructDescriptor).FieldById", "(*proto.MessageDescriptor).ByNumber"} {
		lookups[w.Fn(n)] = true
	}
	isHeaderRead := func(i ssa.Instruction) bool {
		c, ok := i.(*ssa.Call)
		if !ok {
			return false
		}
		cal := c.Call.StaticCallee()
		if cal == nil || cal.Signature.Recv() == nil {
			return false
		}
		n := cal.Name()
		return (n == "ReadFieldBegin" || strings.HasPrefix(n, "ConsumeTag")) &&
			(isNamed(cal.Signature.Recv().Type(), "thrift", "BinaryProtocol") || isNamed(cal.Signature.Recv().Type(), "proto/binary", "BinaryProtocol"))
	}
	isSkip := func(i ssa.Instruction) bool {
		switch x := i.(type) {
		case *ssa.Call:
			cal := x.Call.StaticCallee()
			if cal == nil {
				return false
			}
			n := cal.Name()
			if strings.HasPrefix(n, "Skip") || strings.HasPrefix(n, "skip") || n == "next" || n == "Next" {
				return true
			}
			// a repo helper that is handed the cursor and skips inside (bounded depth)
			for _, a := range x.Call.Args {
				if isCursorType(a) && calleeSkips(cal, 3) {
					return true
				}
			}
		case *ssa.Store:
			if t, n, ok := fieldNameOf(x.Addr); ok && n == "Read" && strings.HasSuffix(typeShort(t), "BinaryProtocol") {
				return true
			}
		}
		return false
	}
	unk := findUnknownErrs(w)
	disallowHonoured(rc, unk)
	for _, fn := range w.Funcs {
		if fn.Blocks == nil {
			continue
		}
		loops := naturalLoops(fn)
		for _, b := range fn.Blocks {
			for _, ins := range b.Instrs {
				c, ok := ins.(*ssa.Call)
				if !ok || c.Call.StaticCallee() == nil || !lookups[c.Call.StaticCallee()] {
					continue
				}
				// the looked-up id must come from a header read (otherwise this is not a field loop)
				fromHeader := false
				for _, a := range c.Call.Args {
					if derivesFromHeader(a, isHeaderRead, 0) {
						fromHeader = true
					}
				}
				if !fromHeader {
					continue
				}
				// innermost loop containing the lookup and a header read
				var loop *natLoop
				for _, l := range loops {
					if !l.blocks[b] {
						continue
					}
					hasHdr := false
					for lb := range l.blocks {
						for _, li := range lb.Instrs {
							if isHeaderRead(li) {
								hasHdr = true
							}
						}
					}
					if hasHdr && (loop == nil || len(l.blocks) < len(loop.blocks)) {
						loop = l
					}
				}
				if loop == nil {
					continue
				}
				// nil edges of tests on the lookup result
				for _, r := range *c.Referrers() {
					bo, ok := r.(*ssa.BinOp)
					if !ok {
						continue
					}
					for _, rr := range *bo.Referrers() {
						iff, ok := rr.(*ssa.If)
						if !ok {
							continue
						}
						subj, nilOnTrue, ok := nilTest(iff.Cond)
						if !ok || subj != c {
							continue
						}
						rc.Examined++
						nilSucc := iff.Block().Succs[1]
						if nilOnTrue {
							nilSucc = iff.Block().Succs[0]
						}
						// path nilSucc -> loop head inside loop avoiding skip events?
						seen := map[*ssa.BasicBlock]bool{}
						var path []*ssa.BasicBlock
						var dfs func(x *ssa.BasicBlock) bool
						dfs = func(x *ssa.BasicBlock) bool {
							if x == loop.head {
								return true
							}
							if seen[x] || !loop.blocks[x] {
								return false
							}
							seen[x] = true
							for _, xi := range x.Instrs {
								if isSkip(xi) {
									return false
								}
							}
							path = append(path, x)
							for _, s := range x.Succs {
								if dfs(s) {
									return true
								}
							}
							path = path[:len(path)-1]
							return false
						}
						if dfs(nilSucc) {
							o := rc.bad(fn, "unknown-field-branch", instrPos(iff), "unknown field (lookup "+c.Call.StaticCallee().Name()+" == nil) re-enters the field loop without skipping the field's value")
							for _, pb := range path {
								o.Path = append(o.Path, "block "+w.relPos(blockPos(pb)))
							}
						} else {
							rc.ok(fn, "unknown-field-branch", instrPos(iff), "value skipped (or loop left) before the next header is read", true)
						}
					}
				}
			}
		}
	}
}

// disallowHonoured: in every function that has access to a disallow-unknown option, each nil-tested
// descriptor lookup must be able to return the unknown-field error on its nil branch.
func disallowHonoured(rc *RuleCtx, unk *unknownErrs) {
	w := rc.W
	lookups := map[*ssa.Function]bool{}
	for _, n := range []string{"(thrift.StructDescriptor).FieldById", "(thrift.StructDescriptor).FieldByKey", "(*proto.MessageDescriptor).ByNumber", "(*proto.MessageDescriptor).ByName", "(*proto.MessageDescriptor).ByJSONName"} {
		lookups[w.Fn(n)] = true
	}
	for _, fn := range w.Funcs {
		if fn.Blocks == nil {
			continue
		}
		// gate: the function reads a parameter or field whose name contains "disallow"
		gated := false
		for _, p := range fn.Params {
			if strings.Contains(strings.ToLower(p.Name()), "disallow") {
				gated = true
			}
		}
		for _, b := range fn.Blocks {
			for _, ins := range b.Instrs {
				if fa, ok := ins.(*ssa.FieldAddr); ok {
					if _, n, ok := fieldNameOf(fa); ok && strings.Contains(strings.ToLower(n), "disallow") {
						gated = true
					}
				}
				if f, ok := ins.(*ssa.Field); ok {
					if _, n, ok := fieldNameOf(f); ok && strings.Contains(strings.ToLower(n), "disallow") {
						gated = true
					}
				}
			}
		}
		if !gated {
			continue
		}
		for _, b := range fn.Blocks {
			for _, ins := range b.Instrs {
				c, ok := ins.(*ssa.Call)
				if !ok || c.Call.StaticCallee() == nil || !lookups[c.Call.StaticCallee()] {
					continue
				}
				for _, r := range *c.Referrers() {
					bo, ok := r.(*ssa.BinOp)
					if !ok {
						continue
					}
					for _, rr := range *bo.Referrers() {
						iff, ok := rr.(*ssa.If)
						if !ok {
							continue
						}
						subj, nilOnTrue, ok := nilTest(iff.Cond)
						if !ok || subj != c {
							continue
						}
						if nonNilRegion(fn, c)[iff.Block()] {
							continue // a redundant re-test inside the region where the value is already known non-nil
						}
						nilSucc := iff.Block().Succs[1]
						if nilOnTrue {
							nilSucc = iff.Block().Succs[0]
						}
						hasErr := false
						for d := range edgeRegion(nilSucc) {
							if ret, ok := lastInstr(d).(*ssa.Return); ok {
								for _, rv := range ret.Results {
									// the unknown-field error, or any certain error (some converters report ErrConvert)
									if unk.isUnknown(rv, 0) {
										hasErr = true
									} else if types_isError(rv) && w.EC().nonNil(rv, nil, map[ssa.Value]bool{}) {
										// another certain error counts only when it is returned BECAUSE a disallow flag is set
										for _, cd := range controllingIfs(d) {
											k, neg := condKey(cd.cond)
											if strings.Contains(strings.ToLower(condName(k)), "disallow") && cd.val != neg {
												hasErr = true
											}
										}
									}
								}
							}
						}
						rc.Examined++
						if hasErr {
							rc.ok(fn, "unknown-field-disallow", instrPos(iff), "the unknown branch can return the unknown-field error", true)
						} else {
							rc.bad(fn, "unknown-field-disallow", instrPos(iff), "this function honours a disallow-unknown option elsewhere, but the unknown branch of lookup "+c.Call.StaticCallee().Name()+" never returns the unknown-field error: the option cannot take effect here")
						}
					}
				}
			}
		}
	}
}

func derivesFromHeader(v ssa.Value, isHeaderRead func(ssa.Instruction) bool, d int) bool {
	if d > 6 || v == nil {
		return false
	}
	switch x := v.(type) {
	case *ssa.Extract:
		if c, ok := x.Tuple.(*ssa.Call); ok {
			if isHeaderRead(c) {
				return true
			}
			// iterator Next() results also carry the header's id
			if cal := c.Call.StaticCallee(); cal != nil && strings.HasPrefix(cal.Name(), "Next") {
				return true
			}
		}
	case *ssa.Convert:
		return derivesFromHeader(x.X, isHeaderRead, d+1)
	case *ssa.ChangeType:
		return derivesFromHeader(x.X, isHeaderRead, d+1)
	case *ssa.Phi:
		for _, e := range x.Edges {
			if derivesFromHeader(e, isHeaderRead, d+1) {
				return true
			}
		}
	}
	return false
}

var calleeSkipsCache = map[*ssa.Function]bool{}

func calleeSkips(fn *ssa.Function, depth int) bool {
	if v, ok := calleeSkipsCache[fn]; ok {
		return v
	}
	if fn.Blocks == nil || depth == 0 || !inRepo(pkgPathOf(fn)) {
		return false
	}
	calleeSkipsCache[fn] = false
	for _, b := range fn.Blocks {
		for _, ins := range b.Instrs {
			switch x := ins.(type) {
			case *ssa.Call:
				cal := x.Call.StaticCallee()
				if cal == nil {
					continue
				}
				n := cal.Name()
				if strings.HasPrefix(n, "Skip") || strings.HasPrefix(n, "skip") || n == "next" || n == "Next" {
					calleeSkipsCache[fn] = true
					return true
				}
				for _, a := range x.Call.Args {
					if isCursorType(a) && calleeSkips(cal, depth-1) {
						calleeSkipsCache[fn] = true
						return true
					}
				}
			case *ssa.Store:
				if t, n, ok := fieldNameOf(x.Addr); ok && n == "Read" && strings.HasSuffix(typeShort(t), "BinaryProtocol") {
					calleeSkipsCache[fn] = true
					return true
				}
			}
		}
	}
	return false
}

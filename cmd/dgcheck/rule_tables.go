package main

import (
	"fmt"
	"go/ast"
	"go/constant"
	"go/token"
	"go/types"
	"sort"
	"strings"

	"golang.org/x/tools/go/packages"
)

func init() {
	register(&Rule{
		Name: "MAPKEYQUOTE",
		Doc: "in p2j.unmarshalMap every legal non-string proto3 map-key kind is quoted EXACTLY ONCE under every combination of the options involved: the condition that guards the emission of the `\"` around a map key, XOR the scalar encoder clause of that kind appending a quote itself (unmarshalSingular, e.g. INT64 under Int642String), is true for every kind (int32/64, uint32/64, sint32/64, fixed32/64, sfixed32/64, bool) — evaluated symbolically for each kind, following predicate methods such as Type.IsInt — " +
			"an unquoted key is not valid JSON",
		Configs: "NP",
		Floor:   map[string]int{"N": 11, "P": 11},
		Run:     runMapKeyQuote,
	})
	register(&Rule{
		Name:    "KINDTABLE",
		Doc:     "proto kind tables agree with the protobuf specification, all evaluated as constants from the type-checked source: WireType constants, ProtoKind and proto.Type numbering (= FieldDescriptorProto.Type), Kind2Wire entries, builtinTypes key = typ, and the predicates NeedVarint/IsPacked/IsInt/IsUint/Valid evaluated for every Type value",
		Configs: "NP",
		Floor:   map[string]int{"N": 100, "P": 100},
		Run:     runKindTable,
	})
}

// ---- helpers ----

// expand replaces identifiers that have a single local definition by that definition.
func findSubject(p *packages.Package, e ast.Expr, locals map[string]ast.Expr, typeName string, depth int) string {
	found := ""
	var visit func(e ast.Expr, d int)
	visit = func(e ast.Expr, d int) {
		if e == nil || d > 6 {
			return
		}
		e = ast.Unparen(e)
		switch x := e.(type) {
		case *ast.BinaryExpr:
			if x.Op == token.EQL || x.Op == token.NEQ {
				for _, pair := range [][2]ast.Expr{{x.X, x.Y}, {x.Y, x.X}} {
					if tv, ok := p.TypesInfo.Types[pair[1]]; ok && tv.Value != nil && typeShort(tv.Type) == typeName {
						if tv0, ok := p.TypesInfo.Types[pair[0]]; ok && tv0.Value == nil {
							found = types.ExprString(ast.Unparen(pair[0]))
						}
					}
				}
			}
			visit(x.X, d+1)
			visit(x.Y, d+1)
		case *ast.UnaryExpr:
			visit(x.X, d+1)
		case *ast.Ident:
			if def, ok := locals[x.Name]; ok {
				visit(def, d+1)
			}
		case *ast.CallExpr:
			if sel, ok := ast.Unparen(x.Fun).(*ast.SelectorExpr); ok {
				if t := p.TypesInfo.TypeOf(sel.X); t != nil && typeShort(t) == typeName {
					found = types.ExprString(ast.Unparen(sel.X))
				}
			}
		}
	}
	visit(e, depth)
	return found
}

func isQuoteAppend(p *packages.Package, st ast.Stmt) bool {
	found := false
	ast.Inspect(st, func(n ast.Node) bool {
		ce, ok := n.(*ast.CallExpr)
		if !ok {
			return true
		}
		if id, ok := ce.Fun.(*ast.Ident); ok && id.Name == "append" && len(ce.Args) == 2 {
			if tv, ok := p.TypesInfo.Types[ce.Args[1]]; ok && tv.Value != nil && tv.Value.Kind() == constant.Int {
				if v, _ := constant.Int64Val(tv.Value); v == '"' {
					found = true
				}
			}
		}
		return true
	})
	return found
}

func runMapKeyQuote(rc *RuleCtx) {
	w := rc.W
	p, fd := w.findDecl("(*conv/p2j.BinaryConv).unmarshalMap")
	locals := localDefs(fd.Body)
	pc := w.constVals("proto", "INT32", "INT64", "SINT32", "SINT64", "SFIX32", "SFIX64", "UINT32", "UINT64", "FIX32", "FIX64", "BOOL", "STRING")
	var conds []*ast.IfStmt
	ast.Inspect(fd.Body, func(n ast.Node) bool {
		if is, ok := n.(*ast.IfStmt); ok && is.Else == nil && len(is.Body.List) == 1 && isQuoteAppend(p, is.Body.List[0]) {
			conds = append(conds, is)
		}
		return true
	})
	if len(conds) == 0 {
		broken("MAPKEYQUOTE: no quote-emitting `if` found in p2j.unmarshalMap (idiom changed: update the rule)")
	}
	names := []string{"INT32", "INT64", "SINT32", "SINT64", "SFIX32", "SFIX64", "UINT32", "UINT64", "FIX32", "FIX64", "BOOL"}
	// all quote conditions must be the same expression; evaluate the first, compare text of the rest
	first := types.ExprString(conds[0].Cond)
	for _, c := range conds[1:] {
		if types.ExprString(c.Cond) != first {
			rc.add(nil, "(*conv/p2j.BinaryConv).unmarshalMap", "quote-conditions-agree", c.Pos(), "violated", "the opening/closing quote of a map key are guarded by different conditions: "+first+" vs "+types.ExprString(c.Cond), true)
		}
	}
	subject := findSubject(p, conds[0].Cond, locals, "proto.Type", 0)
	if subject == "" {
		broken("MAPKEYQUOTE: cannot identify the key-kind expression in condition %s", first)
	}
	// boolean option selectors the condition depends on (free variables)
	var opts []string
	var collect func(e ast.Expr, d int)
	collect = func(e ast.Expr, d int) {
		if d > 6 {
			return
		}
		ast.Inspect(e, func(n ast.Node) bool {
			switch x := n.(type) {
			case *ast.SelectorExpr:
				if t := p.TypesInfo.TypeOf(x); t != nil && t.String() == "bool" && strings.Contains(types.ExprString(x), "opts.") {
					k := types.ExprString(x)
					dup := false
					for _, o := range opts {
						if o == k {
							dup = true
						}
					}
					if !dup {
						opts = append(opts, k)
					}
				}
			case *ast.Ident:
				if def, ok := locals[x.Name]; ok {
					collect(def, d+1)
				}
			}
			return true
		})
	}
	collect(conds[0].Cond, 0)
	// what the scalar encoder does for each kind: does its clause append a quote itself, and under which option?
	type selfQuote struct {
		always bool
		opt    string // quoted iff this option selector is true
	}
	scalar := map[string]selfQuote{}
	sp, sfd := w.findDecl("(*conv/p2j.BinaryConv).unmarshalSingular")
	for _, ks := range w.kindSwitches(5) {
		if ks.decl != sfd {
			continue
		}
		for _, cl := range ks.clauses {
			var sq selfQuote
			for _, st := range cl.body {
				if is, ok := st.(*ast.IfStmt); ok {
					inThen := false
					for _, b := range is.Body.List {
						if isQuoteAppend(sp, b) {
							inThen = true
						}
					}
					if inThen {
						sq.opt = types.ExprString(ast.Unparen(is.Cond))
						continue
					}
				}
				if isQuoteAppend(sp, st) {
					sq.always = true
				}
			}
			for _, l := range cl.labels {
				scalar[l.name] = sq
			}
		}
	}
	if len(scalar) < 10 {
		broken("MAPKEYQUOTE: kind switch of p2j.unmarshalSingular not found (%d labels)", len(scalar))
	}
	for _, sq := range scalar {
		if sq.opt != "" {
			dup := false
			for _, o := range opts {
				if o == sq.opt {
					dup = true
				}
			}
			if !dup {
				opts = append(opts, sq.opt)
			}
		}
	}
	sort.Strings(opts)
	rc.Notes["options"] = strings.Join(opts, ",")
	for _, n := range names {
		for mask := 0; mask < 1<<len(opts); mask++ {
			free := map[string]bool{}
			var desc []string
			for i, o := range opts {
				free[o] = mask&(1<<i) != 0
				desc = append(desc, fmt.Sprintf("%s=%v", o[strings.LastIndex(o, ".")+1:], free[o]))
			}
			pe := &predEval{w: w, subject: subject, val: pc[n], free: free}
			wrap, err := pe.evalBool(p, conds[0].Cond, locals)
			rc.Examined++
			if err != nil {
				broken("MAPKEYQUOTE: cannot evaluate quote condition for %s: %v", n, err)
			}
			sq := scalar[n]
			self := sq.always || (sq.opt != "" && free[sq.opt])
			good := wrap != self
			anchor := "quote(" + n + ")"
			if len(desc) > 0 {
				anchor += "[" + strings.Join(desc, ",") + "]"
			}
			detail := "key kind " + n + " is quoted exactly once"
			if !wrap && !self {
				detail = "map keys of kind " + n + " are emitted without quotes (condition `" + first + "` is false and the scalar encoder does not quote): invalid JSON"
			} else if wrap && self {
				detail = "map keys of kind " + n + " are quoted twice: by the map walker (condition `" + first + "`) and by the scalar encoder's own clause: `\"\"5\"\"` is invalid JSON"
			}
			rc.add(nil, "(*conv/p2j.BinaryConv).unmarshalMap", anchor, conds[0].Pos(), map[bool]string{true: "discharged", false: "violated"}[good], detail, true)
		}
	}
}

// ---- KINDTABLE ----

var specKinds = []struct {
	typ, kind string
	num       int64
	wire      string
}{
	{"DOUBLE", "DoubleKind", 1, "Fixed64Type"}, {"FLOAT", "FloatKind", 2, "Fixed32Type"}, {"INT64", "Int64Kind", 3, "VarintType"},
	{"UINT64", "Uint64Kind", 4, "VarintType"}, {"INT32", "Int32Kind", 5, "VarintType"}, {"FIX64", "Fixed64Kind", 6, "Fixed64Type"},
	{"FIX32", "Fixed32Kind", 7, "Fixed32Type"}, {"BOOL", "BoolKind", 8, "VarintType"}, {"STRING", "StringKind", 9, "BytesType"},
	{"GROUP", "GroupKind", 10, "StartGroupType"}, {"MESSAGE", "MessageKind", 11, "BytesType"}, {"BYTE", "BytesKind", 12, "BytesType"},
	{"UINT32", "Uint32Kind", 13, "VarintType"}, {"ENUM", "EnumKind", 14, "VarintType"}, {"SFIX32", "Sfixed32Kind", 15, "Fixed32Type"},
	{"SFIX64", "Sfixed64Kind", 16, "Fixed64Type"}, {"SINT32", "Sint32Kind", 17, "VarintType"}, {"SINT64", "Sint64Kind", 18, "VarintType"},
}

var specWire = map[string]int64{"VarintType": 0, "Fixed64Type": 1, "BytesType": 2, "StartGroupType": 3, "EndGroupType": 4, "Fixed32Type": 5}

func runKindTable(rc *RuleCtx) {
	w := rc.W
	pp := w.Pkg("proto")
	lookupConst := func(name string) (int64, token.Pos, bool) {
		c, ok := pp.Types.Scope().Lookup(name).(*types.Const)
		if !ok {
			return 0, token.NoPos, false
		}
		v, _ := constant.Int64Val(c.Val())
		return v, c.Pos(), true
	}
	check := func(anchor string, pos token.Pos, good bool, detail string) {
		rc.Examined++
		rc.add(nil, "proto.tables", anchor, pos, map[bool]string{true: "discharged", false: "violated"}[good], detail, true)
	}
	for n, want := range specWire {
		v, pos, ok := lookupConst(n)
		check("WireType."+n, pos, ok && v == want, fmt.Sprintf("%s = %d, spec %d", n, v, want))
	}
	for _, k := range specKinds {
		v, pos, ok := lookupConst(k.typ)
		check("Type."+k.typ, pos, ok && v == k.num, fmt.Sprintf("proto.%s = %d, spec %d", k.typ, v, k.num))
		v, pos, ok = lookupConst(k.kind)
		check("Kind."+k.kind, pos, ok && v == k.num, fmt.Sprintf("proto.%s = %d, spec %d", k.kind, v, k.num))
	}
	// LIST / MAP / UNKNOWN / ERROR must not collide with a kind number
	for _, n := range []string{"LIST", "MAP", "ERROR"} {
		v, pos, ok := lookupConst(n)
		check("Type."+n, pos, ok && (v > 18), fmt.Sprintf("proto.%s = %d must lie outside the kind range 1..18", n, v))
	}
	// composite literals Kind2Wire and builtinTypes
	for _, f := range pp.Syntax {
		for _, d := range f.Decls {
			gd, ok := d.(*ast.GenDecl)
			if !ok {
				continue
			}
			for _, sp := range gd.Specs {
				vs, ok := sp.(*ast.ValueSpec)
				if !ok || len(vs.Names) != 1 || len(vs.Values) != 1 {
					continue
				}
				cl, ok := vs.Values[0].(*ast.CompositeLit)
				if !ok {
					continue
				}
				switch vs.Names[0].Name {
				case "Kind2Wire":
					seen := map[int64]bool{}
					for _, el := range cl.Elts {
						kv := el.(*ast.KeyValueExpr)
						kt, vt := pp.TypesInfo.Types[kv.Key], pp.TypesInfo.Types[kv.Value]
						if kt.Value == nil || vt.Value == nil {
							check("Kind2Wire.?", kv.Pos(), false, "non-constant entry")
							continue
						}
						k, _ := constant.Int64Val(kt.Value)
						v, _ := constant.Int64Val(vt.Value)
						seen[k] = true
						want := int64(-1)
						name := "?"
						for _, sk := range specKinds {
							if sk.num == k {
								want, name = specWire[sk.wire], sk.kind
							}
						}
						check("Kind2Wire["+name+"]", kv.Pos(), v == want, fmt.Sprintf("Kind2Wire[%s] = %d, spec %d", name, v, want))
					}
					for _, sk := range specKinds {
						if !seen[sk.num] {
							check("Kind2Wire["+sk.kind+"]", cl.Pos(), false, "entry missing: lookups yield wire type 0 (varint)")
						}
					}
				case "builtinTypes":
					for _, el := range cl.Elts {
						kv := el.(*ast.KeyValueExpr)
						kt := pp.TypesInfo.Types[kv.Key]
						if kt.Value == nil {
							continue
						}
						k, _ := constant.Int64Val(kt.Value)
						// value: &TypeDescriptor{…, typ: X}
						var typVal int64 = -1
						ast.Inspect(kv.Value, func(n ast.Node) bool {
							if fkv, ok := n.(*ast.KeyValueExpr); ok {
								if id, ok := fkv.Key.(*ast.Ident); ok && id.Name == "typ" {
									if tv := pp.TypesInfo.Types[fkv.Value]; tv.Value != nil {
										typVal, _ = constant.Int64Val(tv.Value)
									}
								}
							}
							return true
						})
						check(fmt.Sprintf("builtinTypes[%s]", lastIdent(kv.Key)), kv.Pos(), typVal == k, fmt.Sprintf("descriptor type %d maps to proto.Type %d", k, typVal))
					}
				}
			}
		}
	}
	// predicates on proto.Type
	type pred struct {
		name string
		want func(sk string, num int64) (bool, bool) // (expected, applicable)
	}
	inSet := func(names ...string) func(string, int64) (bool, bool) {
		return func(sk string, _ int64) (bool, bool) {
			for _, n := range names {
				if n == sk {
					return true, true
				}
			}
			return false, true
		}
	}
	scalar := func(f func(string, int64) (bool, bool)) func(string, int64) (bool, bool) {
		return func(sk string, n int64) (bool, bool) {
			if sk == "LIST" || sk == "MAP" || sk == "GROUP" {
				return false, false
			}
			return f(sk, n)
		}
	}
	preds := []pred{
		{"NeedVarint", inSet("BOOL", "ENUM", "INT32", "SINT32", "UINT32", "INT64", "SINT64", "UINT64")},
		{"IsPacked", scalar(func(sk string, _ int64) (bool, bool) { return sk != "STRING" && sk != "BYTE" && sk != "MESSAGE", true })},
		{"IsInt", inSet("INT32", "INT64", "SFIX32", "SFIX64", "SINT64", "SINT32", "UINT32", "UINT64", "FIX32", "FIX64")},
		{"IsUint", inSet("UINT32", "UINT64", "FIX32", "FIX64")},
		{"IsComplex", inSet("MESSAGE", "MAP", "LIST")},
	}
	tnamed := w.namedType("proto", "Type")
	allTypes := map[string]int64{}
	for _, sk := range specKinds {
		allTypes[sk.typ] = sk.num
	}
	for _, n := range []string{"LIST", "MAP"} {
		v, _, _ := lookupConst(n)
		allTypes[n] = v
	}
	var tnames []string
	for n := range allTypes {
		tnames = append(tnames, n)
	}
	sort.Strings(tnames)
	for _, pr := range preds {
		var m *types.Func
		for i := 0; i < tnamed.NumMethods(); i++ {
			if tnamed.Method(i).Name() == pr.name {
				m = tnamed.Method(i)
			}
		}
		if m == nil {
			broken("KINDTABLE: proto.Type.%s does not resolve", pr.name)
		}
		for _, tn := range tnames {
			want, applicable := pr.want(tn, allTypes[tn])
			if !applicable {
				continue
			}
			pe := &predEval{w: w, subject: "<call>", val: allTypes[tn]}
			got, err := pe.callPredicate(m)
			if err != nil {
				if strings.Contains(err.Error(), "panics") {
					continue
				}
				broken("KINDTABLE: cannot evaluate proto.Type.%s(%s): %v", pr.name, tn, err)
			}
			check(pr.name+"("+tn+")", m.Pos(), got == want, fmt.Sprintf("%s(%s) = %v, spec %v", pr.name, tn, got, want))
		}
	}
}

// ---- SIGNCONV ----

func init() {
	register(&Rule{
		Name:    "SIGNCONV",
		Doc:     "in the protobuf->JSON converter, the value of an unsigned kind (UINT32, UINT64, FIX32, FIX64) reaches the text encoder as an unsigned quantity: walking back from the integer argument of the text encoder (json.Encode*/strconv.Append*/Format*) through its conversions, the value must be unsigned at its last width change (or at the encoder when the width never changes) — otherwise values >= 2^31 / 2^63 print as negative numbers",
		Configs: "NP",
		Floor:   map[string]int{"N": 3, "P": 3},
		Run:     runSignConv,
	})
}

func sameWidthUnsignedToSigned(from, to types.Type) bool {
	fb, ok1 := from.Underlying().(*types.Basic)
	tb, ok2 := to.Underlying().(*types.Basic)
	if !ok1 || !ok2 {
		return false
	}
	if fb.Info()&types.IsUnsigned == 0 || tb.Info()&types.IsInteger == 0 || tb.Info()&types.IsUnsigned != 0 {
		return false
	}
	return intWidth(fb) == intWidth(tb)
}

func runSignConv(rc *RuleCtx) {
	w := rc.W
	unsigned := map[string]bool{"UINT32": true, "UINT64": true, "FIX32": true, "FIX64": true}
	for _, ks := range w.kindSwitches(3) {
		if ks.tagType != "proto.Type" || !strings.HasPrefix(strings.TrimLeft(ks.fnName, "(*"), "conv/p2j") {
			continue
		}
		fn := w.FnOpt(ks.fnName)
		if fn == nil {
			continue
		}
		for ci, cl := range ks.clauses {
			all := len(cl.labels) > 0
			var names []string
			for _, l := range cl.labels {
				if !unsigned[l.name] {
					all = false
				}
				names = append(names, l.name)
			}
			if !all {
				continue
			}
			rc.Examined++
			// clause extent
			end := ks.sw.Body.Rbrace
			if ci+1 < len(ks.clauses) {
				end = ks.clauses[ci+1].pos
			}
			for _, cc := range ks.sw.Body.List {
				if cc.Pos() > cl.pos && cc.Pos() < end {
					end = cc.Pos()
				}
			}
			bad := ""
			var badPos token.Pos
			encoders := 0
			for _, b := range fn.Blocks {
				for _, ins := range b.Instrs {
					if ins.Pos() < cl.pos || ins.Pos() >= end {
						continue
					}
					c, ok := ins.(*ssaCall)
					if !ok {
						continue
					}
					cal := c.Call.StaticCallee()
					if cal == nil {
						continue
					}
					n := cal.Name()
					isEnc := (pkgRel(cal) == "internal/json" && strings.HasPrefix(n, "Encode")) ||
						(cal.Pkg != nil && cal.Pkg.Pkg.Path() == "strconv" && (strings.HasPrefix(n, "Append") || strings.HasPrefix(n, "Format")))
					if !isEnc {
						continue
					}
					for _, a := range c.Call.Args {
						if !isIntType(a.Type()) {
							continue
						}
						encoders++
						// signedness at the last width change, or at the encoder when the width never changes
						cur := a
						signedAt := a.Type().Underlying().(*types.Basic).Info()&types.IsUnsigned == 0
						for {
							cv, ok := cur.(*ssaConvert)
							if !ok {
								break
							}
							fb, ok1 := cv.X.Type().Underlying().(*types.Basic)
							tb, ok2 := cv.Type().Underlying().(*types.Basic)
							if !ok1 || !ok2 || fb.Info()&types.IsInteger == 0 {
								break
							}
							if intWidth(fb) != intWidth(tb) {
								signedAt = fb.Info()&types.IsUnsigned == 0
								break
							}
							cur = cv.X
						}
						if signedAt && bad == "" {
							bad = fmt.Sprintf("the value handed to %s is interpreted as a signed integer (argument chain ends in %s)", n, cur.Type())
							badPos = c.Pos()
						}
						break // only the first integer argument is the value (later ones are base/precision)
					}
				}
			}
			if encoders == 0 {
				continue
			}
			anchor := "case " + strings.Join(names, ",")
			if bad == "" {
				rc.add(nil, ks.fnName, anchor, cl.pos, "discharged", "no unsigned->signed same-width conversion on the way to the text encoder", true)
			} else {
				if !badPos.IsValid() {
					badPos = cl.pos
				}
				rc.add(nil, ks.fnName, anchor, badPos, "violated", "unsigned kind printed through a signed value: "+bad+" (values with the top bit set print negative)", true)
			}
		}
	}
}

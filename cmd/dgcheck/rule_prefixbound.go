package main

import (
	"go/token"

	"golang.org/x/tools/go/ssa"
)

// PREFIXBOUND: a length-delimited value is <varint length m><m bytes>. After the n-byte prefix has
// been decoded, m must be compared with what FOLLOWS the prefix — len(b[n:]) or len(b)-n. Comparing
// it with len(b) accepts values that are up to n bytes short; the slice that follows then reaches
// past the input (or panics when cap == len).
func init() {
	register(&Rule{
		Name:     "PREFIXBOUND",
		Doc:      "wherever the value m decoded by protowire.ConsumeVarint / BinaryDecoder.Decode{Uint,Int}{32,64} (with its byte count n) is compared with a length: the length is that of the input AFTER the prefix (`len(b[n:])` with the same n, or `len(b) - n`), never `len(b)` of the whole input",
		Configs:  "NP",
		Floor:    map[string]int{"N": 1, "P": 1},
		Controls: 1,
		Run:      runPrefixBound,
	})
}

func runPrefixBound(rc *RuleCtx) {
	for _, fn := range rc.W.Funcs {
		if fn.Blocks == nil {
			continue
		}
		for _, b := range fn.Blocks {
			for _, ins := range b.Instrs {
				call, ok := ins.(*ssa.Call)
				if !ok || call.Call.StaticCallee() == nil || call.Referrers() == nil {
					continue
				}
				// ConsumeVarint and the BinaryDecoder.Decode{Uint,Int}{32,64} wrappers: (value, n)
				if cn := call.Call.StaticCallee().Name(); cn != "ConsumeVarint" && cn != "DecodeUint64" && cn != "DecodeUint32" && cn != "DecodeInt64" && cn != "DecodeInt32" {
					continue
				}
				if pkgRel(call.Call.StaticCallee()) != "proto/protowire" {
					continue
				}
				var m, n *ssa.Extract
				for _, r := range *call.Referrers() {
					if ex, ok := r.(*ssa.Extract); ok {
						if ex.Index == 0 {
							m = ex
						} else if ex.Index == 1 {
							n = ex
						}
					}
				}
				if m == nil || n == nil || m.Referrers() == nil {
					continue
				}
				for _, r := range *m.Referrers() {
					bo, ok := r.(*ssa.BinOp)
					if !ok || (bo.Op != token.GTR && bo.Op != token.GEQ && bo.Op != token.LSS && bo.Op != token.LEQ) {
						continue
					}
					other := bo.Y
					if bo.Y == m {
						other = bo.X
					}
					if !mentionsLen(other, 0) {
						continue
					}
					rc.Examined++
					good := lenAfterPrefix(other, n, 0)
					rc.verdict(good, fn, "length vs input", bo.Pos(), map[bool]string{
						true:  "the decoded length is compared with the bytes that follow the prefix",
						false: "the decoded length is compared with the length of the WHOLE input, prefix included: a value that is up to n bytes short passes, and the slice that follows reaches past the input"}[good], true)
				}
			}
		}
	}
}

// lenAfterPrefix: v is len(<slice of the input from n>) or len(input) - n (through conversions).
func lenAfterPrefix(v ssa.Value, n ssa.Value, d int) bool {
	if v == nil || d > 5 {
		return false
	}
	switch x := v.(type) {
	case *ssa.Convert:
		return lenAfterPrefix(x.X, n, d+1)
	case *ssa.Call:
		if bi, ok := x.Call.Value.(*ssa.Builtin); ok && bi.Name() == "len" && len(x.Call.Args) == 1 {
			if sl, ok := x.Call.Args[0].(*ssa.Slice); ok && sl.Low != nil {
				return sl.Low == n || convRoot(sl.Low) == n
			}
		}
	case *ssa.BinOp:
		if x.Op == token.SUB && mentionsLen(x.X, 0) {
			return x.Y == n || convRoot(x.Y) == n
		}
	}
	return false
}

func convRoot(v ssa.Value) ssa.Value {
	for {
		if c, ok := v.(*ssa.Convert); ok {
			v = c.X
			continue
		}
		return v
	}
}

package main

import (
	"go/ast"
	"go/types"
	"strings"
)

// LISTORDER: the order in which a field's HTTP sources are listed in the IDL is semantic — the
// first source that has a value wins. A pre-processing step that walks the annotation list and
// splits it into two classes must put every result where its origin stood; appending one class in
// the walk and the other class in a SECOND loop afterwards moves all members of that class to the
// end (api.body was always tried last that way).
func init() {
	register(&Rule{
		Name:     "LISTORDER",
		Doc:      "in every function of package thrift that takes the field's annotation list (a parser.Annotations / []*parser.Annotation parameter) and builds a result slice from it: every `append` to a slice that is appended inside the loop ranging over that parameter happens inside such a loop — a slice filled partly in the walk over the input and partly by a later, separate loop does not keep the listed order",
		Configs:  "NP",
		Floor:    map[string]int{"N": 1, "P": 1},
		Controls: 1,
		Run:      runListOrder,
	})
}

func runListOrder(rc *RuleCtx) {
	for _, p := range rc.W.Pkgs {
		rel := strings.TrimPrefix(strings.TrimPrefix(p.PkgPath, modPath), "/")
		if rel != "thrift" {
			continue
		}
		info := p.TypesInfo
		for _, f := range p.Syntax {
			for _, d := range f.Decls {
				fd, ok := d.(*ast.FuncDecl)
				if !ok || fd.Body == nil {
					continue
				}
				// annotation-list parameters
				params := map[types.Object]bool{}
				for _, fl := range fd.Type.Params.List {
					for _, id := range fl.Names {
						o := info.Defs[id]
						if o == nil {
							continue
						}
						ts := o.Type().String()
						if strings.HasSuffix(ts, "parser.Annotations") || strings.HasSuffix(ts, "[]*github.com/cloudwego/thriftgo/parser.Annotation") {
							params[o] = true
						}
					}
				}
				if len(params) == 0 {
					continue
				}
				name := declName(rel, fd)
				// appends: target object -> inside a range over the parameter?
				type site struct {
					pos    ast.Node
					inWalk bool
				}
				sites := map[types.Object][]site{}
				var walk func(n ast.Node, inWalk bool)
				walk = func(n ast.Node, inWalk bool) {
					ast.Inspect(n, func(x ast.Node) bool {
						switch s := x.(type) {
						case *ast.RangeStmt:
							if id, ok := ast.Unparen(s.X).(*ast.Ident); ok && params[info.Uses[id]] {
								walk(s.Body, true)
								return false
							}
						case *ast.AssignStmt:
							if len(s.Lhs) == 1 && len(s.Rhs) == 1 {
								if ce, ok := s.Rhs[0].(*ast.CallExpr); ok {
									if fid, ok := ce.Fun.(*ast.Ident); ok && fid.Name == "append" && len(ce.Args) >= 1 {
										if lid, ok := s.Lhs[0].(*ast.Ident); ok {
											if o := info.Uses[lid]; o != nil {
												sites[o] = append(sites[o], site{s, inWalk})
											}
										}
									}
								}
							}
						}
						return true
					})
				}
				walk(fd.Body, false)
				for o, ss := range sites {
					in, out := 0, 0
					var first ast.Node
					for _, s := range ss {
						if s.inWalk {
							in++
						} else {
							out++
							if first == nil {
								first = s.pos
							}
						}
					}
					if in == 0 {
						continue
					}
					rc.Examined++
					good := out == 0
					pos := ss[0].pos
					if first != nil {
						pos = first
					}
					rc.add(nil, name, "result slice "+o.Name(), pos.Pos(), map[bool]string{true: "discharged", false: "violated"}[good],
						map[bool]string{true: "the slice is filled only while walking the annotation list", false: "`" + o.Name() + "` is appended both inside the walk over the annotation list and by a separate statement outside it: the listed order of the annotations (which HTTP source is tried first) is not kept"}[good], true)
				}
			}
		}
	}
}

package main

import (
	"go/ast"
	"go/types"
	"strings"
)

// UNSIGNEDWIDEN: the protobuf kinds uint32 and fixed32 are UNSIGNED 32-bit numbers. Inside a
// type-switch clause that handles only those kinds, widening a *signed* 32-bit value (int32 — the
// carrier some Read*/Decode* helpers use) to a wider integer sign-extends: 0xfffffff0 becomes
// -16, map keys >= 2^31 are never found and print negative. The value has to pass through
// uint32 first.
func init() {
	register(&Rule{
		Name:     "UNSIGNEDWIDEN",
		Doc:      "in every kind-switch clause whose labels are only unsigned 32-bit kinds (UINT32, FIX32/FIXED32, Uint32Kind, Fixed32Kind) no conversion widens a signed 32-bit operand (static type int32) directly to a wider integer or float type: `int(n)` with n int32 sign-extends values >= 2^31; `int(uint32(n))` is the accepted form; mirror clause for thrift's signed I16 / I32: in a clause for that label only, no uint16 / uint32 operand (what BigEndian.Uint16/32 return) is widened directly to a wider integer",
		Configs:  "NP",
		Floor:    map[string]int{"N": 6, "P": 6},
		Controls: 1,
		Run:      runUnsignedWiden,
	})
}

func runUnsignedWiden(rc *RuleCtx) {
	unsigned32 := map[string]bool{"UINT32": true, "FIX32": true, "FIXED32": true, "Uint32Kind": true, "Fixed32Kind": true}
	runSignedWiden(rc)
	for _, ks := range rc.W.kindSwitches(2) {
		info := ks.pkg.TypesInfo
		for _, cl := range ks.clauses {
			if len(cl.labels) == 0 {
				continue
			}
			all := true
			var names []string
			for _, l := range cl.labels {
				names = append(names, l.name)
				if !unsigned32[l.name] {
					all = false
				}
			}
			if !all {
				continue
			}
			rc.Examined++
			anchor := "case " + strings.Join(names, ",")
			bad := false
			for _, st := range cl.body {
				ast.Inspect(st, func(n ast.Node) bool {
					ce, ok := n.(*ast.CallExpr)
					if !ok || len(ce.Args) != 1 {
						return true
					}
					tv, ok := info.Types[ce.Fun]
					if !ok || !tv.IsType() {
						return true
					}
					to, ok1 := tv.Type.Underlying().(*types.Basic)
					at := info.TypeOf(ce.Args[0])
					if at == nil {
						return true
					}
					from, ok2 := at.Underlying().(*types.Basic)
					if !ok1 || !ok2 || from.Kind() != types.Int32 {
						return true
					}
					wider := false
					switch to.Kind() {
					case types.Int, types.Int64, types.Uint, types.Uint64, types.Uintptr, types.Float64, types.Float32:
						wider = true
					}
					if wider {
						bad = true
						rc.add(nil, ks.fnName, anchor, ce.Pos(), "violated", "`"+types.ExprString(ce)+"` widens a signed int32 inside a clause for unsigned 32-bit kinds: values >= 2^31 are sign-extended; convert through uint32 first", true)
					}
					return true
				})
			}
			if !bad {
				rc.add(nil, ks.fnName, anchor, cl.pos, "discharged", "no signed 32-bit value is widened directly in this unsigned clause", false)
			}
		}
	}
}

// runSignedWiden: the mirror clause for thrift's signed i16 / i32: inside a clause for I16 (I32)
// only, an unsigned 16-bit (32-bit) value — what binary.BigEndian.Uint16/Uint32 return — is not
// widened directly to a wider integer: -1 would come back as 65535 (4294967295). (thrift's BYTE is
// deliberately left out: the library presents it as unsigned throughout.)
func runSignedWiden(rc *RuleCtx) {
	want := map[string]types.BasicKind{"I16": types.Uint16, "I32": types.Uint32}
	for _, ks := range rc.W.kindSwitches(2) {
		if !strings.HasSuffix(ks.tagType, "thrift.Type") {
			continue
		}
		info := ks.pkg.TypesInfo
		for _, cl := range ks.clauses {
			if len(cl.labels) != 1 {
				continue
			}
			src, ok := want[cl.labels[0].name]
			if !ok {
				continue
			}
			rc.Examined++
			anchor := "case " + cl.labels[0].name
			bad := false
			for _, st := range cl.body {
				ast.Inspect(st, func(n ast.Node) bool {
					ce, ok := n.(*ast.CallExpr)
					if !ok || len(ce.Args) != 1 {
						return true
					}
					tv, ok := info.Types[ce.Fun]
					if !ok || !tv.IsType() {
						return true
					}
					to, ok1 := tv.Type.Underlying().(*types.Basic)
					at := info.TypeOf(ce.Args[0])
					if at == nil {
						return true
					}
					from, ok2 := at.Underlying().(*types.Basic)
					if !ok1 || !ok2 || from.Kind() != src {
						return true
					}
					if atv, ok := info.Types[ce.Args[0]]; ok && atv.Value != nil {
						return true
					}
					switch to.Kind() {
					case types.Int, types.Int64, types.Uint, types.Uint64, types.Float64:
						bad = true
						rc.add(nil, ks.fnName, anchor, ce.Pos(), "violated", "`"+types.ExprString(ce)+"` widens an unsigned "+from.Name()+" inside a clause for thrift's signed "+cl.labels[0].name+": negative values come back as large positive ones; convert through the signed type of the same width first", true)
					}
					return true
				})
			}
			if !bad {
				rc.add(nil, ks.fnName, anchor, cl.pos, "discharged", "no unsigned value of the label's width is widened directly in this signed clause", false)
			}
		}
	}
}

package main

import (
	"golang.org/x/tools/go/ssa"
)

func init() {
	register(&Rule{
		Name: "ERRSWALLOW",
		Doc: "an error result that is only ever tested against nil (never returned, stored, wrapped or passed on) must not let its non-nil branch reach a success return of the enclosing function: " +
			"the failure would be reported as success. Accepted idiom: try-next-source loops whose non-nil edge stays inside the loop",
		Configs:  "NP",
		Floor:    map[string]int{"N": 5, "P": 5},
		Controls: 1,
		Run:      runErrSwallow,
	})
}

func runErrSwallow(rc *RuleCtx) {
	w := rc.W
	ec := w.EC()
	for _, fn := range w.Funcs {
		ei := errIndex(fn.Signature)
		if ei < 0 || fn.Blocks == nil {
			continue
		}
		for _, b := range fn.Blocks {
			for _, ins := range b.Instrs {
				call, ok := ins.(*ssa.Call)
				if !ok {
					continue
				}
				ev := errValueOf(call)
				if ev == nil || len(*ev.Referrers()) == 0 {
					continue
				}
				// only tested?
				onlyTested := true
				var ifs []*ssa.If
				for _, r := range *ev.Referrers() {
					bo, ok := r.(*ssa.BinOp)
					if !ok {
						onlyTested = false
						break
					}
					for _, rr := range *bo.Referrers() {
						if iff, ok := rr.(*ssa.If); ok {
							ifs = append(ifs, iff)
						} else {
							onlyTested = false
						}
					}
				}
				if !onlyTested || len(ifs) == 0 {
					continue
				}
				rc.Examined++
				name := calleeShort(call)
				if name == "" {
					name = "<dynamic>"
				}
				if !w.calleeMayFail(call) {
					rc.ok(fn, name, call.Pos(), "callee cannot fail", false)
					continue
				}
				var bad *mpResult
				for _, iff := range ifs {
					_, nilOnTrue, ok := nilTest(iff.Cond)
					if !ok {
						continue
					}
					fail := iff.Block().Succs[0]
					if nilOnTrue {
						fail = iff.Block().Succs[1]
					}
					// from the failure edge: reach a success return?
					seen := map[*ssa.BasicBlock]bool{}
					var dfs func(x, from *ssa.BasicBlock, path []*ssa.BasicBlock) *mpResult
					dfs = func(x, from *ssa.BasicBlock, path []*ssa.BasicBlock) *mpResult {
						if seen[x] {
							return nil
						}
						seen[x] = true
						path = append(path, x)
						if ret, ok := lastInstr(x).(*ssa.Return); ok {
							if ec.nonNil(ret.Results[ei], from, map[ssa.Value]bool{}) {
								return nil
							}
							// a return of another (possibly nil) error variable counts as success only when it is the nil constant
							// or a phi resolving to nil on this edge
							if !certainNil(ret.Results[ei], from) {
								return nil
							}
							return &mpResult{path: append([]*ssa.BasicBlock{}, path...), exit: x, at: ret}
						}
						if _, ok := lastInstr(x).(*ssa.Panic); ok {
							return nil
						}
						for _, s := range x.Succs {
							if r := dfs(s, x, path); r != nil {
								return r
							}
						}
						return nil
					}
					// the accepted idiom: failure edge re-enters a loop header that dominates the test (try next)
					if r := dfs(fail, iff.Block(), nil); r != nil {
						loopRetry := false
						for _, l := range naturalLoops(fn) {
							if l.blocks[iff.Block()] && l.blocks[fail] {
								// failure stays in the loop: try-next idiom
								loopRetry = true
							}
						}
						if !loopRetry {
							bad = r
						}
					}
				}
				if bad != nil {
					o := rc.bad(fn, name, call.Pos(), "error of "+name+" is tested but never propagated, and its failure branch reaches `return nil` at "+w.relPos(instrPos(bad.at)))
					o.Path = w.pathStrings(bad)
				} else {
					rc.ok(fn, name, call.Pos(), "failure branch cannot reach a success return (or retries the next source)", true)
				}
			}
		}
	}
}

// certainNil: v is the nil constant (possibly through a phi resolved by the incoming edge).
func certainNil(v ssa.Value, from *ssa.BasicBlock) bool {
	if isNilConst(v) {
		return true
	}
	if ph, ok := v.(*ssa.Phi); ok && from != nil {
		for i, p := range ph.Block().Preds {
			if p == from {
				return isNilConst(ph.Edges[i])
			}
		}
	}
	return false
}

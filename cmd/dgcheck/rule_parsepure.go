package main

import (
	"go/token"
	"go/types"
	"strings"

	"golang.org/x/tools/go/ssa"
)

// PARSEPURE: a descriptor is a function of the IDL it was parsed from. An IDL parser that stores
// into package-level state (a memo of compiled messages that outlives the call, a "last parsed"
// variable) makes the result of one parse depend on the files parsed before it: the second file
// that declares `pb3.Msg` silently gets the fields of the first.
func init() {
	register(&Rule{
		Name:     "PARSEPURE",
		Doc:      "no function reachable (VTA call graph) from an IDL parse entry point (exported `NewDes…` functions/methods of packages thrift and proto) stores to, or updates a map held in, a package-level variable of the repository: descriptors depend on the parsed files only, never on earlier parses",
		Configs:  "N",
		VTA:      true,
		Floor:    map[string]int{"N": 5},
		Controls: 1,
		Run:      runParsePure,
	})
}

func runParsePure(rc *RuleCtx) {
	w := rc.W
	cg := w.VTA()
	parent := map[*ssa.Function]*ssa.Function{}
	var q []*ssa.Function
	nroots := 0
	for _, fn := range w.Funcs {
		if fn.Parent() != nil || fn.Object() == nil {
			continue
		}
		pr := pkgRel(fn)
		isCtl := w.isControlFn(fn) && strings.HasPrefix(fn.Name(), "zzControlParseEntry")
		if !isCtl && !((pr == "thrift" || pr == "proto") && fn.Object().Exported() && strings.HasPrefix(fn.Name(), "NewDes")) {
			continue
		}
		nroots++
		parent[fn] = nil
		q = append(q, fn)
	}
	rc.Stats["parse_entries"] = nroots
	rc.Examined += nroots
	for len(q) > 0 {
		f := q[0]
		q = q[1:]
		if n := cg.Nodes[f]; n != nil {
			for _, e := range n.Out {
				g := e.Callee.Func
				if g.Name() == "init" || strings.HasPrefix(g.Name(), "init#") {
					continue
				}
				if _, ok := parent[g]; !ok {
					parent[g] = f
					q = append(q, g)
				}
			}
		}
		for _, a := range f.AnonFuncs {
			if _, ok := parent[a]; !ok {
				parent[a] = f
				q = append(q, a)
			}
		}
	}
	rc.Stats["reachable_from_parse"] = len(parent)
	nsites := 0
	for fn := range parent {
		if fn.Pkg == nil || !inRepo(fn.Pkg.Pkg.Path()) && fn.Parent() == nil {
			continue
		}
		root := fn
		for root.Parent() != nil {
			root = root.Parent()
		}
		if root.Pkg == nil || !inRepo(root.Pkg.Pkg.Path()) {
			continue
		}
		for _, b := range fn.Blocks {
			for _, ins := range b.Instrs {
				var addr ssa.Value
				switch x := ins.(type) {
				case *ssa.Store:
					addr = x.Addr
				case *ssa.MapUpdate:
					addr = x.Map
				default:
					continue
				}
				_, g := storeTarget(addr)
				if g == nil || g.Pkg == nil || !inRepo(g.Pkg.Pkg.Path()) {
					continue
				}
				if !w.isControlFn(fn) {
					nsites++
				}
				var chain []string
				for f := fn; f != nil && len(chain) < 12; f = parent[f] {
					chain = append(chain, shortName(f))
				}
				o := rc.bad(fn, "store "+g.Name(), ins.Pos(), "package-level variable "+g.Pkg.Pkg.Name()+"."+g.Name()+" is written while parsing an IDL: a later parse can observe what an earlier one left there")
				o.Path = chain
			}
		}
	}
	// a package-level map handed to a callee that updates it (the memo is passed down as a parameter)
	mut := map[*ssa.Function]map[int]bool{}
	for changed := true; changed; {
		changed = false
		for _, fn := range w.Funcs {
			if fn.Blocks == nil {
				continue
			}
			for i, p := range fn.Params {
				if mut[fn][i] {
					continue
				}
				if _, isMap := p.Type().Underlying().(*types.Map); !isMap {
					continue
				}
				hit := false
				for _, r := range *p.Referrers() {
					switch x := r.(type) {
					case *ssa.MapUpdate:
						if x.Map == p {
							hit = true
						}
					case ssa.CallInstruction:
						if cal := x.Common().StaticCallee(); cal != nil {
							for ai, a := range x.Common().Args {
								if a == p && mut[cal][ai] {
									hit = true
								}
							}
						}
					}
				}
				if hit {
					if mut[fn] == nil {
						mut[fn] = map[int]bool{}
					}
					mut[fn][i] = true
					changed = true
				}
			}
		}
	}
	for fn := range parent {
		root := fn
		for root.Parent() != nil {
			root = root.Parent()
		}
		if root.Pkg == nil || !inRepo(root.Pkg.Pkg.Path()) {
			continue
		}
		for _, b := range fn.Blocks {
			for _, ins := range b.Instrs {
				c, ok := ins.(ssa.CallInstruction)
				if !ok {
					continue
				}
				cal := c.Common().StaticCallee()
				if cal == nil {
					continue
				}
				for ai, a := range c.Common().Args {
					if !mut[cal][ai] {
						continue
					}
					ld, ok := a.(*ssa.UnOp)
					if !ok {
						continue
					}
					g, ok := ld.X.(*ssa.Global)
					if !ok || g.Pkg == nil || !inRepo(g.Pkg.Pkg.Path()) {
						continue
					}
					if !w.isControlFn(fn) {
						nsites++
					}
					rc.bad(fn, "global map "+g.Name()+" -> "+cal.Name(), ins.Pos(), "the package-level map "+g.Pkg.Pkg.Name()+"."+g.Name()+" is handed to "+cal.Name()+", which stores into it, while parsing an IDL: a later parse can observe what an earlier one left there")
				}
			}
		}
	}
	if nsites == 0 {
		rc.add(nil, "IDL parse entry points", "no global store", token.NoPos, "discharged", "no store to a package-level variable is reachable from the parse entry points", true)
	}
}

package main

import "golang.org/x/tools/go/ssa"

type (
	ssaFuncT   = ssa.Function
	ssaConvert = ssa.Convert
	ssaCall    = ssa.Call
)

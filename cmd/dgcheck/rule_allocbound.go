package main

import (
	"go/token"
	"go/types"
	"sort"
	"strings"

	"golang.org/x/tools/go/ssa"
)

func init() {
	register(&Rule{
		Name: "ALLOCBOUND",
		Doc: "an element count read from the input (size result of thrift Read{List,Set,Map}Begin, raw DecodeInt32 of a container header, fields/getters fed by them) never sizes an allocation " +
			"(make len/cap, map size hint, guardPathNodeSlice, GuardSlice, Growslice) unless a dominating comparison bounds it by the remaining input (len(Buf), Left(), Node length) — either at the sink or inside the source function on every success return",
		Configs:  "NP",
		Floor:    map[string]int{"N": 110, "P": 100},
		Controls: 1,
		Run:      runAllocBound,
	})
}

// primary count sources: callee -> result indexes
var countSources = map[string][]int{
	"(*thrift.BinaryProtocol).ReadListBegin": {1},
	"(*thrift.BinaryProtocol).ReadSetBegin":  {1},
	"(*thrift.BinaryProtocol).ReadMapBegin":  {2},
}

type fieldKey struct{ typ, name string }

type allocAnalysis struct {
	w             *World
	srcIdx        map[*ssa.Function]map[int]bool // function result index carries an input count
	bounded       map[*ssa.Function]map[int]bool // ... and is bounded by the remaining input inside
	taintedFields map[fieldKey]int
}

// remainingDerived: v is computed from the remaining-input length.
func remainingDerived(v ssa.Value, d int) bool {
	if d > 8 || v == nil {
		return false
	}
	switch x := v.(type) {
	case *ssa.Call:
		if b, ok := x.Call.Value.(*ssa.Builtin); ok && b.Name() == "len" {
			return true // length of an in-memory buffer: allocation bounded by existing memory
		}
		if cal := x.Call.StaticCallee(); cal != nil && cal.Name() == "Left" {
			return true
		}
	case *ssa.BinOp:
		return remainingDerived(x.X, d+1) || remainingDerived(x.Y, d+1)
	case *ssa.Convert:
		return remainingDerived(x.X, d+1)
	case *ssa.ChangeType:
		return remainingDerived(x.X, d+1)
	case *ssa.Phi:
		for _, e := range x.Edges {
			if remainingDerived(e, d+1) {
				return true
			}
		}
	case *ssa.UnOp:
		if x.Op == token.MUL {
			if _, n, ok := fieldNameOf(x.X); ok && (n == "l" || n == "Len") {
				return true
			}
		}
	case *ssa.Field:
		if _, n, ok := fieldNameOf(x); ok && (n == "l" || n == "Len") {
			return true
		}
	}
	return false
}

// sameValueUpToConv: a is v possibly through conversions / scaling by constants.
func derivesFromVal(a, v ssa.Value, d int) bool {
	if a == v {
		return true
	}
	if d > 6 {
		return false
	}
	switch x := a.(type) {
	case *ssa.Convert:
		return derivesFromVal(x.X, v, d+1)
	case *ssa.ChangeType:
		return derivesFromVal(x.X, v, d+1)
	case *ssa.BinOp:
		if x.Op == token.MUL || x.Op == token.ADD || x.Op == token.SHL {
			return derivesFromVal(x.X, v, d+1) || derivesFromVal(x.Y, v, d+1)
		}
	}
	// v itself may be a conversion of what is compared: compare roots
	if c, ok := v.(*ssa.Convert); ok {
		return derivesFromVal(a, c.X, d+1)
	}
	return false
}

// boundedAt: block b is dominated by the "count is small" edge of a comparison between (something
// derived from) v and a remaining-input expression.
func boundedAt(fn *ssa.Function, v ssa.Value, b *ssa.BasicBlock) bool {
	for _, blk := range fn.Blocks {
		iff, ok := lastInstr(blk).(*ssa.If)
		if !ok {
			continue
		}
		k, neg := condKey(iff.Cond)
		bo, ok := k.(*ssa.BinOp)
		if !ok {
			continue
		}
		var vLeft bool
		switch {
		case derivesFromVal(bo.X, v, 0) && remainingDerived(bo.Y, 0):
			vLeft = true
		case derivesFromVal(bo.Y, v, 0) && remainingDerived(bo.X, 0):
			vLeft = false
		default:
			continue
		}
		var smallOnTrue bool
		switch bo.Op {
		case token.GTR, token.GEQ:
			smallOnTrue = !vLeft
		case token.LSS, token.LEQ:
			smallOnTrue = vLeft
		default:
			continue
		}
		if neg {
			smallOnTrue = !smallOnTrue
		}
		safe := blk.Succs[1]
		if smallOnTrue {
			safe = blk.Succs[0]
		}
		if edgeRegion(safe)[b] {
			return true
		}
	}
	return false
}

// level: 0 = not a count, 1 = count bounded by the remaining input at its source, 2 = unbounded count
func (a *allocAnalysis) callLevel(c *ssa.Call, idx int) (int, string) {
	cal := c.Call.StaticCallee()
	if cal == nil || !a.srcIdx[cal][idx] {
		return 0, ""
	}
	if a.bounded[cal][idx] {
		return 1, shortName(cal)
	}
	return 2, shortName(cal)
}

// count classifies v. arith=true also follows + * << - (for sinks); arith=false follows only
// conversions and phis (for field/return propagation, so that cursor positions such as
// p.Read += size are not mistaken for counts).
func (a *allocAnalysis) count(v ssa.Value, arith bool, seen map[ssa.Value]bool) (int, string) {
	if v == nil || seen[v] {
		return 0, ""
	}
	seen[v] = true
	best, origin := 0, ""
	merge := func(l int, o string) {
		if l > best {
			best, origin = l, o
		}
	}
	switch x := v.(type) {
	case *ssa.Call:
		if x.Call.Signature().Results().Len() == 1 {
			merge(a.callLevel(x, 0))
		}
	case *ssa.Extract:
		if c, ok := x.Tuple.(*ssa.Call); ok {
			merge(a.callLevel(c, x.Index))
		}
	case *ssa.Convert:
		merge(a.count(x.X, arith, seen))
	case *ssa.ChangeType:
		merge(a.count(x.X, arith, seen))
	case *ssa.BinOp:
		if arith {
			switch x.Op {
			case token.ADD, token.MUL, token.SHL, token.SUB:
				merge(a.count(x.X, arith, seen))
				merge(a.count(x.Y, arith, seen))
			}
		}
	case *ssa.Phi:
		for _, e := range x.Edges {
			merge(a.count(e, arith, seen))
		}
	case *ssa.UnOp:
		if x.Op == token.MUL {
			if t, n, ok := fieldNameOf(x.X); ok {
				if l := a.taintedFields[fieldKey{typeShort(t), n}]; l > 0 {
					merge(l, "field "+typeShort(t)+"."+n)
				}
			}
		}
	case *ssa.Field:
		if t, n, ok := fieldNameOf(x); ok {
			if l := a.taintedFields[fieldKey{typeShort(t), n}]; l > 0 {
				merge(l, "field "+typeShort(t)+"."+n)
			}
		}
	}
	return best, origin
}

func isIntType(t types.Type) bool {
	bt, ok := t.Underlying().(*types.Basic)
	return ok && bt.Info()&types.IsInteger != 0
}

func runAllocBound(rc *RuleCtx) {
	w := rc.W
	a := &allocAnalysis{w: w, srcIdx: map[*ssa.Function]map[int]bool{}, bounded: map[*ssa.Function]map[int]bool{}, taintedFields: map[fieldKey]int{}}
	// primary sources and whether they bound their result themselves
	for name, idxs := range countSources {
		fn := w.Fn(name)
		a.srcIdx[fn] = map[int]bool{}
		a.bounded[fn] = map[int]bool{}
		for _, i := range idxs {
			a.srcIdx[fn][i] = true
			ok := true
			nret := 0
			ei := errIndex(fn.Signature)
			for _, b := range fn.Blocks {
				ret, isRet := lastInstr(b).(*ssa.Return)
				if !isRet {
					continue
				}
				if ei >= 0 && w.EC().nonNil(ret.Results[ei], nil, map[ssa.Value]bool{}) {
					continue
				}
				rv := ret.Results[i]
				if c, isC := rv.(*ssa.Const); isC && c.Value != nil {
					continue
				}
				nret++
				if !boundedAt(fn, rv, b) {
					ok = false
				}
			}
			a.bounded[fn][i] = ok && nret > 0
			rc.Notes["source "+name] = map[bool]string{true: "bounds its count by the remaining input", false: "returns an unbounded count"}[a.bounded[fn][i]]
		}
	}
	// raw header decodes in iterators: DecodeInt32 result stored directly into a field named size
	// is covered by field propagation below (source: BinaryEncoding.DecodeInt32 is NOT a generic
	// source — it also decodes values); we treat a Store of any int32-decoded value into a field
	// literally named "size" of an iterator as a count.
	// positive-control source (overlay fixture only)
	for _, fn := range w.Funcs {
		if w.isControlFn(fn) && fn.Name() == "zzControlCountSource" {
			a.srcIdx[fn] = map[int]bool{0: true}
			a.bounded[fn] = map[int]bool{}
		}
	}
	changed := true
	for changed {
		changed = false
		for _, fn := range w.Funcs {
			if w.isControlFn(fn) && fn.Name() == "zzControlCountSource" {
				continue
			}
			for _, b := range fn.Blocks {
				for _, ins := range b.Instrs {
					switch x := ins.(type) {
					case *ssa.Store:
						if t, n, ok := fieldNameOf(x.Addr); ok && isIntType(x.Val.Type()) {
							k := fieldKey{typeShort(t), n}
							l, _ := a.count(x.Val, false, map[ssa.Value]bool{})
							if l == 2 && boundedAt(fn, x.Val, b) {
								l = 1
							}
							if l > a.taintedFields[k] {
								a.taintedFields[k] = l
								changed = true
							}
						}
					case *ssa.Return:
						if countSources[shortName(fn)] != nil {
							continue
						}
						for i, rv := range x.Results {
							if !isIntType(rv.Type()) {
								continue
							}
							l, _ := a.count(rv, false, map[ssa.Value]bool{})
							if l == 0 {
								continue
							}
							if l == 2 && boundedAt(fn, rv, b) {
								l = 1
							}
							if a.srcIdx[fn] == nil {
								a.srcIdx[fn] = map[int]bool{}
								a.bounded[fn] = map[int]bool{}
							}
							if !a.srcIdx[fn][i] {
								a.srcIdx[fn][i] = true
								a.bounded[fn][i] = l == 1
								changed = true
							} else if l == 2 && a.bounded[fn][i] {
								a.bounded[fn][i] = false
								changed = true
							}
						}
					}
				}
			}
		}
	}
	var tf []string
	for k, l := range a.taintedFields {
		tf = append(tf, k.typ+"."+k.name+map[int]string{1: "(bounded)", 2: "(UNBOUNDED)"}[l])
	}
	sort.Strings(tf)
	rc.Notes["count_fields"] = strings.Join(tf, ",")
	var sf []string
	for f, m := range a.srcIdx {
		for i := range m {
			sf = append(sf, shortName(f)+map[bool]string{true: "(bounded)", false: "(UNBOUNDED)"}[a.bounded[f][i]])
		}
	}
	sort.Strings(sf)
	rc.Notes["count_functions"] = strings.Join(sf, ",")
	// the primary sources themselves are obligations: each must bound its count
	for name, idxs := range countSources {
		fn := w.Fn(name)
		for _, i := range idxs {
			rc.verdict(true, fn, "count-source", fn.Pos(), map[bool]string{true: "every success return carries a count compared against the remaining input", false: "returns an input count without bounding it (callers are checked individually)"}[a.bounded[fn][i]], true)
		}
	}
	// sinks
	for _, fn := range w.Funcs {
		for _, b := range fn.Blocks {
			for _, ins := range b.Instrs {
				var args []ssa.Value
				sink := ""
				switch x := ins.(type) {
				case *ssa.MakeSlice:
					args, sink = []ssa.Value{x.Len, x.Cap}, "make([]T)"
				case *ssa.MakeMap:
					if x.Reserve != nil {
						args, sink = []ssa.Value{x.Reserve}, "make(map)"
					}
				case *ssa.Call:
					if cal := x.Call.StaticCallee(); cal != nil && len(x.Call.Args) > 1 {
						switch cal.Name() {
						case "guardPathNodeSlice", "GuardSlice", "GuardSlice2", "Growslice":
							if inRepo(pkgPathOf(cal)) {
								args, sink = x.Call.Args[1:], cal.Name()
							}
						}
					}
				}
				if sink == "" {
					continue
				}
				rc.Examined++
				origin, level := "", 0
				var av ssa.Value
				for _, arg := range args {
					if !isIntType(arg.Type()) {
						continue
					}
					if l, o := a.count(arg, true, map[ssa.Value]bool{}); l > level {
						origin, av, level = o, arg, l
					}
				}
				if level == 0 {
					continue
				}
				if level == 1 {
					rc.ok(fn, sink, ins.Pos(), "count from "+origin+" is bounded by the remaining input at its source", true)
					continue
				}
				if boundedAt(fn, av, b) {
					rc.ok(fn, sink, ins.Pos(), "count from "+origin+" bounded by a dominating comparison with the remaining input", true)
					continue
				}
				rc.bad(fn, sink, ins.Pos(), "allocation sized by an input-derived count ("+origin+") with no dominating bound against the remaining input")
			}
		}
	}
}

func pkgPathOf(fn *ssa.Function) string {
	root := fn
	for root.Parent() != nil {
		root = root.Parent()
	}
	if root.Pkg == nil {
		return ""
	}
	return root.Pkg.Pkg.Path()
}

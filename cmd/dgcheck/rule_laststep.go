package main

import (
	"go/ast"
	"go/types"
	"strings"
)

// LASTSTEPONLY: GetByPath reports a missing element in two ways. If the LAST step of the path is
// missing it returns the insertable not-found marker (errNotFoundLast: position + parent type),
// which SetByPath turns into an insertion; if an intermediate step is missing there is nothing to
// insert into and the lookup is an error. The marker must therefore be produced only under the
// test `i == len(pathes)-1`.
func init() {
	register(&Rule{
		Name:     "LASTSTEPONLY",
		Doc:      "inside every loop over path steps (`for i, p := range pathes`), a call of errNotFoundLast — the insertable not-found marker SetByPath turns into an insertion — is nested in an if whose condition compares the loop index with len(<the ranged slice>)-1: without it a missing INTERMEDIATE step makes SetByPath insert the value into the container where the search stopped",
		Configs:  "NP",
		Floor:    map[string]int{"N": 3, "P": 3},
		Controls: 1,
		Run:      runLastStepOnly,
	})
}

func runLastStepOnly(rc *RuleCtx) {
	for _, p := range rc.W.Pkgs {
		rel := strings.TrimPrefix(strings.TrimPrefix(p.PkgPath, modPath), "/")
		info := p.TypesInfo
		for _, f := range p.Syntax {
			for _, d := range f.Decls {
				fd, ok := d.(*ast.FuncDecl)
				if !ok || fd.Body == nil {
					continue
				}
				name := declName(rel, fd)
				ast.Inspect(fd.Body, func(n ast.Node) bool {
					rs, ok := n.(*ast.RangeStmt)
					if !ok {
						return true
					}
					t := info.TypeOf(rs.X)
					if t == nil {
						return true
					}
					sl, ok := t.Underlying().(*types.Slice)
					if !ok || !strings.HasSuffix(typeShort(sl.Elem()), "generic.Path") {
						return true
					}
					key, _ := rs.Key.(*ast.Ident)
					ranged := types.ExprString(rs.X)
					// walk the body keeping the stack of enclosing ifs
					var walk func(n ast.Node, conds []ast.Expr)
					walk = func(n ast.Node, conds []ast.Expr) {
						switch x := n.(type) {
						case nil:
							return
						case *ast.IfStmt:
							if x.Init != nil {
								walk(x.Init, conds)
							}
							walk(x.Body, append(append([]ast.Expr{}, conds...), x.Cond))
							if x.Else != nil {
								walk(x.Else, conds)
							}
							return
						case *ast.CallExpr:
							if id, ok := x.Fun.(*ast.Ident); ok && id.Name == "errNotFoundLast" {
								rc.Examined++
								good := false
								for _, c := range conds {
									hasIdx, hasLen := false, false
									ast.Inspect(c, func(m ast.Node) bool {
										switch y := m.(type) {
										case *ast.Ident:
											if key != nil && info.Uses[y] == info.Defs[key] && info.Defs[key] != nil {
												hasIdx = true
											}
										case *ast.BinaryExpr:
											// len(pathes)-1
											if ce, ok := ast.Unparen(y.X).(*ast.CallExpr); ok && y.Op.String() == "-" {
												if fid, ok := ce.Fun.(*ast.Ident); ok && fid.Name == "len" && len(ce.Args) == 1 && types.ExprString(ce.Args[0]) == ranged {
													if lit, ok := y.Y.(*ast.BasicLit); ok && lit.Value == "1" {
														hasLen = true
													}
												}
											}
										}
										return true
									})
									if hasIdx && hasLen {
										good = true
									}
								}
								rc.add(nil, name, "errNotFoundLast in step loop", x.Pos(), map[bool]string{true: "discharged", false: "violated"}[good],
									map[bool]string{true: "the insertable marker is produced only for the last step of the path",
										false: "the insertable not-found marker is produced for ANY missing step: SetByPath with a missing intermediate element inserts into the container where the search stopped instead of failing"}[good], true)
							}
						}
						// generic descent
						ast.Inspect(n, func(m ast.Node) bool {
							if m == n {
								return true
							}
							if m == nil {
								return false
							}
							walk(m, conds)
							return false
						})
					}
					walk(rs.Body, nil)
					return true
				})
			}
		}
	}
}

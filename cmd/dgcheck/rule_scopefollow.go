package main

import (
	"strings"

	"golang.org/x/tools/go/ssa"
)

func init() {
	register(&Rule{
		Name: "SCOPEFOLLOW",
		Doc: "IDL resolution stays in the scope where a name was found: when an argument of a call derives from a lookup S.Get<Kind>(name) on a parsed thrift file S (*parser.Thrift: GetConstant, GetEnum, GetTypedef, GetStruct, GetUnion, GetException, GetService) and the same call also passes a *parser.Thrift scope, that scope is S itself — " +
			"resolving a definition found in an included file against the including file loses (or mis-binds) every name it refers to",
		Configs:  "NP",
		Floor:    map[string]int{"N": 3, "P": 3},
		Controls: 1,
		Run:      runScopeFollow,
	})
}

func isParserThrift(v ssa.Value) bool {
	return strings.HasSuffix(v.Type().String(), "thriftgo/parser.Thrift")
}

// lookupScope: the *parser.Thrift receiver of a Get* lookup from which v derives (nil if none).
func lookupScope(v ssa.Value, seen map[ssa.Value]bool, d int) ssa.Value {
	if v == nil || seen[v] || d > 6 {
		return nil
	}
	seen[v] = true
	switch x := v.(type) {
	case *ssa.Call:
		if cal := x.Call.StaticCallee(); cal != nil && strings.HasPrefix(cal.Name(), "Get") && cal.Name() != "GetReference" && len(x.Call.Args) > 0 && isParserThrift(x.Call.Args[0]) {
			return x.Call.Args[0]
		}
	case *ssa.Extract:
		return lookupScope(x.Tuple, seen, d+1)
	case *ssa.UnOp:
		return lookupScope(x.X, seen, d+1)
	case *ssa.FieldAddr:
		return lookupScope(x.X, seen, d+1)
	case *ssa.Field:
		return lookupScope(x.X, seen, d+1)
	case *ssa.IndexAddr:
		return lookupScope(x.X, seen, d+1)
	case *ssa.Phi:
		var s ssa.Value
		for _, e := range x.Edges {
			if r := lookupScope(e, seen, d+1); r != nil {
				s = r
			}
		}
		return s
	}
	return nil
}

func runScopeFollow(rc *RuleCtx) {
	w := rc.W
	for _, fn := range w.Funcs {
		if pkgRel(fn) != "thrift" && !w.isControlFn(fn) {
			continue
		}
		for _, b := range fn.Blocks {
			for _, ins := range b.Instrs {
				c, ok := ins.(*ssa.Call)
				if !ok {
					continue
				}
				cal := c.Call.StaticCallee()
				if cal == nil || !inRepo(pkgPathOf(cal)) {
					continue
				}
				var scopeArg ssa.Value
				for _, a := range c.Call.Args {
					if isParserThrift(a) {
						scopeArg = a
					}
				}
				if scopeArg == nil {
					continue
				}
				var found ssa.Value
				for _, a := range c.Call.Args {
					if a == scopeArg {
						continue
					}
					if s := lookupScope(a, map[ssa.Value]bool{}, 0); s != nil {
						found = s
					}
				}
				if found == nil {
					continue
				}
				rc.Examined++
				rc.verdict(found == scopeArg, fn, "call "+cal.Name(), c.Pos(), map[bool]string{true: "the looked-up definition is resolved in the file it was found in", false: "an argument was looked up in one parsed file but the call passes a different file as resolution scope (" + found.Name() + " vs " + scopeArg.Name() + ")"}[found == scopeArg], true)
			}
		}
	}
}

package main

import (
	"go/types"
	"sort"

	"golang.org/x/tools/go/ssa"
)

func init() {
	register(&Rule{
		Name:     "POOLRESET",
		Doc:      "state that is recycled through a sync.Pool is fully reset: for every struct type that a discovered putter returns to a pool, each field that the repository's Go code assigns after construction is also assigned, on every path to its return, in the putter (or in the reset method it calls) — a field left dirty leaks one call's state into the next call that gets the object",
		Configs:  "NP",
		Floor:    map[string]int{"N": 4, "P": 4},
		Controls: 1,
		Run:      runPoolReset,
	})
}

func structOf(t types.Type) (*types.Named, *types.Struct) {
	n, ok := derefType(t).(*types.Named)
	if !ok {
		return nil, nil
	}
	st, ok := n.Underlying().(*types.Struct)
	if !ok {
		return nil, nil
	}
	return n, st
}

// fieldsStored: names of fields of base's struct that fn stores to (directly on base) on EVERY path
// from its entry to a return: a reset under a condition (`if cap(x.buf) > limit { x.buf = … }`)
// leaves the field dirty on the other path.
func fieldsStored(fn *ssa.Function, base ssa.Value, out map[string]bool) {
	blocks := map[string]map[*ssa.BasicBlock]bool{}
	for _, b := range fn.Blocks {
		for _, ins := range b.Instrs {
			st, ok := ins.(*ssa.Store)
			if !ok {
				continue
			}
			fa, ok := st.Addr.(*ssa.FieldAddr)
			if !ok || fa.X != base {
				continue
			}
			if _, n, ok := fieldNameOf(fa); ok {
				if blocks[n] == nil {
					blocks[n] = map[*ssa.BasicBlock]bool{}
				}
				blocks[n][b] = true
			}
		}
	}
	for n, bs := range blocks {
		if len(fn.Blocks) == 0 {
			continue
		}
		// can a return be reached from the entry without passing a storing block?
		seen := map[*ssa.BasicBlock]bool{}
		var dfs func(b *ssa.BasicBlock) bool
		dfs = func(b *ssa.BasicBlock) bool {
			if seen[b] || bs[b] {
				return false
			}
			seen[b] = true
			if _, isRet := lastInstr(b).(*ssa.Return); isRet {
				return true
			}
			for _, s := range b.Succs {
				if dfs(s) {
					return true
				}
			}
			return false
		}
		if !dfs(fn.Blocks[0]) {
			out[n] = true
		}
	}
}

func runPoolReset(rc *RuleCtx) {
	w := rc.W
	_, putters := poolSummaries(w)
	type tinfo struct {
		named  *types.Named
		reset  map[string]bool
		putter *ssa.Function
	}
	byType := map[string]*tinfo{} // one entry per (type, putter): every putter must reset by itself
	pooledTypes := map[string]bool{}
	putterFns := map[*ssa.Function]bool{}
	for fn := range putters {
		putterFns[fn] = true
	}
	for fn, idx := range putters {
		if idx >= len(fn.Params) {
			continue
		}
		p := fn.Params[idx]
		named, st := structOf(p.Type())
		if named == nil || st == nil || named.Obj().Pkg() == nil || !inRepo(named.Obj().Pkg().Path()) {
			continue
		}
		ti := &tinfo{named: named, reset: map[string]bool{}, putter: fn}
		byType[typeShort(named)+"@"+shortName(fn)] = ti
		pooledTypes[typeShort(named)] = true
		fieldsStored(fn, p, ti.reset)
		// methods called on the object inside the putter (reset helpers), one level
		for _, b := range fn.Blocks {
			for _, ins := range b.Instrs {
				c, ok := ins.(*ssa.Call)
				if !ok {
					continue
				}
				cal := c.Call.StaticCallee()
				if cal == nil || cal.Blocks == nil || len(c.Call.Args) == 0 || c.Call.Args[0] != ssa.Value(p) || len(cal.Params) == 0 {
					continue
				}
				fieldsStored(cal, cal.Params[0], ti.reset)
			}
		}
		// a whole-struct store `*p = T{}` resets everything
		for _, b := range fn.Blocks {
			for _, ins := range b.Instrs {
				if st, ok := ins.(*ssa.Store); ok && st.Addr == ssa.Value(p) {
					for i := 0; i < structFieldCount(named); i++ {
						ti.reset[named.Underlying().(*types.Struct).Field(i).Name()] = true
					}
				}
			}
		}
	}
	// mutated fields
	mutated := map[string]map[string]string{} // type -> field -> where
	for _, fn := range w.Funcs {
		if fn.Blocks == nil {
			continue
		}
		// constructors: functions that allocate the struct (pool New closures, New* helpers) are not mutation sites
		for _, b := range fn.Blocks {
			for _, ins := range b.Instrs {
				st, ok := ins.(*ssa.Store)
				if !ok {
					continue
				}
				fa, ok := st.Addr.(*ssa.FieldAddr)
				if !ok {
					continue
				}
				t, n, ok := fieldNameOf(fa)
				if !ok {
					continue
				}
				if !pooledTypes[typeShort(t)] || putterFns[fn] {
					continue
				}
				if allocatedHere(fa.X) {
					continue // field of a value under construction
				}
				if fn.Name() == "reset" || fn.Name() == "Reset" {
					continue // the reset helper itself is not an "other" mutation site
				}
				if mutated[typeShort(t)] == nil {
					mutated[typeShort(t)] = map[string]string{}
				}
				if _, seen := mutated[typeShort(t)][n]; !seen {
					mutated[typeShort(t)][n] = shortName(fn) + " (" + w.relPos(st.Pos()) + ")"
				}
			}
		}
	}
	var tnames []string
	for n := range byType {
		tnames = append(tnames, n)
	}
	sort.Strings(tnames)
	for _, key := range tnames {
		ti := byType[key]
		tn := typeShort(ti.named)
		var fields []string
		for f := range mutated[tn] {
			fields = append(fields, f)
		}
		sort.Strings(fields)
		for _, f := range fields {
			rc.Examined++
			where := mutated[tn][f]
			rc.verdict(ti.reset[f], ti.putter, "reset "+tn+"."+f, ti.putter.Pos(), map[bool]string{true: "reset before the object returns to the pool", false: "field " + f + " of pooled " + tn + " is assigned in " + where + " but never reset when the object is returned to the pool by " + shortName(ti.putter)}[ti.reset[f]], true)
		}
	}
}

func structFieldCount(n *types.Named) int {
	if st, ok := n.Underlying().(*types.Struct); ok {
		return st.NumFields()
	}
	return 0
}

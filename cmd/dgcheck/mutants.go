package main

// runMutants is the thorough-tier self-test hook (see mutants_run.go once built).
func runMutants(p *Property) int { return 0 }

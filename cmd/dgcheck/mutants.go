package main

import (
	"encoding/json"
	"fmt"
	"os"
	"os/exec"
	"path/filepath"
	"sort"
	"strings"
)

// Thorough-tier self-test of the checker's detection power: a few of the seeded changes recorded
// under /verif/seeded as "reported by this property's check" are re-applied to a scratch copy of
// /repo's CURRENT tree (outside /repo and /verif, removed afterwards) and the quick check is run on
// the copy. The outcome goes into the evidence (coverage.seeded_selftest); it never turns a run on
// the unchanged tree into a failure: a patch that does not apply any more is recorded as skipped,
// a seeded change that is no longer reported is recorded as MISSED and printed as a warning.
type seededResult struct {
	Name     string   `json:"seeded_change"`
	Outcome  string   `json:"outcome"` // reported | MISSED | skipped(<why>)
	Rules    []string `json:"rules_that_fired,omitempty"`
	Expected []string `json:"rules_recorded,omitempty"`
}

const seededPerProperty = 2

func runSeededSelfTest(p *Property) []seededResult {
	if os.Getenv("DGNOSEEDED") != "" {
		return nil
	}
	dirs, _ := filepath.Glob(filepath.Join(verifDir(), "seeded", "*", "meta.json"))
	sort.Strings(dirs)
	type cand struct {
		name  string
		rules []string
	}
	var cands []cand
	for _, m := range dirs {
		b, err := os.ReadFile(m)
		if err != nil {
			continue
		}
		var meta struct {
			Property   string `json:"property"`
			DetectedBy *struct {
				Properties []string `json:"properties"`
				Rules      []string `json:"rules"`
			} `json:"detected_by"`
		}
		if json.Unmarshal(b, &meta) != nil || meta.DetectedBy == nil {
			continue
		}
		hit := false
		for _, q := range meta.DetectedBy.Properties {
			if q == p.ID {
				hit = true
			}
		}
		if hit {
			cands = append(cands, cand{filepath.Base(filepath.Dir(m)), meta.DetectedBy.Rules})
		}
	}
	// prefer changes seeded FOR this property, then the others
	sort.SliceStable(cands, func(i, j int) bool {
		return strings.HasPrefix(cands[i].name, p.ID) && !strings.HasPrefix(cands[j].name, p.ID)
	})
	if len(cands) > seededPerProperty {
		cands = cands[:seededPerProperty]
	}
	self, err := os.Executable()
	if err != nil {
		return nil
	}
	var out []seededResult
	for _, c := range cands {
		res := seededResult{Name: c.name, Expected: c.rules}
		tmp, err := os.MkdirTemp("", "dgseeded_")
		if err != nil {
			res.Outcome = "skipped(no scratch dir)"
			out = append(out, res)
			continue
		}
		func() {
			defer os.RemoveAll(tmp)
			if b, err := exec.Command("rsync", "-a", "--exclude", ".git", repoDir()+"/", tmp+"/").CombinedOutput(); err != nil {
				res.Outcome = "skipped(copy failed: " + strings.TrimSpace(string(b)) + ")"
				return
			}
			patch := filepath.Join(verifDir(), "seeded", c.name, "patch.diff")
			cmd := exec.Command("patch", "-p1", "-s", "--no-backup-if-mismatch", "-i", patch)
			cmd.Dir = tmp
			if _, err := cmd.CombinedOutput(); err != nil {
				res.Outcome = "skipped(patch does not apply to the current tree)"
				return
			}
			run := exec.Command(self, p.ID, "quick")
			run.Env = append(os.Environ(), "DGREPO="+tmp, "DGEVIDENCE="+filepath.Join(tmp, ".ev"), "DGNOSEEDED=1")
			b, _ := run.CombinedOutput()
			fired := map[string]bool{}
			lines := strings.Split(string(b), "\n")
			for i, l := range lines {
				if strings.HasPrefix(l, "VIOLATION ") && i > 0 {
					f := strings.Fields(lines[i-1])
					if len(f) > 1 && f[0] == "dgcheck:" {
						fired[f[1]] = true
					}
				}
			}
			for r := range fired {
				res.Rules = append(res.Rules, r)
			}
			sort.Strings(res.Rules)
			switch {
			case len(res.Rules) > 0:
				res.Outcome = "reported"
			case strings.Contains(string(b), "BROKEN"):
				res.Outcome = "skipped(check broken on the changed copy)"
			default:
				res.Outcome = "MISSED"
			}
		}()
		if res.Outcome == "MISSED" {
			fmt.Printf("dgcheck: warning: seeded change %s, recorded as reported by %s, was not reported in this run\n", c.name, p.ID)
		}
		out = append(out, res)
	}
	return out
}

// runMutants is kept for the command table; the self-test runs inside checkProperty (thorough tier).
func runMutants(p *Property) int { return 0 }

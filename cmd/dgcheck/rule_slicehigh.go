package main

import (
	"go/ast"
	"go/constant"
	"go/token"
	"go/types"
	"strings"
)

// SLICEHIGH: `b[lo : len(b)-c]` (cutting a trailer of c bytes) panics when lo > len(b)-c. The
// guard in front of it has to compare lo with exactly that upper bound; comparing with len(b)
// lets lo == len(b) through and the slice expression panics with `slice bounds out of range`.
func init() {
	register(&Rule{
		Name:     "SLICEHIGH",
		Doc:      "every slice expression `x[lo : len(x)-c]` with a non-constant lo and a constant c > 0 is preceded, in the same function, by an `if` that returns when lo exceeds that same bound — a comparison of the text of lo with the text of `len(x)-c` (or of lo+c with len(x)); a guard against len(x) alone is one element short",
		Configs:  "NP",
		Floor:    map[string]int{"N": 1, "P": 1},
		Controls: 1,
		Run:      runSliceHigh,
	})
}

func runSliceHigh(rc *RuleCtx) {
	for _, p := range rc.W.Pkgs {
		rel := strings.TrimPrefix(strings.TrimPrefix(p.PkgPath, modPath), "/")
		if strings.HasPrefix(rel, "internal/native") {
			continue
		}
		info := p.TypesInfo
		for _, f := range p.Syntax {
			for _, d := range f.Decls {
				fd, ok := d.(*ast.FuncDecl)
				if !ok || fd.Body == nil {
					continue
				}
				name := declName(rel, fd)
				var ifs []*ast.IfStmt
				ast.Inspect(fd.Body, func(n ast.Node) bool {
					if is, ok := n.(*ast.IfStmt); ok {
						ifs = append(ifs, is)
					}
					return true
				})
				ast.Inspect(fd.Body, func(n ast.Node) bool {
					se, ok := n.(*ast.SliceExpr)
					if !ok || se.Low == nil || se.High == nil {
						return true
					}
					if tv, ok := info.Types[se.Low]; ok && tv.Value != nil {
						return true
					}
					hb, ok := ast.Unparen(se.High).(*ast.BinaryExpr)
					if !ok || hb.Op != token.SUB {
						return true
					}
					ctv, ok := info.Types[hb.Y]
					if !ok || ctv.Value == nil || ctv.Value.Kind() != constant.Int {
						return true
					}
					lc, ok := ast.Unparen(hb.X).(*ast.CallExpr)
					if !ok {
						return true
					}
					if id, ok := lc.Fun.(*ast.Ident); !ok || id.Name != "len" || len(lc.Args) != 1 || types.ExprString(lc.Args[0]) != types.ExprString(se.X) {
						return true
					}
					rc.Examined++
					lo, hi := types.ExprString(se.Low), types.ExprString(se.High)
					good := false
					for _, is := range ifs {
						if is.Pos() > se.Pos() {
							continue
						}
						c, ok := ast.Unparen(is.Cond).(*ast.BinaryExpr)
						if !ok {
							continue
						}
						x, y := types.ExprString(ast.Unparen(c.X)), types.ExprString(ast.Unparen(c.Y))
						// the equivalent form  lo + c > len(x)  /  len(x) < lo + c
						lenX := types.ExprString(hb.X)
						loPlus := lo + " + " + types.ExprString(hb.Y)
						if (x == loPlus && y == lenX && (c.Op == token.GTR || c.Op == token.GEQ)) || (x == lenX && y == loPlus && (c.Op == token.LSS || c.Op == token.LEQ)) {
							x, y = lo, hi
							if c.Op == token.LSS || c.Op == token.LEQ {
								x, y = hi, lo
							}
						}
						if (x == lo && y == hi && (c.Op == token.GTR || c.Op == token.GEQ)) || (x == hi && y == lo && (c.Op == token.LSS || c.Op == token.LEQ)) {
							if len(is.Body.List) > 0 {
								if _, isRet := is.Body.List[len(is.Body.List)-1].(*ast.ReturnStmt); isRet {
									good = true
								}
							}
						}
					}
					rc.add(nil, name, "slice to "+hi, se.Pos(), map[bool]string{true: "discharged", false: "violated"}[good],
						map[bool]string{true: "`" + lo + "` is compared with `" + hi + "` before the slice", false: "no guard compares `" + lo + "` with the slice's own upper bound `" + hi + "`: for " + lo + " == len the expression panics with slice bounds out of range"}[good], false)
					return true
				})
			}
		}
	}
}

// dgcheck decides structural necessary conditions of the dynamicgo properties C01..C20 by
// static analysis of /repo's current source. See /verif/DESIGN.md.
package main

import (
	"fmt"
	"os"
	"sort"
	"strconv"
	"strings"
)

func usage() {
	fmt.Fprintln(os.Stderr, "usage: dgcheck <Cxx> quick|thorough\n       dgcheck rule <RULE> [N|P] [-v]   (developer dump of one rule's obligations)\n       dgcheck rules | props")
	os.Exit(2)
}

func main() {
	if len(os.Args) < 2 {
		usage()
	}
	initProperties()
	switch os.Args[1] {
	case "switches":
		cfg := "N"
		if len(os.Args) > 2 {
			cfg = os.Args[2]
		}
		dumpSwitches(getWorld(cfg))
		return
	case "manifest":
		writeManifest()
		return
	case "rules":
		var ns []string
		for n := range rules {
			ns = append(ns, n)
		}
		sort.Strings(ns)
		for _, n := range ns {
			fmt.Printf("%-16s cfg=%-2s %s\n", n, rules[n].Configs, rules[n].Doc)
		}
		return
	case "props":
		for _, p := range properties {
			var rs []string
			for _, u := range p.Uses {
				rs = append(rs, u.Rule)
			}
			fmt.Printf("%s %s\n", p.ID, strings.Join(rs, ","))
		}
		return
	case "rule":
		if len(os.Args) < 3 {
			usage()
		}
		r := rules[os.Args[2]]
		if r == nil {
			broken("unknown rule %s", os.Args[2])
		}
		cfg := string(r.Configs[0])
		verbose := false
		for _, a := range os.Args[3:] {
			if a == "-v" {
				verbose = true
			} else {
				cfg = a
			}
		}
		w := getWorld(cfg)
		rr := runRule(w, r)
		by := map[string]int{}
		for _, o := range rr.obls {
			by[o.Status]++
			if verbose || o.Status != "discharged" {
				c := ""
				if o.Control {
					c = " [control]"
				}
				fmt.Printf("%-10s %s  %s  %s%s\n", o.Status, o.Key, o.Pos, o.Detail, c)
				if verbose {
					for _, s := range o.Path {
						fmt.Println("      ", s)
					}
				}
			}
		}
		fmt.Printf("rule %s [%s]: examined=%d obligations=%d %v stats=%v notes=%v\n", r.Name, cfg, rr.examined, len(rr.obls), by, rr.stats, rr.notes)
		return
	}
	if len(os.Args) < 3 {
		usage()
	}
	id, tier := os.Args[1], os.Args[2]
	if tier != "quick" && tier != "thorough" {
		usage()
	}
	seed, _ := strconv.Atoi(os.Getenv("VERIF_SEED"))
	if id == "all" {
		// developer convenience: every property in one process (shared load and rule cache)
		worst := 0
		for _, p := range properties {
			if len(p.Uses) == 0 {
				continue
			}
			if c := checkProperty(p, tier, seed); c > worst {
				worst = c
			}
		}
		// stale exemptions (informational): an exemption that no longer matches a violated obligation
		var stale []string
		for k := range loadExemptions() {
			if !usedExemptions[k] {
				stale = append(stale, k)
			}
		}
		sort.Strings(stale)
		for _, k := range stale {
			fmt.Printf("dgcheck: note: exemption not used by any property in tier %s: %s\n", tier, k)
		}
		os.Exit(worst)
	}
	for _, p := range properties {
		if p.ID == id {
			code := checkProperty(p, tier, seed)
			if code == 0 && tier == "thorough" {
				code = runMutants(p)
			}
			os.Exit(code)
		}
	}
	broken("unknown property %s", id)
}

package main

import (
	"go/token"
	"go/types"

	"golang.org/x/tools/go/ssa"
)

// DIVZERO: an integer division or remainder by a value that can be zero panics. The hash-slot
// computations of the DOM (`hash % N`, N = twice the number of loaded children) take N from the
// data: a lookup in an EMPTY map divides by zero.
func init() {
	register(&Rule{
		Name:     "DIVZERO",
		Doc:      "every integer `/` or `%` whose divisor is not a constant is dominated by a comparison of the divisor (or of the value it is converted/scaled from) with a constant that excludes zero, or the divisor is built to be positive (x + c, x | c with c > 0); a divisor that is a parameter is decided at every call site of the function instead (zero excluded on the edge that reaches the call): hash-slot arithmetic over the number of loaded children must survive an empty container",
		Configs:  "NP",
		Floor:    map[string]int{"N": 5, "P": 5},
		Controls: 1,
		Run:      runDivZero,
	})
}

func divRoot(v ssa.Value, d int) ssa.Value {
	for ; d < 6; d++ {
		switch x := v.(type) {
		case *ssa.Convert:
			v = x.X
			continue
		case *ssa.BinOp:
			if x.Op == token.MUL || x.Op == token.SHL {
				if _, isC := x.Y.(*ssa.Const); isC {
					v = x.X
					continue
				}
				if _, isC := x.X.(*ssa.Const); isC {
					v = x.Y
					continue
				}
			}
		}
		break
	}
	return v
}

var deferredDiv = map[ssa.Instruction]bool{}

// callSitesOf: static call sites of fn in repo functions.
func callSitesOf(w *World, fn *ssa.Function) []ssa.Instruction {
	var out []ssa.Instruction
	for _, f := range w.Funcs {
		for _, b := range f.Blocks {
			for _, ins := range b.Instrs {
				if c, ok := ins.(ssa.CallInstruction); ok && c.Common().StaticCallee() == fn {
					out = append(out, ins)
				}
			}
		}
	}
	return out
}

func runDivZero(rc *RuleCtx) {
	deferredDiv = map[ssa.Instruction]bool{}
	for _, fn := range rc.W.Funcs {
		if fn.Blocks == nil {
			continue
		}
		pr := pkgRel(fn)
		if pr == "" || pr[0] == 't' && pr == "testdata" {
			continue
		}
		for _, b := range fn.Blocks {
			for _, ins := range b.Instrs {
				bo, ok := ins.(*ssa.BinOp)
				if !ok || (bo.Op != token.REM && bo.Op != token.QUO) {
					continue
				}
				bt, ok := bo.Type().Underlying().(*types.Basic)
				if !ok || bt.Info()&types.IsInteger == 0 {
					continue
				}
				if _, isC := bo.Y.(*ssa.Const); isC {
					continue
				}
				rc.Examined++
				root := divRoot(bo.Y, 0)
				good := false
				why := ""
				// positive by construction
				if c, ok := root.(*ssa.BinOp); ok && (c.Op == token.ADD || c.Op == token.OR) {
					if k, isC := constInt(c.Y); isC && k > 0 {
						good, why = true, "the divisor is x + c / x | c with c > 0"
					}
				}
				if !good {
					for _, cd := range controllingIfs(b) {
						cond, _ := condKey(cd.cond)
						t, ok := cond.(*ssa.BinOp)
						if !ok {
							continue
						}
						for _, side := range [][2]ssa.Value{{t.X, t.Y}, {t.Y, t.X}} {
							if _, isC := side[1].(*ssa.Const); !isC {
								continue
							}
							r2 := divRoot(side[0], 0)
							if r2 == root || r2 == bo.Y || sameShapeLoad(r2, root) {
								good, why = true, "a dominating comparison with a constant bounds the divisor"
							}
						}
					}
				}
				if !good {
					if prm, isP := root.(*ssa.Parameter); isP {
						// the divisor is handed in: decide at the call sites
						idx := -1
						for i, q := range fn.Params {
							if q == prm {
								idx = i
							}
						}
						sites := callSitesOf(rc.W, fn)
						if idx >= 0 && len(sites) > 0 {
							seenSite := map[ssa.Instruction]bool{}
							for _, cs := range sites {
								if seenSite[cs] || deferredDiv[cs] {
									continue
								}
								seenSite[cs] = true
								deferredDiv[cs] = true
								arg := cs.(ssa.CallInstruction).Common().Args[idx]
								aroot := divRoot(arg, 0)
								ok := false
								if k, isC := constInt(arg); isC && k != 0 {
									ok = true
								}
								for _, cd := range controllingIfs(cs.Block()) {
									cond, _ := condKey(cd.cond)
									t, isB := cond.(*ssa.BinOp)
									if !isB {
										continue
									}
									for _, side := range [][2]ssa.Value{{t.X, t.Y}, {t.Y, t.X}} {
										k, isC := constInt(side[1])
										if !isC {
											continue
										}
										r2 := divRoot(side[0], 0)
										if r2 != aroot && r2 != arg {
											continue
										}
										// the comparison must exclude zero on the surviving edge
										val := cd.val
										switch {
										case t.Op == token.NEQ && k == 0 && val, t.Op == token.EQL && k == 0 && !val,
											t.Op == token.GTR && side[0] == t.X && k >= 0 && val, t.Op == token.LSS && side[0] == t.Y && k >= 0 && val,
											t.Op == token.LEQ && side[0] == t.X && k >= 0 && !val, t.Op == token.GEQ && side[0] == t.X && k >= 1 && val:
											ok = true
										}
									}
								}
								rc.verdict(ok, cs.Parent(), "divisor argument of "+fn.Name(), cs.Pos(), map[bool]string{true: "zero is excluded before the value is handed to " + fn.Name() + " as a divisor", false: "this value is used as the divisor of an integer " + bo.Op.String() + " inside " + fn.Name() + " and nothing on the way excludes zero: for an empty container (count 0) the callee panics with a division by zero"}[ok], true)
							}
							continue
						}
					}
				}
				rc.verdict(good, fn, "divisor", bo.Pos(), map[bool]string{true: why, false: "the divisor of this integer " + bo.Op.String() + " comes from the data (no dominating test excludes zero): for an empty container it is 0 and the operation panics"}[good], true)
			}
		}
	}
}

// sameLoad: two loads of the same field / the same len(x) expression shape.
func sameShapeLoad(a, b ssa.Value) bool {
	ca, ok1 := a.(*ssa.Call)
	cb, ok2 := b.(*ssa.Call)
	if ok1 && ok2 {
		ba, ok3 := ca.Call.Value.(*ssa.Builtin)
		bb, ok4 := cb.Call.Value.(*ssa.Builtin)
		if ok3 && ok4 && ba.Name() == bb.Name() && len(ca.Call.Args) == 1 && len(cb.Call.Args) == 1 {
			return sameShapeLoad(ca.Call.Args[0], cb.Call.Args[0]) || ca.Call.Args[0] == cb.Call.Args[0]
		}
	}
	ua, ok1 := a.(*ssa.UnOp)
	ub, ok2 := b.(*ssa.UnOp)
	if ok1 && ok2 {
		fa, na, oka := fieldNameOf(ua.X)
		fb, nb, okb := fieldNameOf(ub.X)
		if oka && okb && na == nb && types.Identical(fa, fb) {
			return true
		}
	}
	return false
}

package main

import (
	"go/types"
	"sort"
	"strings"

	"golang.org/x/tools/go/ssa"
)

func init() {
	register(&Rule{
		Name: "POOLESCAPE",
		Doc: "in every function that both obtains an object from a sync.Pool (directly or through a discovered getter wrapper) and returns it to the pool (Put or a discovered putter wrapper): no value derived from the object (field, *p, re-slice, RawBuf(), append with a derived first argument) is returned, stored into caller-visible memory or a global, " +
			"and no use of the object or a derived value is reachable after the Put — pooled buffers are never handed out, retained or used after being recycled",
		Configs:  "NP",
		Floor:    map[string]int{"N": 12, "P": 10},
		Controls: 1,
		Run:      runPoolEscape,
	})
}

func isPoolMethod(c *ssa.Call, name string) bool {
	cal := c.Call.StaticCallee()
	return cal != nil && cal.String() == "(*sync.Pool)."+name
}

func poolSummaries(w *World) (getters map[*ssa.Function]bool, putters map[*ssa.Function]int) {
	getters = map[*ssa.Function]bool{}
	putters = map[*ssa.Function]int{}
	changed := true
	for changed {
		changed = false
		for _, fn := range w.Funcs {
			if fn.Blocks == nil {
				continue
			}
			if !getters[fn] && fn.Signature.Results().Len() == 1 {
				for _, b := range fn.Blocks {
					if ret, ok := lastInstr(b).(*ssa.Return); ok && fromPool(ret.Results[0], getters, 0) {
						getters[fn] = true
						changed = true
					}
				}
			}
			if _, ok := putters[fn]; !ok {
				for _, b := range fn.Blocks {
					for _, ins := range b.Instrs {
						c, ok := ins.(*ssa.Call)
						if !ok {
							continue
						}
						var putVal ssa.Value
						if isPoolMethod(c, "Put") {
							putVal = c.Call.Args[1]
						} else if cal := c.Call.StaticCallee(); cal != nil {
							if idx, ok := putters[cal]; ok && idx < len(c.Call.Args) {
								putVal = c.Call.Args[idx]
							}
						}
						if putVal == nil {
							continue
						}
						if mi, ok := putVal.(*ssa.MakeInterface); ok {
							putVal = mi.X
						}
						for i, p := range fn.Params {
							if p == putVal {
								putters[fn] = i
								changed = true
							}
						}
					}
				}
			}
		}
	}
	return
}

func fromPool(v ssa.Value, getters map[*ssa.Function]bool, d int) bool {
	if d > 6 {
		return false
	}
	switch x := v.(type) {
	case *ssa.TypeAssert:
		return fromPool(x.X, getters, d+1)
	case *ssa.Call:
		if isPoolMethod(x, "Get") {
			return true
		}
		if cal := x.Call.StaticCallee(); cal != nil && getters[cal] {
			return true
		}
	case *ssa.Phi:
		for _, e := range x.Edges {
			if fromPool(e, getters, d+1) {
				return true
			}
		}
	case *ssa.ChangeType:
		return fromPool(x.X, getters, d+1)
	case *ssa.Extract:
		return fromPool(x.Tuple, getters, d+1)
	}
	return false
}

func aliasType(t types.Type) bool {
	switch u := t.Underlying().(type) {
	case *types.Pointer, *types.Slice, *types.Map, *types.Interface:
		return true
	case *types.Basic:
		return u.Kind() == types.UnsafePointer || u.Kind() == types.String
	}
	return false
}

func addrRootDesc(a ssa.Value) string {
	for i := 0; i < 20; i++ {
		switch x := a.(type) {
		case *ssa.Parameter:
			return "parameter " + x.Name()
		case *ssa.Global:
			return "global " + x.Name()
		case *ssa.FreeVar:
			return "captured variable " + x.Name()
		case *ssa.FieldAddr:
			a = x.X
		case *ssa.IndexAddr:
			a = x.X
		case *ssa.UnOp:
			a = x.X
		default:
			return ""
		}
	}
	return ""
}

func reachAfter(put ssa.Instruction) map[ssa.Instruction]bool {
	out := map[ssa.Instruction]bool{}
	b := put.Block()
	idx := 0
	for i, ins := range b.Instrs {
		if ins == put {
			idx = i
		}
	}
	for _, ins := range b.Instrs[idx+1:] {
		out[ins] = true
	}
	seen := map[*ssa.BasicBlock]bool{}
	stack := append([]*ssa.BasicBlock{}, b.Succs...)
	for len(stack) > 0 {
		x := stack[len(stack)-1]
		stack = stack[:len(stack)-1]
		if seen[x] {
			continue
		}
		seen[x] = true
		for _, ins := range x.Instrs {
			out[ins] = true
		}
		stack = append(stack, x.Succs...)
	}
	return out
}

func runPoolEscape(rc *RuleCtx) {
	w := rc.W
	getters, putters := poolSummaries(w)
	var gs, ps []string
	for f := range getters {
		gs = append(gs, shortName(f))
	}
	for f := range putters {
		ps = append(ps, shortName(f))
	}
	sort.Strings(gs)
	sort.Strings(ps)
	rc.Notes["getters"] = strings.Join(gs, ",")
	rc.Notes["putters"] = strings.Join(ps, ",")
	rc.Stats["getters"] = len(gs)
	rc.Stats["putters"] = len(ps)
	if len(gs) < 8 || len(ps) < 8 {
		broken("POOLESCAPE: only %d getters / %d putters discovered", len(gs), len(ps))
	}
	aliasRet := aliasReturnSummary(w)
	for _, fn := range w.Funcs {
		if fn.Blocks == nil || getters[fn] {
			continue
		}
		if _, ok := putters[fn]; ok {
			continue
		}
		var objs []ssa.Value
		for _, b := range fn.Blocks {
			for _, ins := range b.Instrs {
				v, ok := ins.(ssa.Value)
				if !ok {
					continue
				}
				_, isCall := ins.(*ssa.Call)
				_, isTA := ins.(*ssa.TypeAssert)
				if !isCall && !isTA {
					continue
				}
				if !fromPool(v, getters, 0) {
					continue
				}
				if c, ok := ins.(*ssa.Call); ok && isPoolMethod(c, "Get") {
					// the TypeAssert of the Get result is the object; skip the raw interface unless unasserted
					asserted := false
					for _, r := range *c.Referrers() {
						if _, ok := r.(*ssa.TypeAssert); ok {
							asserted = true
						}
					}
					if asserted {
						continue
					}
				}
				objs = append(objs, v)
			}
		}
		for _, o := range objs {
			derived := map[ssa.Value]bool{o: true}
			work := []ssa.Value{o}
			for len(work) > 0 {
				v := work[len(work)-1]
				work = work[:len(work)-1]
				refs := v.Referrers()
				if refs == nil {
					continue
				}
				for _, r := range *refs {
					var nv ssa.Value
					switch u := r.(type) {
					case *ssa.UnOp:
						nv = u
					case *ssa.FieldAddr:
						nv = u
					case *ssa.Field:
						nv = u
					case *ssa.Slice:
						nv = u
					case *ssa.IndexAddr:
						nv = u
					case *ssa.Phi:
						nv = u
					case *ssa.ChangeType:
						nv = u
					case *ssa.Convert:
						if !copyingConvert(u) {
							nv = u
						}
					case *ssa.Extract:
						nv = u
					case *ssa.Call:
						// append(derived, …) may return its first argument's array (always, when the capacity suffices:
						// `append((*buf)[:0], *buf...)` is the pooled array itself)
						if bi, ok := u.Call.Value.(*ssa.Builtin); ok && bi.Name() == "append" && len(u.Call.Args) > 0 && u.Call.Args[0] == v {
							nv = u
						}
						if cal := u.Call.StaticCallee(); cal != nil {
							if len(u.Call.Args) > 0 && u.Call.Args[0] == v && (cal.Name() == "RawBuf" || cal.Name() == "Bytes") {
								nv = u
							}
							n := shortName(cal)
							if n == "internal/rt.Mem2Str" || n == "internal/rt.Str2Mem" || cal.String() == "errors.New" {
								nv = u // zero-copy view / a value that keeps the string
							}
							// repo function whose result aliases the parameter this value is passed for
							for ai, a := range u.Call.Args {
								if a == v && aliasRet[cal][ai] {
									nv = u
								}
							}
						}
					}
					if nv != nil && !derived[nv] && aliasType(nv.Type()) {
						derived[nv] = true
						work = append(work, nv)
					}
				}
			}
			var puts []ssa.Instruction
			for _, b := range fn.Blocks {
				for _, ins := range b.Instrs {
					c, ok := ins.(*ssa.Call)
					if !ok {
						continue
					}
					if isPoolMethod(c, "Put") {
						pv := c.Call.Args[1]
						if mi, ok := pv.(*ssa.MakeInterface); ok {
							pv = mi.X
						}
						if derived[pv] {
							puts = append(puts, ins)
						}
					} else if cal := c.Call.StaticCallee(); cal != nil {
						if idx, ok := putters[cal]; ok && idx < len(c.Call.Args) && derived[c.Call.Args[idx]] {
							puts = append(puts, ins)
						}
					}
				}
			}
			// deferred Puts (`defer pool.Put(x)` / `defer FreeX(x)`) run at every exit
			var deferPuts []ssa.Instruction
			for _, b := range fn.Blocks {
				for _, ins := range b.Instrs {
					d, ok := ins.(*ssa.Defer)
					if !ok {
						continue
					}
					if cal := d.Call.StaticCallee(); cal != nil {
						if idx, ok := putters[cal]; ok && idx < len(d.Call.Args) && derived[d.Call.Args[idx]] {
							deferPuts = append(deferPuts, ins)
						}
					} else if !d.Call.IsInvoke() {
						// defer pool.Put(x) through a bound method value is not used in this repository
					}
				}
			}
			if len(puts) == 0 && len(deferPuts) == 0 {
				continue
			}
			rc.Examined++
			bad := ""
			badPos := o.Pos()
			for _, dp := range deferPuts {
				for ins := range reachAfter(dp) {
					for _, p2 := range puts {
						if p2 == ins && bad == "" {
							bad = "the pooled object is returned to the pool by a deferred Put and, on the same path, by an explicit Put at " + w.relPos(ins.Pos()) + ": two later Gets will share it"
							badPos = ins.Pos()
						}
					}
				}
			}
			for _, b := range fn.Blocks {
				for _, ins := range b.Instrs {
					switch x := ins.(type) {
					case *ssa.Return:
						for _, rv := range x.Results {
							if derived[rv] && bad == "" {
								bad = "a value derived from the pooled object is returned to the caller"
								badPos = instrPos(x)
							}
						}
					case *ssa.Store:
						if derived[x.Val] && !derived[x.Addr] && aliasType(x.Val.Type()) {
							if root := addrRootDesc(x.Addr); root != "" && bad == "" {
								bad = "a value derived from the pooled object is stored into " + root
								badPos = x.Pos()
							}
						}
					case *ssa.Call:
						// handing a derived slice/string to caller-supplied code (interface method) lets it be retained
						if x.Call.IsInvoke() {
							for _, a := range x.Call.Args {
								if derived[a] && a != o && aliasType(a.Type()) && bad == "" {
									bad = "a value derived from the pooled object is handed to the caller-supplied " + x.Call.Method.Name() + "(), which may retain it"
									badPos = x.Pos()
								}
							}
						}
					}
				}
			}
			for _, put := range puts {
				for ins := range reachAfter(put) {
					if ins == put {
						continue
					}
					if _, isPhi := ins.(*ssa.Phi); isPhi {
						continue
					}
					// a second Put on another path is not a use
					if c, ok := ins.(*ssa.Call); ok {
						isPut := isPoolMethod(c, "Put")
						if cal := c.Call.StaticCallee(); cal != nil {
							if _, ok := putters[cal]; ok {
								isPut = true
							}
						}
						if isPut {
							// a second, different Put of the same object reachable after the first one: double free
							for _, p2 := range puts {
								if p2 == ins && ins != put && bad == "" {
									bad = "the pooled object is returned to the pool twice on one path (second Put at " + w.relPos(ins.Pos()) + "): two later Gets will share it"
									badPos = ins.Pos()
								}
							}
							continue
						}
					}
					for _, op := range ins.Operands(nil) {
						if *op != nil && derived[*op] && bad == "" {
							bad = "the pooled object (or a value derived from it) is used after it was returned to the pool at " + w.relPos(put.Pos())
							badPos = instrPos(ins)
						}
					}
				}
			}
			anchor := "pooled " + typeShort(o.Type())
			if bad == "" {
				rc.ok(fn, anchor, o.Pos(), "copied out before Put; nothing derived escapes or is used after Put", true)
			} else {
				rc.bad(fn, anchor, badPos, bad)
			}
		}
	}
}

// copyingConvert: string([]byte) and []byte(string) copy their operand.
func copyingConvert(c *ssa.Convert) bool {
	isStr := func(t types.Type) bool {
		b, ok := t.Underlying().(*types.Basic)
		return ok && b.Info()&types.IsString != 0
	}
	isBytes := func(t types.Type) bool {
		sl, ok := t.Underlying().(*types.Slice)
		return ok && types.Identical(sl.Elem().Underlying(), types.Typ[types.Byte])
	}
	return (isStr(c.Type()) && isBytes(c.X.Type())) || (isBytes(c.Type()) && isStr(c.X.Type()))
}

// aliasReturnSummary: repo function -> parameter indexes (receiver = 0) whose memory a result may alias
// (a result derives from the parameter through loads, fields, re-slices, zero-copy casts, errors.New).
func aliasReturnSummary(w *World) map[*ssa.Function]map[int]bool {
	out := map[*ssa.Function]map[int]bool{}
	changed := true
	for round := 0; changed && round < 4; round++ {
		changed = false
		for _, fn := range w.Funcs {
			if fn.Blocks == nil {
				continue
			}
			for pi, p := range fn.Params {
				if !aliasType(p.Type()) || out[fn][pi] {
					continue
				}
				derived := map[ssa.Value]bool{p: true}
				work := []ssa.Value{p}
				for len(work) > 0 {
					v := work[len(work)-1]
					work = work[:len(work)-1]
					refs := v.Referrers()
					if refs == nil {
						continue
					}
					for _, r := range *refs {
						var nv ssa.Value
						switch u := r.(type) {
						case *ssa.UnOp, *ssa.FieldAddr, *ssa.Field, *ssa.Slice, *ssa.IndexAddr, *ssa.Phi, *ssa.ChangeType, *ssa.Extract, *ssa.MakeInterface:
							nv = u.(ssa.Value)
						case *ssa.Convert:
							if !copyingConvert(u) {
								nv = u
							}
						case *ssa.Call:
							if cal := u.Call.StaticCallee(); cal != nil {
								n := shortName(cal)
								if n == "internal/rt.Mem2Str" || n == "internal/rt.Str2Mem" || cal.String() == "errors.New" {
									nv = u
								}
								for ai, a := range u.Call.Args {
									if a == v && out[cal][ai] {
										nv = u
									}
								}
							}
						}
						if nv != nil && !derived[nv] && aliasType(nv.Type()) {
							derived[nv] = true
							work = append(work, nv)
						}
					}
				}
				for _, b := range fn.Blocks {
					if ret, ok := lastInstr(b).(*ssa.Return); ok {
						for _, rv := range ret.Results {
							if derived[rv] && rv != ssa.Value(p) || rv == ssa.Value(p) {
								if derived[rv] {
									if out[fn] == nil {
										out[fn] = map[int]bool{}
									}
									if !out[fn][pi] {
										out[fn][pi] = true
										changed = true
									}
								}
							}
						}
					}
				}
			}
		}
	}
	return out
}

package main

import (
	"go/ast"
	"go/constant"
	"go/token"
	"go/types"
	"strings"

	"golang.org/x/tools/go/ssa"
	"golang.org/x/tools/go/types/typeutil"
)

// ---------------------------------------------------------------------------------------------
// CURSORBACK
// ---------------------------------------------------------------------------------------------

func init() {
	register(&Rule{
		Name:     "CURSORBACK",
		Doc:      "a reader never steps its cursor back by a computed amount without having compared the cursor with that amount: every `p.Read -= n` (n not a constant) on a BinaryProtocol is control-dependent on a comparison between p.Read and n. The only such step (proto/generic searchIndex, handing element 0 back at its tag) computed n from the DESCRIPTOR's field number while the bytes before the cursor are whatever tag the data carried: a 1-byte tag under a 2-byte descriptor tag made the cursor -1 and the next slice expression panic",
		Configs:  "NP",
		Floor:    map[string]int{"N": 1, "P": 1},
		Controls: 1,
		Run:      runCursorBack,
	})
}

func runCursorBack(rc *RuleCtx) {
	isReadField := func(v ssa.Value) bool {
		_, name, ok := fieldNameOf(v)
		return ok && name == "Read"
	}
	for _, fn := range rc.W.Funcs {
		if fn.Blocks == nil {
			continue
		}
		for _, b := range fn.Blocks {
			for _, ins := range b.Instrs {
				st, ok := ins.(*ssa.Store)
				if !ok || !isReadField(st.Addr) {
					continue
				}
				bo, ok := st.Val.(*ssa.BinOp)
				if !ok || bo.Op != token.SUB {
					continue
				}
				ld, ok := bo.X.(*ssa.UnOp)
				if !ok || ld.Op != token.MUL || !isReadField(ld.X) {
					continue
				}
				if _, isConst := bo.Y.(*ssa.Const); isConst {
					continue
				}
				rc.Examined++
				good := false
				for _, cd := range controllingIfs(b) {
					k, _ := condKey(cd.cond)
					c, ok := k.(*ssa.BinOp)
					if !ok {
						continue
					}
					switch c.Op {
					case token.LSS, token.LEQ, token.GTR, token.GEQ:
					default:
						continue
					}
					isCur := func(v ssa.Value) bool {
						u, ok := v.(*ssa.UnOp)
						return ok && u.Op == token.MUL && isReadField(u.X)
					}
					if (isCur(c.X) && c.Y == bo.Y) || (isCur(c.Y) && c.X == bo.Y) {
						good = true
					}
				}
				rc.verdict(good, fn, "cursor -= computed", st.Pos(), map[bool]string{
					true:  "the step back is taken only after the cursor was compared with the amount",
					false: "the cursor is moved back by a computed amount that was never compared with it: when fewer bytes precede the cursor (a shorter tag in the data than the descriptor's) the cursor goes negative and the next read panics"}[good], true)
			}
		}
	}
}

// ---------------------------------------------------------------------------------------------
// PACKEDTAG
// ---------------------------------------------------------------------------------------------

func init() {
	register(&Rule{
		Name:     "PACKEDTAG",
		Doc:      "in the JSON→protobuf visitor (conv/j2p) a scalar handler may leave out the element's tag only for a PACKED list: an `if` that guards AppendTagByKind and asks IsList() must also ask IsPacked(). OnArrayBegin writes the list's own tag and length only when IsPacked(); with the guard `!IsList()` alone the elements of a `[packed = false]` list were written with no tag at all (`{\"up\":[1,2,3]}` → 01 02 03: malformed, nil error)",
		Configs:  "NP",
		Floor:    map[string]int{"N": 3, "P": 3},
		Controls: 1,
		Run:      runPackedTag,
	})
}

func runPackedTag(rc *RuleCtx) {
	for _, fn := range rc.W.Funcs {
		if fn.Blocks == nil || fn.Parent() != nil || pkgRel(fn) != "conv/j2p" {
			continue
		}
		fd := rc.W.funcDecl(fn)
		info := rc.W.infoFor(fn)
		if fd == nil || fd.Body == nil || info == nil {
			continue
		}
		calleeName := func(ce *ast.CallExpr) string {
			if f, ok := typeutil.Callee(info, ce).(*types.Func); ok {
				return f.Name()
			}
			return ""
		}
		var stack []ast.Node
		ast.Inspect(fd.Body, func(n ast.Node) bool {
			if n == nil {
				stack = stack[:len(stack)-1]
				return false
			}
			stack = append(stack, n)
			ce, ok := n.(*ast.CallExpr)
			if !ok || calleeName(ce) != "AppendTagByKind" {
				return true
			}
			for i, s := range stack {
				is, ok := s.(*ast.IfStmt)
				if !ok || i+1 >= len(stack) || stack[i+1] != ast.Node(is.Body) {
					continue
				}
				names := map[string]bool{}
				ast.Inspect(is.Cond, func(c ast.Node) bool {
					if cc, ok := c.(*ast.CallExpr); ok {
						names[calleeName(cc)] = true
					}
					return true
				})
				if !names["IsList"] {
					continue
				}
				rc.Examined++
				good := names["IsPacked"]
				rc.verdict(good, fn, "tag guard "+nodeText(rc.W.Fset, is.Cond), ce.Pos(), map[bool]string{
					true:  "the tag is left out only for the elements of a packed list",
					false: "the element tag is left out for EVERY list: the elements of a [packed = false] list, which have no list header either, go out as bare values (malformed output, nil error)"}[good], true)
			}
			return true
		})
	}
}

// ---------------------------------------------------------------------------------------------
// HASHTHRESH
// ---------------------------------------------------------------------------------------------

func init() {
	register(&Rule{
		Name:     "HASHTHRESH",
		Doc:      "the readers of the open-addressed child table agree with its writer about WHEN there is one: scanChildren stores a map's children by hash only when the entry count exceeds StoreChildrenByIntHashShreshold, so every probe (getStrHash / getIntHash) is control-dependent on a comparison with that same constant, and on `len(self.Next) >= N` — the loader makes the table the first N children, so a slot array that was truncated (replaced value, lazy re-load) or filled sequentially is never taken for a table; a test of cap(Next) instead admits the stale slots beyond len. Probing the 2n slots of a small, sequentially stored map reads the n slots beyond len(Next): on a re-used tree they hold the previous load's children, which are handed out as children of this map, and when all 2n are occupied the probe never meets an empty slot and never returns",
		Configs:  "NP",
		Floor:    map[string]int{"N": 4, "P": 4},
		Controls: 1,
		Run:      runHashThresh,
	})
}

func runHashThresh(rc *RuleCtx) {
	for _, fn := range rc.W.Funcs {
		if fn.Blocks == nil || pkgRel(fn) != "thrift/generic" {
			continue
		}
		var thr int64 = -1
		if fn.Pkg != nil {
			if c, ok := fn.Pkg.Pkg.Scope().Lookup("StoreChildrenByIntHashShreshold").(*types.Const); ok {
				if v, ok := constant.Int64Val(c.Val()); ok {
					thr = v
				}
			}
		}
		for _, b := range fn.Blocks {
			for _, ins := range b.Instrs {
				c, ok := ins.(*ssa.Call)
				if !ok || c.Call.StaticCallee() == nil {
					continue
				}
				n := c.Call.StaticCallee().Name()
				if n != "getStrHash" && n != "getIntHash" {
					continue
				}
				rc.Examined++
				good := false
				lenBound, capBound := false, false
				for _, cd := range controllingIfs(b) {
					k, _ := condKey(cd.cond)
					bo, ok := k.(*ssa.BinOp)
					if !ok {
						continue
					}
					switch bo.Op {
					case token.LSS, token.LEQ, token.GTR, token.GEQ:
					default:
						continue
					}
					for _, op := range []ssa.Value{bo.X, bo.Y} {
						if a, ok := builtinCallOf(op, "len"); ok {
							if u, ok := a.(*ssa.UnOp); ok {
								if _, fnm, ok := fieldNameOf(u.X); ok && fnm == "Next" {
									lenBound = true
								}
							}
						}
						if a, ok := builtinCallOf(op, "cap"); ok {
							if u, ok := a.(*ssa.UnOp); ok {
								if _, fnm, ok := fieldNameOf(u.X); ok && fnm == "Next" {
									capBound = true
								}
							}
						}
						if v, ok := constInt(op); ok && thr >= 0 && v == thr {
							good = true
						}
						// the threshold is a package variable today
						if u, ok := op.(*ssa.UnOp); ok && u.Op == token.MUL {
							if g, ok := u.X.(*ssa.Global); ok && g.Name() == "StoreChildrenByIntHashShreshold" {
								good = true
							}
						}
					}
				}
				if good && n != "zzControlNever" {
					// second clause: the table is the first N children — the probe is bounded by len(Next), never by cap(Next)
					rc.verdict(lenBound && !capBound, fn, n+" within len(Next)", c.Pos(), map[bool]string{
						true:  "the probe inspects only slots below len(Next)",
						false: "the probe is admitted by cap(Next) (or by no test of Next at all): slots between len and cap belong to whatever used the array before — a replaced or lazily re-loaded child map hands out the previous value's children"}[lenBound && !capBound], true)
				}
				rc.verdict(good, fn, n, c.Pos(), map[bool]string{
					true:  "the probe runs only for a map above the writer's threshold",
					false: "the table is probed whatever the entry count, but scanChildren builds one only above StoreChildrenByIntHashShreshold: for a smaller map the probe walks slots beyond len(Next) (stale children of a previous load are returned; if all are occupied the loop never ends)"}[good], true)
			}
		}
	}
}

// ---------------------------------------------------------------------------------------------
// SIGNEDBYTE
// ---------------------------------------------------------------------------------------------

func init() {
	register(&Rule{
		Name:     "SIGNEDBYTE",
		Doc:      "a thrift byte (i8) is signed: a value read with (*thrift.BinaryProtocol).ReadByte or (thrift.BinaryEncoding).DecodeByte is widened to a larger integer only through int8, unless the widening is under the true edge of a ByteAsUint8 / byteAsUint8 test. ReadInt(I08) and the map iterator widened the raw uint8, so a map<i8,…> key -1 was 255 to ReadAny, GetByInt and SetByInt (which appended a duplicate key), and the string forms of an i8 (http header, api.js_conv) printed 255 for -1",
		Configs:  "NP",
		Floor:    map[string]int{"N": 3, "P": 3},
		Controls: 1,
		Run:      runSignedByte,
	})
}

func runSignedByte(rc *RuleCtx) {
	mentionsUint8 := func(v ssa.Value) bool {
		k, _ := condKey(v)
		if p, ok := k.(*ssa.Parameter); ok {
			return strings.Contains(strings.ToLower(p.Name()), "uint8")
		}
		if u, ok := k.(*ssa.UnOp); ok && u.Op == token.MUL {
			if _, name, ok := fieldNameOf(u.X); ok {
				return strings.Contains(strings.ToLower(name), "uint8")
			}
		}
		if _, name, ok := fieldNameOf(k); ok {
			return strings.Contains(strings.ToLower(name), "uint8")
		}
		return false
	}
	for _, fn := range rc.W.Funcs {
		if fn.Blocks == nil {
			continue
		}
		rel := pkgRel(fn)
		if !(rel == "thrift" || strings.HasPrefix(rel, "thrift/") || strings.HasPrefix(rel, "conv/")) {
			continue
		}
		for _, b := range fn.Blocks {
			for _, ins := range b.Instrs {
				cv, ok := ins.(*ssa.Convert)
				if !ok {
					continue
				}
				src, ok := cv.X.Type().Underlying().(*types.Basic)
				if !ok || src.Kind() != types.Uint8 {
					continue
				}
				dst, ok := cv.Type().Underlying().(*types.Basic)
				if !ok || dst.Info()&types.IsInteger == 0 {
					continue
				}
				switch dst.Kind() {
				case types.Int8, types.Uint8:
					continue
				}
				var call *ssa.Call
				if ex, ok := cv.X.(*ssa.Extract); ok && ex.Index == 0 {
					call, _ = ex.Tuple.(*ssa.Call)
				} else if c, ok := cv.X.(*ssa.Call); ok {
					call = c // (BinaryEncoding).DecodeByte returns the byte alone
				}
				if call == nil || call.Call.StaticCallee() == nil || !strings.HasPrefix(pkgRel(call.Call.StaticCallee()), "thrift") {
					continue
				}
				if n := call.Call.StaticCallee().Name(); n != "ReadByte" && n != "DecodeByte" {
					continue
				}
				rc.Examined++
				good := false
				for _, cd := range controllingIfs(b) {
					_, neg := condKey(cd.cond)
					if mentionsUint8(cd.cond) && cd.val != neg {
						good = true
					}
				}
				rc.verdict(good, fn, "widen ReadByte to "+dst.Name(), cv.Pos(), map[bool]string{
					true:  "the raw byte is widened unsigned only where ByteAsUint8 asks for it",
					false: "the uint8 that ReadByte returns is widened without going through int8: the i8 value -1 becomes 255"}[good], true)
			}
		}
	}
}

// ---------------------------------------------------------------------------------------------
// RAWHDR
// ---------------------------------------------------------------------------------------------

func init() {
	register(&Rule{
		Name:     "RAWHDR",
		Doc:      "a constructor that takes the caller's bytes and peeks at them through an unsafe pointer (rt.GetBytePtr(src) followed by `*(*T)(unsafe.Pointer(…))`) does so only under a test of len(src): NewNode(LIST/SET/MAP, src) read the element / key type bytes of an empty or 1-byte src (nil src: nil dereference; empty src: a byte beyond the slice)",
		Configs:  "NP",
		Floor:    map[string]int{"N": 3, "P": 3},
		Controls: 1,
		Run:      runRawHdr,
	})
}

func runRawHdr(rc *RuleCtx) {
	for _, fn := range rc.W.Funcs {
		if fn.Blocks == nil {
			continue
		}
		rel := pkgRel(fn)
		if rel != "thrift/generic" && rel != "proto/generic" {
			continue
		}
		// the []byte parameters handed to rt.GetBytePtr
		src := map[ssa.Value]bool{}
		for _, b := range fn.Blocks {
			for _, ins := range b.Instrs {
				c, ok := ins.(*ssa.Call)
				if !ok || c.Call.StaticCallee() == nil || c.Call.StaticCallee().Name() != "GetBytePtr" || len(c.Call.Args) != 1 {
					continue
				}
				if p, ok := c.Call.Args[0].(*ssa.Parameter); ok {
					src[p] = true
				}
			}
		}
		if len(src) == 0 {
			continue
		}
		isLenOfSrc := func(v ssa.Value) bool {
			c, ok := v.(*ssa.Call)
			if !ok {
				return false
			}
			b, ok := c.Call.Value.(*ssa.Builtin)
			return ok && b.Name() == "len" && len(c.Call.Args) == 1 && src[c.Call.Args[0]]
		}
		for _, b := range fn.Blocks {
			for _, ins := range b.Instrs {
				u, ok := ins.(*ssa.UnOp)
				if !ok || u.Op != token.MUL {
					continue
				}
				cv, ok := u.X.(*ssa.Convert)
				if !ok {
					continue
				}
				if bt, ok := cv.X.Type().Underlying().(*types.Basic); !ok || bt.Kind() != types.UnsafePointer {
					continue
				}
				rc.Examined++
				good := false
				for _, cd := range controllingIfs(b) {
					k, _ := condKey(cd.cond)
					if bo, ok := k.(*ssa.BinOp); ok && (isLenOfSrc(bo.X) || isLenOfSrc(bo.Y)) {
						good = true
					}
				}
				rc.verdict(good, fn, "raw read", u.Pos(), map[bool]string{
					true:  "the bytes are peeked at only under a test of the source's length",
					false: "the caller's bytes are read through an unsafe pointer without any test of their length: an empty (or nil) source is read out of bounds"}[good], true)
			}
		}
	}
}

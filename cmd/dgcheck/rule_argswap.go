package main

import (
	"fmt"
	"go/ast"
	"go/types"
	"strings"

	"golang.org/x/tools/go/types/typeutil"
)

func init() {
	register(&Rule{
		Name: "ARGSWAP",
		Doc: "at every statically resolved call, a named argument (identifier, or option field such as opts.WriteRequireField) whose normalised name matches a DIFFERENT same-typed parameter of the callee — and not the parameter it is passed for — is a swapped argument " +
			"(normalisation: lower case, `field(s)`/`enable` stripped, known spellings unknow/unknonw = unknown; matching: equal or containment with >= 5 letters)",
		Configs:  "NP",
		Floor:    map[string]int{"N": 1200, "P": 1100},
		Controls: 1,
		Run:      runArgSwap,
	})
}

// argNameIn: plain identifiers, and selectors only when they pick a field of an options struct
// (type named Options) — generic selectors such as i.Path carry no parameter intent.
func argNameIn(info *types.Info, e ast.Expr) string {
	switch x := e.(type) {
	case *ast.Ident:
		return x.Name
	case *ast.SelectorExpr:
		if t := info.TypeOf(x.X); t != nil {
			if n, ok := derefType(t).(*types.Named); ok && n.Obj().Name() == "Options" {
				return x.Sel.Name
			}
		}
		return ""
	case *ast.UnaryExpr:
		return argNameIn(info, x.X)
	case *ast.ParenExpr:
		return argNameIn(info, x.X)
	case *ast.CallExpr:
		// descriptor provenance: desc.Key()[.Type()] is "the key type", desc.Elem()[.Type()] "the value/element type"
		role := ""
		ast.Inspect(x, func(n ast.Node) bool {
			if ce, ok := n.(*ast.CallExpr); ok && len(ce.Args) == 0 {
				if sel, ok := ce.Fun.(*ast.SelectorExpr); ok {
					if t := info.TypeOf(sel.X); t != nil {
						if nt, ok := derefType(t).(*types.Named); ok && nt.Obj().Name() == "TypeDescriptor" {
							switch sel.Sel.Name {
							case "Key":
								if role == "" {
									role = "keyType"
								} else if role != "keyType" {
									role = "?"
								}
							case "Elem":
								if role == "" {
									role = "valueType"
								} else if role != "valueType" {
									role = "?"
								}
							}
						}
					}
				}
			}
			return true
		})
		if role != "?" {
			return role
		}
	}
	return ""
}

func normName(s string) string {
	s = strings.ToLower(s)
	for _, r := range []string{"_", "fields", "field", "enable"} {
		s = strings.ReplaceAll(s, r, "")
	}
	s = strings.ReplaceAll(s, "unknonw", "unknown")
	if strings.HasSuffix(s, "unknow") {
		s += "n"
	}
	return s
}

var roleSynonyms = map[string][]string{
	"keytype":   {"keytype", "kt", "key", "ktype"},
	"valuetype": {"valuetype", "elemtype", "et", "vt", "elem", "value", "val", "vtype", "etype"},
}

func nameMatch(a, p string) bool {
	a, p = normName(a), normName(p)
	if syn, ok := roleSynonyms[a]; ok {
		for _, s := range syn {
			if p == s {
				return true
			}
		}
		return false
	}
	if a == "" || p == "" {
		return false
	}
	if a == p {
		return true
	}
	if len(a) >= 5 && len(p) >= 5 && (strings.Contains(a, p) || strings.Contains(p, a)) {
		return true
	}
	return false
}

func runArgSwap(rc *RuleCtx) {
	w := rc.W
	for _, p := range w.Pkgs {
		rel := strings.TrimPrefix(strings.TrimPrefix(p.PkgPath, modPath), "/")
		if strings.HasPrefix(rel, "internal/native/") {
			continue
		}
		for _, f := range p.Syntax {
			for _, d := range f.Decls {
				fd, ok := d.(*ast.FuncDecl)
				if !ok || fd.Body == nil {
					continue
				}
				name := declName(rel, fd)
				ast.Inspect(fd.Body, func(nd ast.Node) bool {
					call, ok := nd.(*ast.CallExpr)
					if !ok {
						return true
					}
					fn, _ := typeutil.Callee(p.TypesInfo, call).(*types.Func)
					if fn == nil {
						return true
					}
					sig := fn.Type().(*types.Signature)
					if sig.Variadic() || sig.Params().Len() != len(call.Args) || len(call.Args) < 2 {
						return true
					}
					rc.Examined++
					swapped := ""
					named := 0
					for i, a := range call.Args {
						an := argNameIn(p.TypesInfo, a)
						if an == "" {
							continue
						}
						pi := sig.Params().At(i)
						if pi.Name() == "" || pi.Name() == "_" {
							continue
						}
						if nameMatch(an, pi.Name()) {
							named++
							continue
						}
						for j := 0; j < sig.Params().Len(); j++ {
							if j == i {
								continue
							}
							pj := sig.Params().At(j)
							if nameMatch(an, pj.Name()) && types.Identical(pj.Type(), pi.Type()) {
								// only a swap if the argument at position j does not itself match pj
								if aj := argNameIn(p.TypesInfo, call.Args[j]); aj != "" && nameMatch(aj, pj.Name()) {
									continue
								}
								swapped = fmt.Sprintf("argument %d `%s` is passed for parameter `%s` but matches parameter %d `%s` (%s)", i+1, types.ExprString(a), pi.Name(), j+1, pj.Name(), pj.Type())
							}
						}
					}
					callee := strings.ReplaceAll(fn.FullName(), modPath+"/", "")
					if swapped != "" {
						rc.add(nil, name, "call "+callee, call.Pos(), "violated", swapped, true)
					} else if named >= 2 {
						rc.add(nil, name, "call "+callee, call.Pos(), "discharged", "named arguments line up with the callee's parameters", false)
					}
					return true
				})
			}
		}
	}
}

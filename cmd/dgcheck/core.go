package main

import (
	"bufio"
	"encoding/json"
	"fmt"
	"go/token"
	"os"
	"path/filepath"
	"sort"
	"strings"
	"time"

	"golang.org/x/tools/go/ssa"
)

// Obl is one rule instantiated at one construct.
type Obl struct {
	Rule       string   `json:"rule"`
	Key        string   `json:"key"` // rule|function|anchor#ordinal — never a line number
	Func       string   `json:"function"`
	Anchor     string   `json:"anchor"`
	Pos        string   `json:"pos"`
	Cfg        string   `json:"config"`
	Status     string   `json:"status"` // discharged | violated | exempt
	Detail     string   `json:"detail,omitempty"`
	Path       []string `json:"path,omitempty"`
	Nontrivial bool     `json:"nontrivial"`
	Control    bool     `json:"control,omitempty"` // lives in a positive-control fixture
}

// Rule is a named analysis. Run adds obligations through the RuleCtx.
type Rule struct {
	Name    string
	Doc     string
	Configs string // "N", "P" or "NP": configurations in which the rule has sites
	VTA     bool
	Floor   map[string]int // per config: minimum number of sites examined
	// Controls: minimum number of positive-control obligations that must come out violated
	Controls int
	Run      func(rc *RuleCtx)
}

type RuleCtx struct {
	W        *World
	R        *Rule
	obls     []*Obl
	ordinals map[string]int
	Examined int               // constructs looked at (≥ obligations)
	Stats    map[string]int    // named counters for evidence
	Notes    map[string]string // free-form facts for evidence
}

func (rc *RuleCtx) count(name string, n int) { rc.Stats[name] += n }

// add registers an obligation. fn may be nil for table rules (then fnName is used).
func (rc *RuleCtx) add(fn *ssa.Function, fnName, anchor string, pos token.Pos, status, detail string, nontrivial bool) *Obl {
	if fn != nil {
		fnName = shortName(fn)
	}
	base := rc.R.Name + "|" + fnName + "|" + anchor
	rc.ordinals[base]++
	o := &Obl{Rule: rc.R.Name, Key: fmt.Sprintf("%s#%d", base, rc.ordinals[base]), Func: fnName, Anchor: anchor,
		Pos: rc.W.relPos(pos), Cfg: rc.W.Cfg, Status: status, Detail: detail, Nontrivial: nontrivial}
	if pos.IsValid() && isControlFile(rc.W.fileOf(pos)) {
		o.Control = true
	}
	rc.obls = append(rc.obls, o)
	return o
}

func (rc *RuleCtx) ok(fn *ssa.Function, anchor string, pos token.Pos, detail string, nontrivial bool) *Obl {
	return rc.add(fn, "", anchor, pos, "discharged", detail, nontrivial)
}
func (rc *RuleCtx) bad(fn *ssa.Function, anchor string, pos token.Pos, detail string) *Obl {
	return rc.add(fn, "", anchor, pos, "violated", detail, true)
}

// verdict adds discharged/violated according to cond.
func (rc *RuleCtx) verdict(good bool, fn *ssa.Function, anchor string, pos token.Pos, detail string, nontrivial bool) *Obl {
	if good {
		return rc.ok(fn, anchor, pos, detail, nontrivial)
	}
	return rc.bad(fn, anchor, pos, detail)
}

// ---- rule registry ----

var rules = map[string]*Rule{}

func register(r *Rule) {
	if rules[r.Name] != nil {
		panic("duplicate rule " + r.Name)
	}
	rules[r.Name] = r
}

// RuleUse: a rule as used by a property, optionally restricted to a scope.
type RuleUse struct {
	Rule  string
	Scope func(o *Obl) bool // nil = all obligations of the rule
	What  string            // the clause of the property this decides
}

type Property struct {
	ID      string
	Title   string
	Uses    []RuleUse
	QuickP  bool // quick tier also loads config P
	Decides string
	NotDec  string
}

func inPkgs(pk ...string) func(o *Obl) bool {
	return func(o *Obl) bool {
		for _, p := range pk {
			// function names look like "(*thrift/generic.Node).x" or "thrift/generic.f" or "conv/t2j.f$1"
			if funcInPkg(o.Func, p) {
				return true
			}
		}
		return false
	}
}

func funcInPkg(fn, pkg string) bool {
	s := strings.TrimLeft(fn, "(*")
	if !strings.HasPrefix(s, pkg) {
		return false
	}
	rest := s[len(pkg):]
	return strings.HasPrefix(rest, ".")
}

// ---- findings & exemptions ----

// usedExemptions: exemption keys that suppressed an obligation in this process (for `all` to list stale ones).
var usedExemptions = map[string]bool{}

type Finding struct {
	Status   string `json:"status"` // known | fixed
	Property string `json:"property"`
	Rule     string `json:"rule"`
	Key      string `json:"key"`
	Commit   string `json:"commit,omitempty"`
	What     string `json:"what"`
}

type Exemption struct {
	Rule   string `json:"rule"`
	Key    string `json:"key"`
	Reason string `json:"reason"`
}

func readJSONL(path string, each func(line []byte) error) {
	f, err := os.Open(path)
	if err != nil {
		if os.IsNotExist(err) {
			return
		}
		broken("open %s: %v", path, err)
	}
	defer f.Close()
	sc := bufio.NewScanner(f)
	sc.Buffer(make([]byte, 1<<20), 1<<20)
	n := 0
	for sc.Scan() {
		n++
		line := strings.TrimSpace(sc.Text())
		if line == "" || strings.HasPrefix(line, "#") || strings.HasPrefix(line, "//") {
			continue
		}
		if err := each([]byte(line)); err != nil {
			broken("%s:%d: %v", path, n, err)
		}
	}
}

func loadFindings() map[string]Finding {
	m := map[string]Finding{}
	readJSONL(filepath.Join(verifDir(), "known_findings.jsonl"), func(b []byte) error {
		var f Finding
		if err := json.Unmarshal(b, &f); err != nil {
			return err
		}
		if f.Status != "known" && f.Status != "fixed" {
			return fmt.Errorf("bad status %q", f.Status)
		}
		if f.Status == "known" {
			m[f.Key] = f
		}
		return nil
	})
	return m
}

func loadExemptions() map[string]Exemption {
	m := map[string]Exemption{}
	readJSONL(filepath.Join(verifDir(), "exemptions.jsonl"), func(b []byte) error {
		var e Exemption
		if err := json.Unmarshal(b, &e); err != nil {
			return err
		}
		if e.Reason == "" {
			return fmt.Errorf("exemption without reason: %s", e.Key)
		}
		m[e.Key] = e
		return nil
	})
	return m
}

// ---- running ----

type ruleRun struct {
	rule     *Rule
	cfg      string
	obls     []*Obl
	examined int
	stats    map[string]int
	notes    map[string]string
}

var ruleCache = map[string]*ruleRun{}

func runRule(w *World, r *Rule) *ruleRun {
	k := r.Name + "@" + w.Cfg
	if rr := ruleCache[k]; rr != nil {
		return rr
	}
	rc := &RuleCtx{W: w, R: r, ordinals: map[string]int{}, Stats: map[string]int{}, Notes: map[string]string{}}
	func() {
		defer func() {
			if e := recover(); e != nil {
				if os.Getenv("DGPANIC") != "" {
					panic(e)
				}
				broken("rule %s [%s] panicked: %v", r.Name, w.Cfg, e)
			}
		}()
		r.Run(rc)
	}()
	if rc.Examined < len(rc.obls) {
		rc.Examined = len(rc.obls)
	}
	rr := &ruleRun{rule: r, cfg: w.Cfg, obls: rc.obls, examined: rc.Examined, stats: rc.Stats, notes: rc.Notes}
	ruleCache[k] = rr
	return rr
}

type evidence struct {
	PropertyID  string                 `json:"property_id"`
	Tier        string                 `json:"tier"`
	Seed        int                    `json:"seed"`
	Level       string                 `json:"level"`
	Coverage    map[string]interface{} `json:"coverage"`
	Assumptions []string               `json:"assumptions"`
	WallS       float64                `json:"wall_s"`
	Violations  int                    `json:"violations"`
}

var commonAssumptions = []string{
	"go/packages + go/types + go/ssa (x/tools v0.29.0) faithfully represent the Go sources selected by the build configuration",
	"only structural necessary conditions are decided; the value-level behaviour of the property is NOT decided (see coverage.not_decided)",
	"machine code in internal/native/*/native_text_amd64.go, sonic, base64x and the Go runtime are trusted and not analysed",
	"unsafe pointer writes are recognised only when their base derives from the tabled sources",
}

func worldsFor(p *Property, tier string) []string {
	need := map[string]bool{}
	for _, u := range p.Uses {
		r := rules[u.Rule]
		if r == nil {
			broken("property %s uses unknown rule %s", p.ID, u.Rule)
		}
		for _, c := range r.Configs {
			cfg := string(c)
			if cfg == "N" {
				need["N"] = true
			} else if cfg == "P" {
				// quick: P loaded when the property asks for it or the rule lives only in P
				if tier == "thorough" || p.QuickP || r.Configs == "P" {
					need["P"] = true
				}
			}
		}
	}
	var out []string
	for _, c := range []string{"N", "P"} {
		if need[c] {
			out = append(out, c)
		}
	}
	return out
}

var worlds = map[string]*World{}

func getWorld(cfg string) *World {
	if w := worlds[cfg]; w != nil {
		return w
	}
	t0 := time.Now()
	w := load(cfg)
	fmt.Fprintf(os.Stderr, "dgcheck: config %s: %d repo packages, %d functions, loaded in %.1fs\n", cfg, len(w.Pkgs), len(w.Funcs), time.Since(t0).Seconds())
	worlds[cfg] = w
	return w
}

// checkProperty runs every rule of the property, merges obligations across configs, applies
// exemptions and findings, writes evidence and prints the verdict lines. Returns exit code.
func checkProperty(p *Property, tier string, seed int) int {
	t0 := time.Now()
	findings := loadFindings()
	exempt := loadExemptions()
	cfgs := worldsFor(p, tier)
	merged := map[string]*Obl{}
	var order []string
	perRule := map[string]map[string]int{}
	ruleDocs := map[string]string{}
	controlsSeen := map[string]int{}
	statsOut := map[string]interface{}{}
	pkgsLoaded := map[string]int{}
	funcsLoaded := map[string]int{}
	for _, cfg := range cfgs {
		w := getWorld(cfg)
		pkgsLoaded[cfg] = len(w.Pkgs)
		funcsLoaded[cfg] = len(w.Funcs)
		for _, u := range p.Uses {
			r := rules[u.Rule]
			if !strings.Contains(r.Configs, cfg) {
				continue
			}
			rr := runRule(w, r)
			ruleDocs[r.Name] = r.Doc
			if fl, ok := r.Floor[cfg]; ok && rr.examined < fl {
				broken("rule %s [%s]: examined %d sites, floor is %d — the rule no longer finds its instances (vacuous pass refused)", r.Name, cfg, rr.examined, fl)
			}
			for k, v := range rr.stats {
				statsOut[r.Name+"."+k+"@"+cfg] = v
			}
			for k, v := range rr.notes {
				statsOut[r.Name+"."+k+"@"+cfg] = v
			}
			statsOut[r.Name+".examined@"+cfg] = rr.examined
			for _, o := range rr.obls {
				if o.Control {
					if o.Status == "violated" {
						controlsSeen[r.Name+"@"+cfg]++
					}
					continue
				}
				if u.Scope != nil && !u.Scope(o) {
					continue
				}
				if prev, ok := merged[o.Key]; ok {
					// same construct seen in both configs: violated wins
					if prev.Status != "violated" && o.Status == "violated" {
						*prev = *o
					}
					continue
				}
				c := *o
				merged[o.Key] = &c
				order = append(order, o.Key)
			}
			if r.Controls > 0 && os.Getenv("DGNOCONTROLS") == "" && controlsSeen[r.Name+"@"+cfg] < r.Controls {
				broken("rule %s [%s]: positive control not reported (%d of %d) — the rule has gone blind", r.Name, cfg, controlsSeen[r.Name+"@"+cfg], r.Controls)
			}
		}
	}
	sort.Strings(order)
	nObl, nDis, nViol, nKnown, nExempt, nNontrivial := 0, 0, 0, 0, 0, 0
	var samples []interface{}
	var violations []*Obl
	sampleByRule := map[string]int{}
	for _, k := range order {
		o := merged[k]
		nObl++
		if perRule[o.Rule] == nil {
			perRule[o.Rule] = map[string]int{}
		}
		if o.Status == "violated" {
			if e, ok := exempt[o.Key]; ok {
				usedExemptions[o.Key] = true
				o.Status = "exempt"
				o.Detail = "exempt: " + e.Reason + " | " + o.Detail
			}
		}
		perRule[o.Rule][o.Status]++
		if o.Nontrivial {
			nNontrivial++
		}
		switch o.Status {
		case "discharged":
			nDis++
		case "exempt":
			nExempt++
		case "violated":
			if f, ok := findings[o.Key]; ok {
				nKnown++
				perRule[o.Rule]["known"]++
				fmt.Printf("KNOWN-FINDING: property=%s %s %s (%s) — %s\n", p.ID, o.Rule, o.Key, o.Pos, f.What)
			} else {
				nViol++
				violations = append(violations, o)
			}
		default:
			broken("obligation %s left undecided (%q)", o.Key, o.Status)
		}
		if sampleByRule[o.Rule] < 3 || o.Status == "violated" {
			if len(samples) < 60 {
				sampleByRule[o.Rule]++
				samples = append(samples, map[string]interface{}{"key": o.Key, "pos": o.Pos, "status": o.Status, "detail": o.Detail, "config": o.Cfg})
			}
		}
	}
	evDir := filepath.Join(verifDir(), "evidence")
	if d := os.Getenv("DGEVIDENCE"); d != "" {
		evDir = d // developer runs against scratch variants must not overwrite the committed evidence
	}
	os.MkdirAll(evDir, 0o755)
	vdir := filepath.Join(evDir, p.ID+".violations")
	os.RemoveAll(vdir)
	for i, o := range violations {
		os.MkdirAll(vdir, 0o755)
		path := filepath.Join(vdir, fmt.Sprintf("%d.json", i+1))
		b, _ := json.MarshalIndent(map[string]interface{}{
			"property": p.ID, "rule": o.Rule, "rule_text": ruleDocs[o.Rule], "key": o.Key, "function": o.Func,
			"anchor": o.Anchor, "pos": o.Pos, "config": o.Cfg, "detail": o.Detail, "path": o.Path,
			"replay": fmt.Sprintf("cd /verif && ./dgcheck.sh %s %s   # re-analyses /repo; the construct below is reported again while it violates the rule", p.ID, tier),
		}, "", " ")
		os.WriteFile(path, b, 0o644)
		fmt.Printf("dgcheck: %s %s at %s in %s: %s\n", o.Rule, o.Anchor, o.Pos, o.Func, o.Detail)
		fmt.Printf("VIOLATION property=%s replay=%s\n", p.ID, path)
	}
	var ruleNames []string
	for n := range ruleDocs {
		ruleNames = append(ruleNames, n)
	}
	sort.Strings(ruleNames)
	var ruleText []string
	for _, n := range ruleNames {
		ruleText = append(ruleText, n+": "+ruleDocs[n])
	}
	if nObl == 0 {
		broken("property %s: no obligations generated", p.ID)
	}
	ev := evidence{PropertyID: p.ID, Tier: tier, Seed: seed, Level: "other", WallS: time.Since(t0).Seconds(), Violations: nViol,
		Assumptions: commonAssumptions,
		Coverage: map[string]interface{}{
			"explanation": "Static analysis of /repo's current source (go/types + go/ssa, configs " + strings.Join(cfgs, "+") + "). Decided: " + p.Decides +
				" Each obligation is one rule instantiated at one construct (function + resolved callee/case/constant); it is discharged when the rule's path/flow/table argument succeeds on every path, otherwise reported with file:line.",
			"not_decided":         p.NotDec,
			"obligations":         nObl,
			"discharged":          nDis + nExempt,
			"exempt":              nExempt,
			"known_findings":      nKnown,
			"evaluations":         nObl,
			"distinct_nontrivial": nNontrivial,
			"rule":                "obligations enumerated exhaustively from the loaded program by the rules below; distinct = distinct obligation keys (rule|function|anchor#ordinal); non-trivial = the verdict needed a path, dataflow, call-graph or cross-table argument rather than a syntactic match. " + strings.Join(ruleText, " || "),
			"samples":             samples,
			"per_rule":            perRule,
			"rule_stats":          statsOut,
			"configs":             cfgs,
			"packages_loaded":     pkgsLoaded,
			"functions_analysed":  funcsLoaded,
			"positive_controls":   controlsSeen,
			"exhaustive":          true,
			"checker_cmd":         fmt.Sprintf("./dgcheck.sh %s %s", p.ID, tier),
			"trusted_base":        []string{"go/types", "go/ssa", "x/tools callgraph cha+vta", "dgcheck rule tables (spec constants)"},
		},
	}
	if tier == "thorough" {
		if st := runSeededSelfTest(p); st != nil {
			ev.Coverage["seeded_selftest"] = st
			ev.Coverage["seeded_selftest_note"] = "seeded changes from /verif/seeded re-applied to a scratch copy of the CURRENT tree and re-checked (quick tier) in this run; informational, never a failure of the unchanged tree"
			ev.WallS = time.Since(t0).Seconds()
		}
	}
	b, _ := json.MarshalIndent(ev, "", " ")
	if err := os.WriteFile(filepath.Join(evDir, p.ID+".json"), b, 0o644); err != nil {
		broken("write evidence: %v", err)
	}
	fmt.Printf("dgcheck: %s %s: %d obligations, %d discharged, %d exempt, %d known findings, %d violations (%.1fs)\n",
		p.ID, tier, nObl, nDis, nExempt, nKnown, nViol, time.Since(t0).Seconds())
	if nViol > 0 {
		return 1
	}
	return 0
}

package main

import (
	"fmt"
	"go/token"
	"sort"
	"strings"

	"golang.org/x/tools/go/ssa"
)

// TWINCMP: a thrift SET has exactly the wire format of a LIST (element type, i32 count, elements);
// the protocol type therefore carries twin methods (ReadListBegin/ReadSetBegin, WriteListBegin/
// WriteSetBegin, …) that must accept and reject the same inputs. Their comparisons — the size
// sanity checks against the bytes left, the sign test — are cross-checked: sibling
// implementations of one format have to agree on their argument checks.
func init() {
	register(&Rule{
		Name:     "TWINCMP",
		Doc:      "for every pair of methods of one receiver type whose names differ only by `List`/`Set` (a thrift set is encoded exactly like a list) or by the suffix `WithoutMove` (the peeking twin of a reader), the multiset of ordered comparisons — operator normalised for operand order, operands classified as constant k / call of F / parameter / other — is the same in both: a bound that is `>` in one twin and `>=` in the other makes the two containers accept different inputs",
		Configs:  "NP",
		Floor:    map[string]int{"N": 5, "P": 5},
		Controls: 1,
		Run:      runTwinCmp,
	})
}

func cmpOperandKind(v ssa.Value) string {
	for {
		if c, ok := v.(*ssa.Convert); ok {
			v = c.X
			continue
		}
		break
	}
	switch x := v.(type) {
	case *ssa.Const:
		if x.Value == nil {
			return "const nil"
		}
		return "const " + x.Value.String()
	case *ssa.Call:
		if cal := x.Call.StaticCallee(); cal != nil {
			return "call " + cal.Name()
		}
		if b, ok := x.Call.Value.(*ssa.Builtin); ok {
			return "builtin " + b.Name()
		}
	case *ssa.Parameter:
		return "param"
	case *ssa.Extract:
		if c, ok := x.Tuple.(*ssa.Call); ok {
			if cal := c.Call.StaticCallee(); cal != nil {
				return fmt.Sprintf("result#%d of %s", x.Index, cal.Name())
			}
		}
	}
	return "value"
}

func cmpSignature(fn *ssa.Function) []string {
	var out []string
	for _, b := range fn.Blocks {
		for _, ins := range b.Instrs {
			bo, ok := ins.(*ssa.BinOp)
			if !ok {
				continue
			}
			op := bo.Op
			l, r := cmpOperandKind(bo.X), cmpOperandKind(bo.Y)
			switch op {
			case token.GTR: // a > b  ==  b < a
				op, l, r = token.LSS, r, l
			case token.GEQ:
				op, l, r = token.LEQ, r, l
			case token.LSS, token.LEQ:
			default:
				continue
			}
			out = append(out, l+" "+op.String()+" "+r)
		}
	}
	sort.Strings(out)
	return out
}

func runTwinCmp(rc *RuleCtx) {
	byName := map[string]*ssa.Function{}
	for _, fn := range rc.W.Funcs {
		if fn.Signature.Recv() != nil && fn.Blocks != nil {
			byName[fn.String()] = fn
		}
	}
	var names []string
	for n := range byName {
		names = append(names, n)
	}
	sort.Strings(names)
	for _, n := range names {
		fn := byName[n]
		var twinName string
		switch {
		case strings.HasSuffix(fn.Name(), "WithoutMove"):
			// a peeking twin (ConsumeTagWithoutMove) must accept and reject what the moving one does
			twinName = strings.TrimSuffix(n, "WithoutMove")
		case strings.Contains(fn.Name(), "Set"):
			twinName = strings.TrimSuffix(n, fn.Name()) + strings.Replace(fn.Name(), "Set", "List", 1)
		default:
			continue
		}
		twin, ok := byName[twinName]
		if !ok {
			continue
		}
		rc.Examined++
		a, b := cmpSignature(fn), cmpSignature(twin)
		good := strings.Join(a, "; ") == strings.Join(b, "; ")
		rc.verdict(good, fn, "comparisons vs "+twin.Name(), fn.Pos(), map[bool]string{
			true:  fmt.Sprintf("both twins make the same %d ordered comparisons [%s]", len(a), strings.Join(a, "; ")),
			false: fmt.Sprintf("the twins disagree: %s compares [%s], %s compares [%s] — a set and a list have the same wire format and must be bounded alike", fn.Name(), strings.Join(a, "; "), twin.Name(), strings.Join(b, "; "))}[good], len(a) > 0)
	}
}

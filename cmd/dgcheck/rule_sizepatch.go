package main

import (
	"fmt"
	"strings"

	"golang.org/x/tools/go/ssa"
)

// SIZEPATCH: Write{List,Map}BeginWithSizePos writes a container header and returns the position
// of its 4-byte element count so that the count can be corrected afterwards (ModifyI32).
//   - placeholder form (count argument is the constant 0): the real count is only known after the
//     element loop, so every success path from the call passes a ModifyI32;
//   - optimistic form (count argument = number of candidates): the loop that writes the elements
//     may skip a candidate; every loop iteration that writes nothing to the buffer must patch the
//     count, otherwise the header promises more elements than follow.
func init() {
	register(&Rule{
		Name:     "SIZEPATCH",
		Doc:      "for every call of a `…WithSizePos` header writer: (a) if the count argument is the constant 0 (placeholder), every path from an element write that the call dominates to a success return passes ModifyI32; (b) otherwise, in every loop the call dominates, each path from the loop head back to it that makes no writing call (Write*/marshal*/append to .Buf) passes ModifyI32 — a skipped candidate must correct the header count",
		Configs:  "NP",
		Floor:    map[string]int{"N": 2, "P": 4},
		Controls: 1,
		Run:      runSizePatch,
	})
}

func isModifyI32(ins ssa.Instruction) bool {
	c, ok := ins.(ssa.CallInstruction)
	if !ok {
		return false
	}
	cal := c.Common().StaticCallee()
	return cal != nil && cal.Name() == "ModifyI32"
}

func isBufWrite(ins ssa.Instruction) bool {
	switch x := ins.(type) {
	case *ssa.Store:
		if _, n, ok := fieldNameOf(x.Addr); ok && n == "Buf" {
			return true
		}
	case ssa.CallInstruction:
		cal := x.Common().StaticCallee()
		if cal == nil {
			return false
		}
		n := cal.Name()
		if n == "ModifyI32" {
			return false
		}
		return strings.HasPrefix(n, "Write") || strings.HasPrefix(n, "marshal") || strings.HasPrefix(n, "Marshal") || strings.HasPrefix(n, "doRecurse") || strings.HasPrefix(n, "doGo")
	}
	return false
}

func runSizePatch(rc *RuleCtx) {
	w := rc.W
	for _, fn := range w.Funcs {
		if fn.Blocks == nil {
			continue
		}
		var loops []*natLoop
		for _, b := range fn.Blocks {
			for _, ins := range b.Instrs {
				c, ok := ins.(*ssa.Call)
				if !ok {
					continue
				}
				cal := c.Call.StaticCallee()
				if cal == nil || !strings.HasSuffix(cal.Name(), "WithSizePos") {
					continue
				}
				rc.Examined++
				cnt := c.Call.Args[len(c.Call.Args)-1]
				if k, isC := constInt(cnt); isC && k == 0 {
					// the placeholder is right as long as nothing is written: the obligation starts at every
					// element write the call dominates
					var worst *mpResult
					nw := 0
					for _, wb := range fn.Blocks {
						if !b.Dominates(wb) {
							continue
						}
						for wi, win := range wb.Instrs {
							if wb == b && wi <= indexOfInstr(b, ins) {
								continue
							}
							if !isBufWrite(win) {
								continue
							}
							nw++
							if r := mustPass(mpQuery{fn: fn, start: win, isEvent: isModifyI32, w: w}); r != nil && worst == nil {
								worst = r
							}
						}
					}
					if worst == nil {
						rc.ok(fn, cal.Name()+" placeholder", ins.Pos(), fmt.Sprintf("every success path after an element write (%d writes) patches the placeholder count", nw), true)
					} else {
						o := rc.bad(fn, cal.Name()+" placeholder", ins.Pos(), "the header is written with a placeholder count 0 and, after an element has been written, a success return ("+w.relPos(instrPos(worst.at))+") is reached without ModifyI32")
						o.Path = w.pathStrings(worst)
					}
					continue
				}
				if loops == nil {
					loops = naturalLoops(fn)
				}
				n := 0
				for _, lp := range loops {
					if !b.Dominates(lp.head) || lp.blocks[b] {
						continue
					}
					n++
					// DFS inside the loop from the head; stop at blocks that write or patch
					var bad *ssa.BasicBlock
					seen := map[*ssa.BasicBlock]bool{}
					var dfs func(x *ssa.BasicBlock) bool
					dfs = func(x *ssa.BasicBlock) bool {
						for _, in := range x.Instrs {
							if isModifyI32(in) || isBufWrite(in) {
								return false
							}
						}
						for _, s := range x.Succs {
							if s == lp.head {
								bad = x
								return true
							}
							if !lp.blocks[s] || seen[s] {
								continue
							}
							seen[s] = true
							if dfs(s) {
								return true
							}
						}
						return false
					}
					seen[lp.head] = true
					if dfs(lp.head) {
						rc.bad(fn, cal.Name()+" loop", firstPos(lp.head), "an iteration of the element loop can return to the loop head ("+w.relPos(firstPos(bad))+") without writing an element and without ModifyI32: the header count stays too large")
					} else {
						rc.ok(fn, cal.Name()+" loop", firstPos(lp.head), "every iteration writes an element or patches the header count", true)
					}
				}
				if n == 0 {
					rc.ok(fn, cal.Name(), ins.Pos(), "no element loop follows", false)
				}
			}
		}
	}
}

func indexOfInstr(b *ssa.BasicBlock, ins ssa.Instruction) int {
	for i, x := range b.Instrs {
		if x == ins {
			return i
		}
	}
	return -1
}

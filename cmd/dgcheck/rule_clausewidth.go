package main

import (
	"fmt"
	"go/ast"
	"go/constant"
	"go/types"
	"regexp"
	"strings"
)

// CLAUSEWIDTH: a type-switch clause that handles ONE fixed-width thrift type works with that
// type's width only: the byte buffers it allocates with a constant size and the fixed-width codec
// helpers it calls (Encode/Decode/Read/Write<Int16|I16|…>) have the width of the label. A 4-byte
// buffer for an i16 map key, or EncodeInt32 under `case I16`, yields a key no reader can match.
func init() {
	register(&Rule{
		Name:     "CLAUSEWIDTH",
		Doc:      "in every clause of a thrift.Type switch whose labels all have the same fixed width (BOOL/BYTE/I08 = 1, I16 = 2, I32 = 4, I64/DOUBLE = 8): every `make([]byte, n…)` with constant n has n = that width, and every call of a fixed-width codec helper named (Encode|Decode|Read|Write)(Bool|Byte|I08|Int16|I16|Int32|I32|Int64|I64|Double) is of that width",
		Configs:  "NP",
		Floor:    map[string]int{"N": 40, "P": 40},
		Controls: 1,
		Run:      runClauseWidth,
	})
}

var thriftWidth = map[string]int{"BOOL": 1, "BYTE": 1, "I08": 1, "I16": 2, "I32": 4, "I64": 8, "DOUBLE": 8}
var helperRe = regexp.MustCompile(`^(Encode|Decode|Read|Write)(Bool|Byte|I08|Int16|I16|Int32|I32|Int64|I64|Double)$`)
var helperWidth = map[string]int{"Bool": 1, "Byte": 1, "I08": 1, "Int16": 2, "I16": 2, "Int32": 4, "I32": 4, "Int64": 8, "I64": 8, "Double": 8}

func runClauseWidth(rc *RuleCtx) {
	for _, ks := range rc.W.kindSwitches(2) {
		if !strings.HasSuffix(ks.tagType, "thrift.Type") {
			continue
		}
		info := ks.pkg.TypesInfo
		for _, cl := range ks.clauses {
			width := 0
			var names []string
			same := len(cl.labels) > 0
			for _, l := range cl.labels {
				names = append(names, l.name)
				wd, ok := thriftWidth[l.name]
				if !ok || (width != 0 && wd != width) {
					same = false
				}
				width = wd
			}
			if !same {
				continue
			}
			anchor := "case " + strings.Join(names, ",")
			n := 0
			for _, st := range cl.body {
				ast.Inspect(st, func(nd ast.Node) bool {
					// nested switches over thrift.Type re-dispatch: their clauses are examined on their own
					if sw, ok := nd.(*ast.SwitchStmt); ok && sw.Tag != nil {
						if t := info.TypeOf(sw.Tag); t != nil && strings.HasSuffix(typeShort(t), "thrift.Type") {
							return false
						}
					}
					ce, ok := nd.(*ast.CallExpr)
					if !ok {
						return true
					}
					switch f := ce.Fun.(type) {
					case *ast.Ident:
						if f.Name == "make" && len(ce.Args) >= 2 {
							if t := info.TypeOf(ce.Args[0]); t != nil && t.String() == "[]byte" {
								if tv := info.Types[ce.Args[1]]; tv.Value != nil && tv.Value.Kind() == constant.Int {
									v, _ := constant.Int64Val(tv.Value)
									n++
									rc.Examined++
									good := int(v) == width
									rc.add(nil, ks.fnName, anchor+" make", ce.Pos(), map[bool]string{true: "discharged", false: "violated"}[good],
										fmt.Sprintf("allocates %d bytes in a clause for a %d-byte type", v, width), false)
								}
							}
						}
					case *ast.SelectorExpr:
						if m := helperRe.FindStringSubmatch(f.Sel.Name); m != nil {
							if fn, _ := info.Uses[f.Sel].(*types.Func); fn != nil && fn.Pkg() != nil && strings.HasSuffix(fn.Pkg().Path(), "/thrift") {
								n++
								rc.Examined++
								good := helperWidth[m[2]] == width
								rc.add(nil, ks.fnName, anchor+" "+f.Sel.Name, ce.Pos(), map[bool]string{true: "discharged", false: "violated"}[good],
									fmt.Sprintf("%s is a %d-byte helper in a clause for a %d-byte type", f.Sel.Name, helperWidth[m[2]], width), false)
							}
						}
					}
					return true
				})
			}
			_ = n
		}
	}
}

package main

import (
	"fmt"
	"go/token"
	"go/types"
	"strings"

	"golang.org/x/tools/go/ssa"
)

func builtinCallOf(v ssa.Value, name string) (ssa.Value, bool) {
	c, ok := v.(*ssa.Call)
	if !ok {
		return nil, false
	}
	b, ok := c.Call.Value.(*ssa.Builtin)
	if !ok || b.Name() != name || len(c.Call.Args) != 1 {
		return nil, false
	}
	return c.Call.Args[0], true
}

// addrKey names the storage an address denotes well enough to recognise two loads of the same place.
func addrKey(v ssa.Value) string {
	switch x := v.(type) {
	case *ssa.Parameter:
		return "param:" + x.Name()
	case *ssa.Global:
		return "global:" + x.Name()
	case *ssa.FieldAddr:
		return addrKey(x.X) + fmt.Sprintf(".f%d", x.Field)
	case *ssa.UnOp:
		if x.Op == token.MUL {
			return "*" + addrKey(x.X)
		}
	case *ssa.Alloc:
		return fmt.Sprintf("alloc@%d", x.Pos())
	}
	return fmt.Sprintf("v@%p", v)
}

// leafKeys collects the leaves of an arithmetic expression (through +,-,*,/,<<,>>, conversions and phis).
func leafKeys(v ssa.Value, out map[string]bool, seen map[ssa.Value]bool) {
	if seen[v] {
		return
	}
	seen[v] = true
	switch x := v.(type) {
	case *ssa.Const:
		return
	case *ssa.BinOp:
		leafKeys(x.X, out, seen)
		leafKeys(x.Y, out, seen)
		return
	case *ssa.Convert:
		leafKeys(x.X, out, seen)
		return
	case *ssa.ChangeType:
		leafKeys(x.X, out, seen)
		return
	case *ssa.Phi:
		for _, e := range x.Edges {
			leafKeys(e, out, seen)
		}
		return
	case *ssa.UnOp:
		if x.Op == token.MUL {
			out["load "+addrKey(x.X)] = true
			return
		}
		leafKeys(x.X, out, seen)
		return
	case *ssa.Call:
		if a, ok := builtinCallOf(x, "len"); ok {
			if u, ok := a.(*ssa.UnOp); ok && u.Op == token.MUL {
				out["len "+addrKey(u.X)] = true
			} else {
				out["len "+addrKey(a)] = true
			}
			return
		}
		if a, ok := builtinCallOf(x, "cap"); ok {
			if u, ok := a.(*ssa.UnOp); ok && u.Op == token.MUL {
				out["cap "+addrKey(u.X)] = true
			} else {
				out["cap "+addrKey(a)] = true
			}
			return
		}
	}
	out[addrKey(v)] = true
}

// ---------------------------------------------------------------------------------------------
// GROWCAP
// ---------------------------------------------------------------------------------------------

func init() {
	register(&Rule{
		Name:     "GROWCAP",
		Doc:      "a buffer is re-allocated with a capacity that accounts for what it already holds: in `make([]T, len(x), C)` (the grow idiom: the current contents are kept) C has len(x) or cap(x) as an additive term — not merely under a shift or a product — or an additive term that a controlling comparison has put at or above cap(x)/len(x). rt.GuardSlice computes C = cap/2 + n + len; with the `+ len` dropped, a buffer that is nearly full asks for C < L and make panics (`cap out of range`) — but only once the output has outgrown the first guess, which no test input does",
		Configs:  "NP",
		Floor:    map[string]int{"N": 8, "P": 7},
		Controls: 1,
		Run:      runGrowCap,
	})
}

func runGrowCap(rc *RuleCtx) {
	sliceKey := func(a ssa.Value) string {
		if u, ok := a.(*ssa.UnOp); ok && u.Op == token.MUL {
			return addrKey(u.X)
		}
		return addrKey(a)
	}
	for _, fn := range rc.W.Funcs {
		if fn.Blocks == nil || strings.HasPrefix(pkgRel(fn), "testdata") {
			continue
		}
		for _, b := range fn.Blocks {
			for _, ins := range b.Instrs {
				mk, ok := ins.(*ssa.MakeSlice)
				if !ok || mk.Len == mk.Cap {
					continue
				}
				la, ok := builtinCallOf(mk.Len, "len")
				if !ok {
					continue
				}
				if _, c := mk.Cap.(*ssa.Const); c {
					continue
				}
				want := sliceKey(la)
				// is v an expression that is at least len(X): it has len(X) or cap(X) as an additive term,
				// or an additive term that a controlling comparison puts above cap(X) / len(X)
				isSizeOfX := func(v ssa.Value) bool {
					if a, ok := builtinCallOf(v, "len"); ok && sliceKey(a) == want {
						return true
					}
					if a, ok := builtinCallOf(v, "cap"); ok && sliceKey(a) == want {
						return true
					}
					return false
				}
				var covers func(v ssa.Value, seen map[ssa.Value]bool) bool
				covers = func(v ssa.Value, seen map[ssa.Value]bool) bool {
					if seen[v] {
						return true
					}
					seen[v] = true
					switch x := v.(type) {
					case *ssa.Const:
						return false
					case *ssa.BinOp:
						if x.Op == token.ADD {
							return covers(x.X, seen) || covers(x.Y, seen)
						}
						return false
					case *ssa.Convert:
						return covers(x.X, seen)
					case *ssa.ChangeType:
						return covers(x.X, seen)
					case *ssa.Phi:
						n := 0
						for _, e := range x.Edges {
							if _, c := e.(*ssa.Const); c {
								continue
							}
							n++
							if !covers(e, seen) {
								return false
							}
						}
						return n > 0
					}
					if isSizeOfX(v) {
						return true
					}
					for _, cd := range controllingIfs(b) {
						k, neg := condKey(cd.cond)
						bo, ok := k.(*ssa.BinOp)
						if !ok {
							continue
						}
						truth := cd.val != neg
						op, l, r := bo.Op, bo.X, bo.Y
						if !truth {
							switch op {
							case token.LSS:
								op = token.GEQ
							case token.LEQ:
								op = token.GTR
							case token.GTR:
								op = token.LEQ
							case token.GEQ:
								op = token.LSS
							default:
								continue
							}
						}
						switch op {
						case token.GEQ, token.GTR: // l >= r
						case token.LSS, token.LEQ: // l <= r  ==  r >= l
							l, r = r, l
						default:
							continue
						}
						if l == v && isSizeOfX(r) {
							return true
						}
					}
					return false
				}
				rc.Examined++
				good := covers(mk.Cap, map[ssa.Value]bool{})
				rc.verdict(good, fn, "make(len(x), cap)", mk.Pos(), map[bool]string{
					true:  "the capacity has len(x) or cap(x) (or a term tested to be above it) as an additive term",
					false: "the slice is re-allocated with its current length but the new capacity has neither len(x) nor cap(x) as an additive term: for a nearly full buffer the capacity is smaller than the length and make panics (`cap out of range`)"}[good], true)
			}
		}
	}
}

// ---------------------------------------------------------------------------------------------
// BITMAPLEN
// ---------------------------------------------------------------------------------------------

func init() {
	register(&Rule{
		Name:     "BITMAPLEN",
		Doc:      "the requires-bitmap decides by its LENGTH whether a word exists: CopyTo, CheckRequires and HandleRequires see the words below len only, so a method of RequiresBitmap that tests an index against cap(*b) must re-slice the bitmap up to that index; Set and malloc grow on `len(*b) <= i`. With `cap` there (malloc allocates twice the words it needs) the bit of a sparse high id is written into the spare capacity: the field is never reported missing and never written by the write-default options",
		Configs:  "NP",
		Floor:    map[string]int{"N": 4, "P": 4},
		Controls: 1,
		Run:      runBitmapLen,
	})
}

func runBitmapLen(rc *RuleCtx) {
	for _, fn := range rc.W.Funcs {
		if fn.Blocks == nil || fn.Signature.Recv() == nil {
			continue
		}
		rt := fn.Signature.Recv().Type()
		if p, ok := rt.(*types.Pointer); ok {
			rt = p.Elem()
		}
		n, ok := rt.(*types.Named)
		if !ok || !strings.Contains(n.Obj().Name(), "RequiresBitmap") {
			continue
		}
		recv := fn.Params[0]
		fromRecv := func(v ssa.Value) bool {
			for i := 0; i < 6; i++ {
				switch x := v.(type) {
				case *ssa.UnOp:
					v = x.X
					continue
				case *ssa.ChangeType:
					v = x.X
					continue
				case *ssa.Convert:
					v = x.X
					continue
				}
				break
			}
			return v == ssa.Value(recv)
		}
		// a test against len or cap of the receiver
		reslices := false
		for _, b := range fn.Blocks {
			for _, ins := range b.Instrs {
				if s, ok := ins.(*ssa.Slice); ok && fromRecv(s.X) && s.High != nil {
					reslices = true
				}
			}
		}
		for _, b := range fn.Blocks {
			for _, ins := range b.Instrs {
				bo, ok := ins.(*ssa.BinOp)
				if !ok {
					continue
				}
				switch bo.Op {
				case token.LSS, token.LEQ, token.GTR, token.GEQ:
				default:
					continue
				}
				for _, op := range []ssa.Value{bo.X, bo.Y} {
					if cv, ok := op.(*ssa.Convert); ok {
						op = cv.X
					}
					if a, ok := builtinCallOf(op, "len"); ok && fromRecv(a) {
						rc.Examined++
						rc.ok(fn, "index test on len", bo.Pos(), "the index is compared with the bitmap's length", true)
					}
					if a, ok := builtinCallOf(op, "cap"); ok && fromRecv(a) {
						rc.Examined++
						rc.verdict(reslices, fn, "index test on cap", bo.Pos(), map[bool]string{
							true:  "the bitmap is re-sliced in this method, so the words below the capacity become visible",
							false: "the index is compared with cap(*b) and the bitmap is not re-sliced: a word between len and cap is written (or taken for present) although every reader of the bitmap stops at len — the requiredness bit of that field is lost"}[reslices], true)
					}
				}
			}
		}
	}
}

// ---------------------------------------------------------------------------------------------
// PARSEBASE / SIGNPARSE / NOGOQUOTE
// ---------------------------------------------------------------------------------------------

func init() {
	register(&Rule{
		Name:     "PARSEBASE",
		Doc:      "numbers that arrive as text (JSON map keys, quoted integers, http values) are decimal: every strconv.ParseInt / ParseUint of the library passes the constant base 10. Base 0 silently reads \"010\" as 8 and accepts 0x10, 0b11 and 1_0, which the native converter and every JSON peer treat as 10 or as an error",
		Configs:  "NP",
		Floor:    map[string]int{"N": 13, "P": 13},
		Controls: 1,
		Run:      runParseBase,
	})
	register(&Rule{
		Name:     "SIGNPARSE",
		Doc:      "text is parsed with the signedness of the kind it is stored as: the int64 result of strconv.ParseInt is never converted to a 32/64-bit UNSIGNED type, and the uint64 result of ParseUint never to a signed one (a key 4000000000 of a map<uint32,…> is out of range for ParseInt(…, 32) although p2j printed it; a negative text would wrap into a huge unsigned key)",
		Configs:  "NP",
		Floor:    map[string]int{"N": 7, "P": 7},
		Controls: 1,
		Run:      runSignParse,
	})
	register(&Rule{
		Name:     "NOGOQUOTE",
		Doc:      "JSON text is never produced with Go-syntax quoting: no function of the library writes out text quoted by strconv.Quote / AppendQuote / QuoteToASCII / AppendQuoteToASCII — the Append forms, or a Quote result that is converted to bytes, appended or returned; a Quote inside an error message is not output — (they write \\x7f, \\a, \\v and \\U0001f600 escapes, none of which is JSON; json.EncodeString is the quoter). Expected count zero; the control keeps the matcher alive",
		Configs:  "NP",
		Floor:    map[string]int{"N": 0, "P": 0},
		Controls: 1,
		Run:      runNoGoQuote,
	})
}

func strconvCallee(c *ssa.Call) string {
	cal := c.Call.StaticCallee()
	if cal == nil || cal.Pkg == nil || cal.Pkg.Pkg.Path() != "strconv" {
		return ""
	}
	return cal.Name()
}

func runParseBase(rc *RuleCtx) {
	for _, fn := range rc.W.Funcs {
		if fn.Blocks == nil || strings.HasPrefix(pkgRel(fn), "testdata") {
			continue
		}
		for _, b := range fn.Blocks {
			for _, ins := range b.Instrs {
				c, ok := ins.(*ssa.Call)
				if !ok {
					continue
				}
				n := strconvCallee(c)
				if n != "ParseInt" && n != "ParseUint" {
					continue
				}
				rc.Examined++
				base, isConst := constInt(c.Call.Args[1])
				good := isConst && base == 10
				rc.verdict(good, fn, "strconv."+n+" base", c.Pos(), map[bool]string{
					true:  "base 10",
					false: "the base is not the constant 10: octal / hex / binary prefixes and `_` separators are accepted and change the value (\"010\" → 8)"}[good], true)
			}
		}
	}
}

func runSignParse(rc *RuleCtx) {
	for _, fn := range rc.W.Funcs {
		if fn.Blocks == nil || strings.HasPrefix(pkgRel(fn), "testdata") {
			continue
		}
		for _, b := range fn.Blocks {
			for _, ins := range b.Instrs {
				cv, ok := ins.(*ssa.Convert)
				if !ok {
					continue
				}
				ex, ok := cv.X.(*ssa.Extract)
				if !ok || ex.Index != 0 {
					continue
				}
				call, ok := ex.Tuple.(*ssa.Call)
				if !ok {
					continue
				}
				n := strconvCallee(call)
				if n != "ParseInt" && n != "ParseUint" {
					continue
				}
				dst, ok := cv.Type().Underlying().(*types.Basic)
				if !ok || dst.Info()&types.IsInteger == 0 {
					continue
				}
				wide := false
				switch dst.Kind() {
				case types.Int, types.Int32, types.Int64, types.Uint, types.Uint32, types.Uint64:
					wide = true
				}
				if !wide {
					continue
				}
				rc.Examined++
				unsignedDst := dst.Info()&types.IsUnsigned != 0
				good := (n == "ParseUint") == unsignedDst
				rc.verdict(good, fn, "strconv."+n+" → "+dst.Name(), cv.Pos(), map[bool]string{
					true:  "the text is parsed with the signedness of its target",
					false: "the result of " + n + " is converted to " + dst.Name() + ": values in the upper half of the unsigned range are rejected (or negative text wraps) although the target kind holds them"}[good], true)
			}
		}
	}
}

func runNoGoQuote(rc *RuleCtx) {
	for _, fn := range rc.W.Funcs {
		if fn.Blocks == nil || strings.HasPrefix(pkgRel(fn), "testdata") {
			continue
		}
		for _, b := range fn.Blocks {
			for _, ins := range b.Instrs {
				c, ok := ins.(*ssa.Call)
				if !ok {
					continue
				}
				switch n := strconvCallee(c); n {
				case "Quote", "AppendQuote", "QuoteToASCII", "AppendQuoteToASCII", "QuoteToGraphic", "AppendQuoteToGraphic":
					// quoting for an error text or a log line is harmless: only text that is WRITTEN OUT counts —
					// the Append* forms, or a Quote* result that reaches append / a []byte conversion
					if !strings.HasPrefix(n, "Append") {
						written := false
						if c.Referrers() != nil {
							for _, r := range *c.Referrers() {
								switch x := r.(type) {
								case *ssa.Convert:
									written = true
								case *ssa.Call:
									if bi, ok := x.Call.Value.(*ssa.Builtin); ok && bi.Name() == "append" {
										written = true
									}
								case *ssa.Return:
									written = true
								}
							}
						}
						if !written {
							continue
						}
					}
					rc.Examined++
					rc.bad(fn, "strconv."+n, c.Pos(), "Go-syntax quoting (\\x.., \\a, \\v, \\U........) is not JSON: a key or value with a control character, DEL or invalid UTF-8 yields a malformed document with a nil error")
				}
			}
		}
	}
}

// ---------------------------------------------------------------------------------------------
// VARINTSIGNEXT
// ---------------------------------------------------------------------------------------------

func init() {
	register(&Rule{
		Name:     "VARINTSIGNEXT",
		Doc:      "a protobuf int32 goes on the wire sign-extended to 64 bits (a negative int32 is a 10-byte varint): in proto/protowire and proto/binary the argument of AppendVarint that derives from an int32-typed value is converted straight to uint64, never through uint32 (`uint64(uint32(v))` writes 5 bytes: the library's own 32-bit reader and protobuf-go truncate and agree, a peer that reads the field as int64 — or a byte comparison with the reference encoder — sees 4294967291 for -5)",
		Configs:  "NP",
		Floor:    map[string]int{"N": 2, "P": 2},
		Controls: 1,
		Run:      runVarintSignExt,
	})
}

func runVarintSignExt(rc *RuleCtx) {
	for _, fn := range rc.W.Funcs {
		if fn.Blocks == nil {
			continue
		}
		rel := pkgRel(fn)
		if rel != "proto/protowire" && rel != "proto/binary" {
			continue
		}
		for _, b := range fn.Blocks {
			for _, ins := range b.Instrs {
				c, ok := ins.(*ssa.Call)
				if !ok || c.Call.StaticCallee() == nil || c.Call.StaticCallee().Name() != "AppendVarint" {
					continue
				}
				arg := c.Call.Args[len(c.Call.Args)-1]
				throughU32 := false
				v := arg
				for {
					cv, ok := v.(*ssa.Convert)
					if !ok {
						break
					}
					if bt, ok := cv.X.Type().Underlying().(*types.Basic); ok && bt.Kind() == types.Uint32 {
						throughU32 = true
					}
					v = cv.X
				}
				bt, ok := v.Type().Underlying().(*types.Basic)
				if !ok || bt.Kind() != types.Int32 || v == arg {
					continue
				}
				rc.Examined++
				rc.verdict(!throughU32, fn, "AppendVarint(int32)", c.Pos(), map[bool]string{
					true:  "the int32 is sign-extended to the 64-bit varint domain",
					false: "the int32 is narrowed to uint32 before it is widened: a negative value is written as a 5-byte varint, not the 10-byte sign-extended form of the wire format"}[!throughU32], true)
			}
		}
	}
}

// ---------------------------------------------------------------------------------------------
// DONILNIL
// ---------------------------------------------------------------------------------------------

func init() {
	register(&Rule{
		Name:     "DONILNIL",
		Doc:      "a converter entry point (Do / DoInto of conv/t2j, j2t, p2j, j2p) has no early exit that answers `nil, nil`: every return whose error operand is the nil constant returns the output buffer, not a nil constant. An empty protobuf message is the message with every field absent and converts to `{}`; answering it with no document and no error hands the caller an invalid JSON text (the empty string)",
		Configs:  "NP",
		Floor:    map[string]int{"N": 15, "P": 15},
		Controls: 1,
		Run:      runDoNilNil,
	})
}

func runDoNilNil(rc *RuleCtx) {
	for _, fn := range rc.W.Funcs {
		if fn.Blocks == nil || fn.Parent() != nil || !strings.HasPrefix(pkgRel(fn), "conv/") {
			continue
		}
		if n := fn.Name(); n != "Do" && n != "zzControlDo" {
			continue
		}
		res := fn.Signature.Results()
		if res.Len() != 2 {
			continue
		}
		for _, b := range fn.Blocks {
			ret, ok := lastInstr(b).(*ssa.Return)
			if !ok || len(ret.Results) != 2 {
				continue
			}
			rc.Examined++
			good := !(isNilConst(ret.Results[0]) && isNilConst(ret.Results[1]))
			rc.verdict(good, fn, "return", ret.Pos(), map[bool]string{
				true:  "the return hands out the converted buffer or an error",
				false: "`return nil, nil`: no document and no error — the caller receives an empty (invalid) text for an input that denotes a value"}[good], !good)
		}
	}
}

// ---------------------------------------------------------------------------------------------
// OPTSFORWARD
// ---------------------------------------------------------------------------------------------

func init() {
	register(&Rule{
		Name:     "OPTSFORWARD",
		Doc:      "a function of a generic package that receives the caller's `opts *Options` hands those options on: every argument of type *Options it passes to a callee is its own parameter, never the package default (`defaultOpts`) or nil. InterfaceMap(opts) converting the map KEYS with defaultOpts made the options (CastStringAsBinary, MapStructById …) hold for the values only",
		Configs:  "NP",
		Floor:    map[string]int{"N": 80, "P": 80},
		Controls: 1,
		Run:      runOptsForward,
	})
}

func runOptsForward(rc *RuleCtx) {
	isOpts := func(t types.Type) bool {
		p, ok := t.(*types.Pointer)
		if !ok {
			return false
		}
		n, ok := p.Elem().(*types.Named)
		return ok && n.Obj().Name() == "Options"
	}
	for _, fn := range rc.W.Funcs {
		if fn.Blocks == nil {
			continue
		}
		rel := pkgRel(fn)
		if rel != "thrift/generic" && rel != "proto/generic" {
			continue
		}
		var own []*ssa.Parameter
		for _, p := range fn.Params {
			if isOpts(p.Type()) {
				own = append(own, p)
			}
		}
		if fn.Parent() != nil {
			for _, fv := range fn.FreeVars {
				_ = fv
			}
		}
		if len(own) == 0 {
			continue
		}
		for _, b := range fn.Blocks {
			for _, ins := range b.Instrs {
				c, ok := ins.(ssa.CallInstruction)
				if !ok {
					continue
				}
				for _, a := range c.Common().Args {
					if !isOpts(a.Type()) {
						continue
					}
					rc.Examined++
					good := false
					detail := ""
					switch x := a.(type) {
					case *ssa.Parameter:
						good = true
					case *ssa.Const:
						detail = "nil"
					case *ssa.UnOp:
						if g, ok := x.X.(*ssa.Global); ok {
							detail = "the package variable " + g.Name()
						} else {
							good = true
						}
					default:
						good = true // a local copy / phi: not a default
					}
					callee := "call"
					if sc := c.Common().StaticCallee(); sc != nil {
						callee = sc.Name()
					}
					rc.verdict(good, fn, callee+"(opts)", c.Pos(), map[bool]string{
						true:  "the caller's options are handed on",
						false: "the callee is given " + detail + " although this function received the caller's options: the options hold for a part of the result only"}[good], !good)
				}
			}
		}
	}
}

// ---------------------------------------------------------------------------------------------
// VALUEEND / LENBEFOREEND
// ---------------------------------------------------------------------------------------------

func init() {
	register(&Rule{
		Name:     "VALUEEND",
		Doc:      "in the JSON→protobuf visitor (conv/j2p) every value handler (OnNull, OnBool, OnString, OnInt64, OnFloat64, OnObjectEnd, OnArrayEnd) closes the value it handled: every path from the entry to a return whose error may be nil passes a call of onValueEnd() — which clears the pending field and, for a map value, finishes the pair's length and pops the pair frame — unless the path took the true edge of the `inskip` test or the nil edge of a `globalFieldDesc` test (no pending field). A handler that only clears the field itself (`{\"m\":{\"k\":null}}`) leaves the pair frame on the stack and its length placeholder unfinished",
		Configs:  "NP",
		Floor:    map[string]int{"N": 7, "P": 7},
		Controls: 1,
		Run:      runValueEnd,
	})
	register(&Rule{
		Name:     "LENBEFOREEND",
		Doc:      "in conv/j2p the length of a finished message / packed list is written back (binary.FinishSpeculativeLength on the frame's lenPos) BEFORE the frame is released: no path leads from a call of onValueEnd() to a later FinishSpeculativeLength in the same function. onValueEnd may itself finish the enclosing pair's length, which shifts the buffer when the placeholder shrinks — a position saved before it is stale afterwards",
		Configs:  "NP",
		Floor:    map[string]int{"N": 7, "P": 7},
		Controls: 1,
		Run:      runLenBeforeEnd,
	})
}

func callsNamed(ins ssa.Instruction, name string) bool {
	c, ok := ins.(ssa.CallInstruction)
	if !ok {
		return false
	}
	sc := c.Common().StaticCallee()
	return sc != nil && sc.Name() == name
}

func runValueEnd(rc *RuleCtx) {
	ec := rc.W.EC()
	handlers := map[string]bool{"OnNull": true, "OnBool": true, "OnString": true, "OnInt64": true, "OnFloat64": true, "OnObjectEnd": true, "OnArrayEnd": true, "zzControlOnNull": true}
	loadsField := func(v ssa.Value, name string) bool {
		u, ok := v.(*ssa.UnOp)
		if !ok || u.Op != token.MUL {
			return false
		}
		_, n, ok := fieldNameOf(u.X)
		return ok && n == name
	}
	for _, fn := range rc.W.Funcs {
		if fn.Blocks == nil || pkgRel(fn) != "conv/j2p" || !handlers[fn.Name()] {
			continue
		}
		rc.Examined++
		ei := errIndex(fn.Signature)
		seen := map[*ssa.BasicBlock]bool{}
		var offending *ssa.Return
		var dfs func(b *ssa.BasicBlock)
		dfs = func(b *ssa.BasicBlock) {
			if offending != nil || seen[b] {
				return
			}
			seen[b] = true
			for _, ins := range b.Instrs {
				if callsNamed(ins, "onValueEnd") {
					return
				}
			}
			if ret, ok := lastInstr(b).(*ssa.Return); ok {
				if ei >= 0 && ei < len(ret.Results) && !ec.nonNil(ret.Results[ei], b, map[ssa.Value]bool{}) {
					knownErr := false
					for _, cd := range controllingIfs(b) {
						if subj, nilOnTrue, ok := nilTest(cd.cond); ok && subj == ret.Results[ei] && cd.val != nilOnTrue {
							knownErr = true // `if err != nil { return err }`
						}
					}
					if !knownErr {
						offending = ret
					}
				}
				return
			}
			if iff, ok := lastInstr(b).(*ssa.If); ok {
				k, neg := condKey(iff.Cond)
				skipTrue, skipFalse := false, false
				if loadsField(k, "inskip") {
					if neg {
						skipFalse = true
					} else {
						skipTrue = true
					}
				}
				if subj, nilOnTrue, ok := nilTest(iff.Cond); ok && loadsField(subj, "globalFieldDesc") {
					if nilOnTrue {
						skipTrue = true
					} else {
						skipFalse = true
					}
				}
				if !skipTrue {
					dfs(b.Succs[0])
				}
				if !skipFalse {
					dfs(b.Succs[1])
				}
				return
			}
			for _, s := range b.Succs {
				dfs(s)
			}
		}
		dfs(fn.Blocks[0])
		good := offending == nil
		pos := fn.Pos()
		if offending != nil {
			pos = offending.Pos()
		}
		rc.verdict(good, fn, "handler closes its value", pos, map[bool]string{
			true:  "every success path with a pending field passes onValueEnd()",
			false: "a path reaches this return with a possibly nil error without having called onValueEnd() although a field is pending: the map pair frame stays on the stack and its length placeholder is never finished"}[good], true)
	}
}

func runLenBeforeEnd(rc *RuleCtx) {
	for _, fn := range rc.W.Funcs {
		if fn.Blocks == nil || pkgRel(fn) != "conv/j2p" {
			continue
		}
		for _, b := range fn.Blocks {
			for i, ins := range b.Instrs {
				if !callsNamed(ins, "onValueEnd") {
					continue
				}
				rc.Examined++
				var hit ssa.Instruction
				for _, later := range b.Instrs[i+1:] {
					if callsNamed(later, "FinishSpeculativeLength") {
						hit = later
					}
				}
				if hit == nil {
					seen := map[*ssa.BasicBlock]bool{}
					var dfs func(x *ssa.BasicBlock)
					dfs = func(x *ssa.BasicBlock) {
						if hit != nil || seen[x] {
							return
						}
						seen[x] = true
						for _, in := range x.Instrs {
							if callsNamed(in, "FinishSpeculativeLength") {
								hit = in
								return
							}
						}
						for _, s := range x.Succs {
							dfs(s)
						}
					}
					for _, s := range b.Succs {
						dfs(s)
					}
				}
				good := hit == nil
				rc.verdict(good, fn, "onValueEnd()", ins.Pos(), map[bool]string{
					true:  "no length is written back after the frame was released",
					false: "a FinishSpeculativeLength is reachable after this onValueEnd(): the frame's length position was taken before onValueEnd possibly shifted the buffer (it finishes the enclosing pair's length), so the write-back lands on the wrong bytes"}[good], true)
			}
		}
	}
}

// ---------------------------------------------------------------------------------------------
// PARSEWIDTH
// ---------------------------------------------------------------------------------------------

func init() {
	register(&Rule{
		Name:     "PARSEWIDTH",
		Doc:      "text is parsed at the width of the kind it is stored as: when the result of strconv.ParseInt / ParseUint(…, bitSize) is narrowed by a conversion to an integer type of fewer bits than bitSize, the conversion is control-dependent on an ordered comparison of the parsed value (an explicit range check); and text is never parsed NARROWER than the integer type it is then stored in (a 32-bit parse feeding an i64 map key rejects every key beyond 2^31). Parsing at 64 bits and casting made `?small=70000` into an i16 field the value 4464 and `?b=300` into a byte 44, silently (HTTP query, header, cookie, path and form sources all go through DecodeText)",
		Configs:  "NP",
		Floor:    map[string]int{"N": 6, "P": 6},
		Controls: 1,
		Run:      runParseWidth,
	})
}

func runParseWidth(rc *RuleCtx) {
	bits := func(b *types.Basic) int64 {
		switch b.Kind() {
		case types.Int8, types.Uint8:
			return 8
		case types.Int16, types.Uint16:
			return 16
		case types.Int32, types.Uint32:
			return 32
		}
		return 64
	}
	for _, fn := range rc.W.Funcs {
		if fn.Blocks == nil || strings.HasPrefix(pkgRel(fn), "testdata") {
			continue
		}
		for _, b := range fn.Blocks {
			for _, ins := range b.Instrs {
				cv, ok := ins.(*ssa.Convert)
				if !ok {
					continue
				}
				ex, ok := cv.X.(*ssa.Extract)
				if !ok || ex.Index != 0 {
					continue
				}
				call, ok := ex.Tuple.(*ssa.Call)
				if !ok {
					continue
				}
				n := strconvCallee(call)
				if n != "ParseInt" && n != "ParseUint" {
					continue
				}
				dst, ok := cv.Type().Underlying().(*types.Basic)
				if !ok || dst.Info()&types.IsInteger == 0 {
					continue
				}
				size, isC := constInt(call.Call.Args[2])
				if !isC {
					continue
				}
				if size == 0 {
					size = 64
				}
				rc.Examined++
				if bits(dst) > size && dst.Kind() != types.Uint8 {
					// parsed NARROWER than stored: the upper part of the target's range is rejected
					rc.bad(fn, fmt.Sprintf("strconv.%s(…, %d) → %s", n, size, dst.Name()), cv.Pos(), fmt.Sprintf("the text is parsed at %d bits but stored as %s: values of the target's range beyond %d bits are rejected although the field holds them", size, dst.Name(), size))
					continue
				}
				good := bits(dst) >= size
				if !good {
					for _, cd := range controllingIfs(b) {
						k, _ := condKey(cd.cond)
						if bo, ok := k.(*ssa.BinOp); ok {
							switch bo.Op {
							case token.LSS, token.LEQ, token.GTR, token.GEQ:
								if bo.X == ssa.Value(ex) || bo.Y == ssa.Value(ex) {
									good = true
								}
							}
						}
					}
				}
				rc.verdict(good, fn, fmt.Sprintf("strconv.%s(…, %d) → %s", n, size, dst.Name()), cv.Pos(), map[bool]string{
					true:  "the text is parsed at (or range-checked to) the width it is stored at",
					false: fmt.Sprintf("the value is parsed at %d bits and then cut to %s with no range check: out-of-range text is stored as a different number, silently", size, dst.Name())}[good], true)
			}
		}
	}
}

package main

import (
	"fmt"
	"go/ast"
	"go/token"
	"sort"
	"strings"

	"golang.org/x/tools/go/ssa"
)

func init() {
	register(&Rule{
		Name: "ANNOTABLE",
		Doc: "the HTTP-mapping annotation chain agrees with the annotation standard at every link (10-row table): registered key (api.query …) -> AnnoType constant -> case of httpMappingAnnotation.Make -> concrete mapping type -> the http.RequestGetter / ResponseSetter method its Request / Response calls " +
			"(api.query→GetQuery, api.path→GetParam, api.header→GetHeader/SetHeader, api.cookie→GetCookie/SetCookie, api.body→GetMapBody, api.form→GetPostForm, api.raw_body→GetBody/SetRawBody, api.raw_uri→GetUri, api.http_code→SetStatusCode)",
		Configs: "NP",
		Floor:   map[string]int{"N": 30, "P": 30},
		Run:     runAnnoTable,
	})
}

var annoTable = []struct {
	key, konst, typ string
	getter, setter  string
}{
	{"api.query", "APIQuery", "apiQuery", "GetQuery", ""},
	{"api.path", "APIPath", "apiPath", "GetParam", ""},
	{"api.header", "APIHeader", "apiHeader", "GetHeader", "SetHeader"},
	{"api.cookie", "APICookie", "apiCookie", "GetCookie", "SetCookie"},
	{"api.body", "APIBody", "apiBody", "GetMapBody", ""},
	{"api.http_code", "APIHTTPCode", "apiHTTPCode", "", "SetStatusCode"},
	{"api.raw_body", "APIRawBody", "apiRawBody", "GetBody", "SetRawBody"},
	{"api.form", "APIPostForm", "apiPostForm", "GetPostForm", ""},
	{"api.raw_uri", "APIRawUri", "apiRawUri", "GetUri", ""},
	{"api.no_body_struct", "APINoBodyStruct", "apiNoBodyStruct", "", ""},
}

func runAnnoTable(rc *RuleCtx) {
	w := rc.W
	p := w.Pkg("thrift/annotation")
	check := func(anchor string, pos token.Pos, good bool, detail string) {
		rc.Examined++
		rc.add(nil, "thrift/annotation", anchor, pos, map[bool]string{true: "discharged", false: "violated"}[good], detail, true)
	}
	// (1) registrations: key -> constant
	reg := map[string]string{}
	regPos := map[string]token.Pos{}
	for _, f := range p.Syntax {
		ast.Inspect(f, func(n ast.Node) bool {
			ce, ok := n.(*ast.CallExpr)
			if !ok {
				return true
			}
			sel, ok := ce.Fun.(*ast.SelectorExpr)
			if !ok || sel.Sel.Name != "RegisterAnnotation" || len(ce.Args) < 2 {
				return true
			}
			konst := ""
			ast.Inspect(ce.Args[0], func(m ast.Node) bool {
				if c2, ok := m.(*ast.CallExpr); ok {
					if s2, ok := c2.Fun.(*ast.SelectorExpr); ok && s2.Sel.Name == "MakeAnnoID" && len(c2.Args) == 3 {
						konst = lastIdent(c2.Args[2])
					}
				}
				return true
			})
			for _, ka := range ce.Args[1:] {
				if tv := p.TypesInfo.Types[ka]; tv.Value != nil {
					k := strings.Trim(tv.Value.ExactString(), "\"")
					reg[k] = konst
					regPos[k] = ce.Pos()
				}
			}
			return true
		})
	}
	for _, row := range annoTable {
		got, ok := reg[row.key]
		check("register "+row.key, regPos[row.key], ok && got == row.konst, fmt.Sprintf("%q registered with annotation type %s (standard: %s)", row.key, got, row.konst))
	}
	// (2) Make: constant -> type
	_, fd := w.findDecl("(thrift/annotation.httpMappingAnnotation).Make")
	made := map[string]string{}
	madePos := map[string]token.Pos{}
	ast.Inspect(fd.Body, func(n ast.Node) bool {
		cl, ok := n.(*ast.CaseClause)
		if !ok || len(cl.List) == 0 {
			return true
		}
		for _, l := range cl.List {
			name := lastIdent(l)
			for _, st := range cl.Body {
				ast.Inspect(st, func(m ast.Node) bool {
					if lit, ok := m.(*ast.CompositeLit); ok {
						if id, ok := lit.Type.(*ast.Ident); ok {
							made[name] = id.Name
							madePos[name] = lit.Pos()
						}
					}
					return true
				})
			}
		}
		return true
	})
	for _, row := range annoTable {
		check("Make "+row.konst, madePos[row.konst], made[row.konst] == row.typ, fmt.Sprintf("case %s builds %s (standard: %s)", row.konst, made[row.konst], row.typ))
	}
	// (3) Request/Response: interface methods invoked
	invoked := func(fn *ssa.Function, iface string) []string {
		set := map[string]bool{}
		for _, b := range fn.Blocks {
			for _, ins := range b.Instrs {
				if c, ok := ins.(*ssa.Call); ok && c.Call.IsInvoke() && strings.HasSuffix(c.Call.Value.Type().String(), iface) {
					set[c.Call.Method.Name()] = true
				}
			}
		}
		var out []string
		for k := range set {
			out = append(out, k)
		}
		sort.Strings(out)
		return out
	}
	for _, row := range annoTable {
		if row.typ == "apiNoBodyStruct" {
			continue
		}
		reqFn := w.Fn("(thrift/annotation." + row.typ + ").Request")
		respFn := w.Fn("(thrift/annotation." + row.typ + ").Response")
		gotG := invoked(reqFn, "http.RequestGetter")
		gotS := invoked(respFn, "http.ResponseSetter")
		wantG, wantS := []string{}, []string{}
		if row.getter != "" {
			wantG = []string{row.getter}
		}
		if row.setter != "" {
			wantS = []string{row.setter}
		}
		check(row.typ+".Request", reqFn.Pos(), strings.Join(gotG, ",") == strings.Join(wantG, ","), fmt.Sprintf("%s.Request reads %v (standard for %s: %v)", row.typ, gotG, row.key, wantG))
		check(row.typ+".Response", respFn.Pos(), strings.Join(gotS, ",") == strings.Join(wantS, ","), fmt.Sprintf("%s.Response writes %v (standard for %s: %v)", row.typ, gotS, row.key, wantS))
	}
}

package main

import (
	"go/token"
	"go/ast"
	"go/types"
	"sort"
	"strings"

	"golang.org/x/tools/go/ssa"
)

func init() {
	register(&Rule{
		Name:     "TYPESWITCHAGREE",
		Doc:      "sibling type switches that box unhashable Go values used as map keys (every type switch whose cases include both map[string]interface{} and []interface{}) list the same set of unhashable types, and (b) list every unhashable (slice / map) dynamic type that the function producing the key can box into its interface{} result (computed over the SSA of the producer and the callees whose results it returns; []byte — a STRING value under binary casting — is not demanded of a switch that lies in the else-arm of a `key type == STRING` test): a kind that one decoder can produce (e.g. map[thrift.FieldID]interface{} under MapStructById) and a sibling forgets falls into `default: ret[kv] = …` and panics with `hash of unhashable type`",
		Configs:  "NP",
		Floor:    map[string]int{"N": 2, "P": 2},
		Controls: 1,
		Run:      runTypeSwitchAgree,
	})
	register(&Rule{
		Name:    "SIBLINGOPTS",
		Doc:     "the bulk getters of one family read the same option: every Fields / Indexes / Gets method of thrift/generic.Node and proto/generic.Node (siblings that fill a caller-supplied []PathNode) loads Options.ClearDirtyValues — a sibling that stops honouring it leaves stale nodes from the previous query in slots whose element is now absent",
		Configs: "NP",
		Floor:   map[string]int{"N": 5, "P": 5},
		Run:     runSiblingOpts,
	})
}

func runTypeSwitchAgree(rc *RuleCtx) {
	w := rc.W
	type tsw struct {
		fn       string
		pos      ast.Node
		types    map[string]bool
		producer *ssa.Function // the function whose interface{} result the switch dispatches on (nil if unknown)
		noString bool          // the switch is in the else-arm of a key-type test for STRING: no STRING key (hence no []byte) reaches it
	}
	var sws []tsw
	for _, p := range w.Pkgs {
		rel := strings.TrimPrefix(strings.TrimPrefix(p.PkgPath, modPath), "/")
		for _, f := range p.Syntax {
			for _, d := range f.Decls {
				fd, ok := d.(*ast.FuncDecl)
				if !ok || fd.Body == nil {
					continue
				}
				ast.Inspect(fd.Body, func(n ast.Node) bool {
					ts, ok := n.(*ast.TypeSwitchStmt)
					if !ok {
						return true
					}
					set := map[string]bool{}
					for _, cc := range ts.Body.List {
						cl := cc.(*ast.CaseClause)
						// only clauses that box the value: `m[&x] = …`
						boxes := false
						for _, st := range cl.Body {
							if as, ok := st.(*ast.AssignStmt); ok && len(as.Lhs) == 1 {
								if ix, ok := as.Lhs[0].(*ast.IndexExpr); ok {
									if u, ok := ix.Index.(*ast.UnaryExpr); ok && u.Op.String() == "&" {
										boxes = true
									}
								}
							}
						}
						if !boxes {
							continue
						}
						for _, e := range cl.List {
							if t := p.TypesInfo.TypeOf(e); t != nil {
								switch t.Underlying().(type) {
								case *types.Map, *types.Slice:
									set[typeShort(t)] = true
								}
							}
						}
					}
					if set["map[string]interface{}"] && set["[]interface{}"] {
						sws = append(sws, tsw{declName(rel, fd), ts, set, switchProducer(w, p.TypesInfo, fd, ts), inElseOfStringTest(fd, ts)})
					}
					return true
				})
			}
		}
	}
	// siblings are compared within one protocol family (thrift… / proto…)
	family := func(fn string) string {
		f := strings.TrimLeft(fn, "(*")
		if i := strings.IndexAny(f, "/."); i > 0 {
			return f[:i]
		}
		return f
	}
	unions := map[string]map[string]bool{}
	for _, s := range sws {
		fam := family(s.fn)
		if unions[fam] == nil {
			unions[fam] = map[string]bool{}
		}
		for t := range s.types {
			unions[fam][t] = true
		}
	}
	for _, s := range sws {
		rc.Examined++
		union := unions[family(s.fn)]
		var missing []string
		for t := range union {
			if t == "[]byte" && s.noString {
				continue // string keys are handled by a dedicated arm before this switch
			}
			if !s.types[t] {
				missing = append(missing, t)
			}
		}
		sort.Strings(missing)
		good := len(missing) == 0
		rc.add(nil, s.fn, "unhashable-key type switch", s.pos.Pos(), map[bool]string{true: "discharged", false: "violated"}[good],
			map[bool]string{true: "covers every unhashable key type its siblings handle", false: "sibling type switches also handle " + strings.Join(missing, ", ") + "; here such a key reaches the default branch and is used as a map key directly (panic: unhashable)"}[good], true)
		// clause (b): against the PRODUCER of the key, not only against the siblings
		if s.producer == nil {
			continue
		}
		prod := map[string]types.Type{}
		boxedResultTypes(s.producer, 0, map[*ssa.Function]bool{}, prod)
		var miss2 []string
		for name, t := range prod {
			switch t.Underlying().(type) {
			case *types.Map, *types.Slice:
				if name == "[]byte" && s.noString {
					continue
				}
				if !s.types[name] {
					miss2 = append(miss2, name)
				}
			}
		}
		sort.Strings(miss2)
		rc.Examined++
		good2 := len(miss2) == 0
		rc.add(nil, s.fn, "unhashable keys produced by "+s.producer.Name(), s.pos.Pos(), map[bool]string{true: "discharged", false: "violated"}[good2],
			map[bool]string{true: "every unhashable dynamic type " + s.producer.Name() + " can return is boxed before it is used as a map key",
				false: s.producer.Name() + " can also return " + strings.Join(miss2, ", ") + " (unhashable); such a key reaches the default branch and `ret[kv] = …` panics with `hash of unhashable type`"}[good2], true)
	}
}

// inElseOfStringTest: ts lies in the else-arm (at any depth) of an if whose condition tests a key type
// against STRING (`kt == thrift.STRING`, `keyType == STRING`, `kt == reflect.String`): string keys never reach it.
func inElseOfStringTest(fd *ast.FuncDecl, ts *ast.TypeSwitchStmt) bool {
	found := false
	ast.Inspect(fd.Body, func(n ast.Node) bool {
		is, ok := n.(*ast.IfStmt)
		if !ok || is.Else == nil {
			return true
		}
		if is.Else.Pos() <= ts.Pos() && ts.End() <= is.Else.End() {
			// `keyType == STRING`, written either way round
			ast.Inspect(is.Cond, func(m ast.Node) bool {
				be, ok := m.(*ast.BinaryExpr)
				if !ok || be.Op != token.EQL {
					return true
				}
				for _, side := range []ast.Expr{be.X, be.Y} {
					switch t := types.ExprString(side); t {
					case "thrift.STRING", "STRING", "reflect.String":
						found = true
					}
				}
				return true
			})
		}
		return true
	})
	return found
}

// switchProducer: for `switch x := kv.(type)` with `kv, err := recv.M(…)`, the SSA function M.
func switchProducer(w *World, info *types.Info, fd *ast.FuncDecl, ts *ast.TypeSwitchStmt) *ssa.Function {
	var tag ast.Expr
	switch a := ts.Assign.(type) {
	case *ast.AssignStmt:
		if len(a.Rhs) == 1 {
			if ta, ok := a.Rhs[0].(*ast.TypeAssertExpr); ok {
				tag = ta.X
			}
		}
	case *ast.ExprStmt:
		if ta, ok := a.X.(*ast.TypeAssertExpr); ok {
			tag = ta.X
		}
	}
	id, ok := tag.(*ast.Ident)
	if !ok {
		return nil
	}
	// the (last) assignment before the switch that defines the tag: `kv := f()` or `kv, err := f()`
	var ce *ast.CallExpr
	ast.Inspect(fd.Body, func(n ast.Node) bool {
		as, ok := n.(*ast.AssignStmt)
		if !ok || as.Pos() > ts.Pos() || len(as.Rhs) != 1 {
			return true
		}
		for _, l := range as.Lhs {
			if lid, ok := l.(*ast.Ident); ok && lid.Name == id.Name {
				if c, ok := ast.Unparen(as.Rhs[0]).(*ast.CallExpr); ok {
					ce = c
				}
			}
		}
		return true
	})
	if ce == nil {
		return nil
	}
	var fobj *types.Func
	switch f := ce.Fun.(type) {
	case *ast.SelectorExpr:
		fobj, _ = info.Uses[f.Sel].(*types.Func)
	case *ast.Ident:
		fobj, _ = info.Uses[f].(*types.Func)
	}
	if fobj == nil {
		return nil
	}
	return w.ssaFunc(fobj)
}

// boxedResultTypes: the concrete types fn (transitively, through callees whose result it returns) boxes into
// its first result of interface type.
func boxedResultTypes(fn *ssa.Function, idx int, seen map[*ssa.Function]bool, out map[string]types.Type) {
	if fn == nil || fn.Blocks == nil || seen[fn] || len(seen) > 60 {
		return
	}
	seen[fn] = true
	var walk func(v ssa.Value, d int)
	walk = func(v ssa.Value, d int) {
		if d > 8 {
			return
		}
		switch x := v.(type) {
		case *ssa.MakeInterface:
			out[typeShort(x.X.Type())] = x.X.Type()
		case *ssa.Phi:
			for _, e := range x.Edges {
				walk(e, d+1)
			}
		case *ssa.Call:
			if cal := x.Call.StaticCallee(); cal != nil {
				boxedResultTypes(cal, 0, seen, out)
			}
		case *ssa.Extract:
			if c, ok := x.Tuple.(*ssa.Call); ok {
				if cal := c.Call.StaticCallee(); cal != nil {
					boxedResultTypes(cal, x.Index, seen, out)
				}
			}
		case *ssa.ChangeInterface:
			walk(x.X, d+1)
		case *ssa.UnOp:
			// a result cell: follow its stores
			if al, ok := x.X.(*ssa.Alloc); ok && al.Referrers() != nil {
				for _, r := range *al.Referrers() {
					if st, ok := r.(*ssa.Store); ok {
						walk(st.Val, d+1)
					}
				}
			}
		}
	}
	for _, b := range fn.Blocks {
		if ret, ok := lastInstr(b).(*ssa.Return); ok && len(ret.Results) > idx {
			if types.IsInterface(ret.Results[idx].Type()) {
				walk(ret.Results[idx], 0)
			}
		}
	}
}

func runSiblingOpts(rc *RuleCtx) {
	w := rc.W
	for _, pk := range []string{"thrift/generic", "proto/generic"} {
		for _, m := range []string{"Fields", "Indexes", "Gets"} {
			fn := w.Fn("(" + pk + ".Node)." + m)
			rc.Examined++
			reads := false
			for _, b := range fn.Blocks {
				for _, ins := range b.Instrs {
					if t, n, ok := fieldNameOfInstr(ins); ok && n == "ClearDirtyValues" && strings.HasSuffix(typeShort(t), "generic.Options") {
						reads = true
					}
				}
			}
			rc.verdict(reads, fn, "reads ClearDirtyValues", fn.Pos(), map[bool]string{true: "honours Options.ClearDirtyValues like its siblings", false: m + " no longer reads Options.ClearDirtyValues although its siblings do: stale nodes survive in the caller's slice"}[reads], true)
		}
	}
}

package main

import (
	"go/ast"
	"go/types"
	"sort"
	"strings"
)

func init() {
	register(&Rule{
		Name:     "TYPESWITCHAGREE",
		Doc:      "sibling type switches that box unhashable Go values used as map keys (every type switch whose cases include both map[string]interface{} and []interface{}) list the same set of unhashable types: a kind that one decoder can produce (e.g. map[thrift.FieldID]interface{} under MapStructById) and a sibling forgets falls into `default: ret[kv] = …` and panics with `hash of unhashable type`",
		Configs:  "NP",
		Floor:    map[string]int{"N": 2, "P": 2},
		Controls: 1,
		Run:      runTypeSwitchAgree,
	})
	register(&Rule{
		Name:    "SIBLINGOPTS",
		Doc:     "the bulk getters of one family read the same option: every Fields / Indexes / Gets method of thrift/generic.Node and proto/generic.Node (siblings that fill a caller-supplied []PathNode) loads Options.ClearDirtyValues — a sibling that stops honouring it leaves stale nodes from the previous query in slots whose element is now absent",
		Configs: "NP",
		Floor:   map[string]int{"N": 6, "P": 6},
		Run:     runSiblingOpts,
	})
}

func runTypeSwitchAgree(rc *RuleCtx) {
	w := rc.W
	type tsw struct {
		fn    string
		pos   ast.Node
		types map[string]bool
	}
	var sws []tsw
	for _, p := range w.Pkgs {
		rel := strings.TrimPrefix(strings.TrimPrefix(p.PkgPath, modPath), "/")
		for _, f := range p.Syntax {
			for _, d := range f.Decls {
				fd, ok := d.(*ast.FuncDecl)
				if !ok || fd.Body == nil {
					continue
				}
				ast.Inspect(fd.Body, func(n ast.Node) bool {
					ts, ok := n.(*ast.TypeSwitchStmt)
					if !ok {
						return true
					}
					set := map[string]bool{}
					for _, cc := range ts.Body.List {
						cl := cc.(*ast.CaseClause)
						// only clauses that box the value: `m[&x] = …`
						boxes := false
						for _, st := range cl.Body {
							if as, ok := st.(*ast.AssignStmt); ok && len(as.Lhs) == 1 {
								if ix, ok := as.Lhs[0].(*ast.IndexExpr); ok {
									if u, ok := ix.Index.(*ast.UnaryExpr); ok && u.Op.String() == "&" {
										boxes = true
									}
								}
							}
						}
						if !boxes {
							continue
						}
						for _, e := range cl.List {
							if t := p.TypesInfo.TypeOf(e); t != nil {
								switch t.Underlying().(type) {
								case *types.Map, *types.Slice:
									set[typeShort(t)] = true
								}
							}
						}
					}
					if set["map[string]interface{}"] && set["[]interface{}"] {
						sws = append(sws, tsw{declName(rel, fd), ts, set})
					}
					return true
				})
			}
		}
	}
	// siblings are compared within one protocol family (thrift… / proto…)
	family := func(fn string) string {
		f := strings.TrimLeft(fn, "(*")
		if i := strings.IndexAny(f, "/."); i > 0 {
			return f[:i]
		}
		return f
	}
	unions := map[string]map[string]bool{}
	for _, s := range sws {
		fam := family(s.fn)
		if unions[fam] == nil {
			unions[fam] = map[string]bool{}
		}
		for t := range s.types {
			unions[fam][t] = true
		}
	}
	for _, s := range sws {
		rc.Examined++
		union := unions[family(s.fn)]
		var missing []string
		for t := range union {
			if !s.types[t] {
				missing = append(missing, t)
			}
		}
		sort.Strings(missing)
		good := len(missing) == 0
		rc.add(nil, s.fn, "unhashable-key type switch", s.pos.Pos(), map[bool]string{true: "discharged", false: "violated"}[good],
			map[bool]string{true: "covers every unhashable key type its siblings handle", false: "sibling type switches also handle " + strings.Join(missing, ", ") + "; here such a key reaches the default branch and is used as a map key directly (panic: unhashable)"}[good], true)
	}
}

func runSiblingOpts(rc *RuleCtx) {
	w := rc.W
	for _, pk := range []string{"thrift/generic", "proto/generic"} {
		for _, m := range []string{"Fields", "Indexes", "Gets"} {
			fn := w.Fn("(" + pk + ".Node)." + m)
			rc.Examined++
			reads := false
			for _, b := range fn.Blocks {
				for _, ins := range b.Instrs {
					if t, n, ok := fieldNameOfInstr(ins); ok && n == "ClearDirtyValues" && strings.HasSuffix(typeShort(t), "generic.Options") {
						reads = true
					}
				}
			}
			rc.verdict(reads, fn, "reads ClearDirtyValues", fn.Pos(), map[bool]string{true: "honours Options.ClearDirtyValues like its siblings", false: m + " no longer reads Options.ClearDirtyValues although its siblings do: stale nodes survive in the caller's slice"}[reads], true)
		}
	}
}

package main

import (
	"strings"
)

// WIREEXH: a protobuf tag carries one of eight 3-bit wire-type values; four of them are ordinary
// (varint, fixed64, length-delimited, fixed32), two delimit groups (3, 4) and two are invalid
// (6, 7). A skipper that switches over the wire type and has neither a case nor a default for the
// remaining values returns nil WITHOUT consuming anything for them: an unknown group's inner bytes
// are then parsed as fields of the enclosing message, and an invalid wire type is accepted.
func init() {
	register(&Rule{
		Name:     "WIREEXH",
		Doc:      "every switch over a proto.WireType value outside String() methods either lists all six defined wire types or has a default clause: the wire types it does not handle (groups 3/4, invalid 6/7) must end in an error, not fall out of the switch with a nil error and an unmoved cursor",
		Configs:  "NP",
		Floor:    map[string]int{"N": 1, "P": 1},
		Controls: 1,
		Run:      runWireExh,
	})
}

func runWireExh(rc *RuleCtx) {
	for _, ks := range rc.W.kindSwitches(2) {
		if !strings.HasSuffix(ks.tagType, "proto.WireType") || strings.HasSuffix(ks.fnName, ".String") {
			continue
		}
		rc.Examined++
		have := map[string]bool{}
		for _, cl := range ks.clauses {
			for _, l := range cl.labels {
				have[l.name] = true
			}
		}
		var missing []string
		for _, n := range []string{"VarintType", "Fixed32Type", "Fixed64Type", "BytesType", "StartGroupType", "EndGroupType"} {
			if !have[n] {
				missing = append(missing, n)
			}
		}
		good := ks.hasDflt || len(missing) == 0
		rc.add(nil, ks.fnName, "switch wire type", ks.sw.Pos(), map[bool]string{true: "discharged", false: "violated"}[good],
			map[bool]string{true: "unhandled wire types reach a default clause (or none is unhandled)", false: "no case for " + strings.Join(missing, ", ") + " (nor for the invalid values 6 and 7) and no default: for those wire types the function returns its zero result — nil error, nothing consumed"}[good], false)
	}
}

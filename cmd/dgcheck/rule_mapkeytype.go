package main

import (
	"go/ast"
	"go/types"
	"strings"
)

// MAPKEYTYPE: Path.ToRaw(t) serialises a path step as it appears on the wire; for an int map key
// `t` selects the WIDTH (thrift) / the KIND (protobuf) of the key. At call sites that build a map
// entry (clauses labelled MAP) the argument therefore has to be the map's key type — taken from a
// `kt` field/variable, a Key()/KeyType() accessor or the container header — never the type of the
// value that is being inserted.
func init() {
	register(&Rule{
		Name:     "MAPKEYTYPE",
		Doc:      "in every clause labelled MAP of a thrift/protobuf type switch, the argument of Path.ToRaw — which selects the width/kind an int map key is encoded with — has key provenance: it mentions a `kt` field or variable, or a Key()/KeyType() accessor (local variables are resolved through their single definition); passing the inserted value's own type encodes the key with the value's width (or not at all)",
		Configs:  "NP",
		Floor:    map[string]int{"N": 3, "P": 3},
		Controls: 1,
		Run:      runMapKeyType,
	})
}

func runMapKeyType(rc *RuleCtx) {
	for _, ks := range rc.W.kindSwitches(2) {
		if !(strings.HasSuffix(ks.tagType, "thrift.Type") || strings.HasSuffix(ks.tagType, "proto.Type")) {
			continue
		}
		defs := localDefs(ks.decl.Body)
		for _, cl := range ks.clauses {
			isMap := false
			for _, l := range cl.labels {
				if l.name == "MAP" {
					isMap = true
				}
			}
			if !isMap {
				continue
			}
			for _, st := range cl.body {
				ast.Inspect(st, func(n ast.Node) bool {
					ce, ok := n.(*ast.CallExpr)
					if !ok || len(ce.Args) != 1 {
						return true
					}
					sel, ok := ce.Fun.(*ast.SelectorExpr)
					if !ok || sel.Sel.Name != "ToRaw" {
						return true
					}
					fn, _ := ks.pkg.TypesInfo.Uses[sel.Sel].(*types.Func)
					if fn == nil || fn.Type().(*types.Signature).Recv() == nil || !strings.HasSuffix(typeShort(fn.Type().(*types.Signature).Recv().Type()), "generic.Path") {
						return true
					}
					rc.Examined++
					good := keyProvenance(ce.Args[0], defs, 0)
					rc.add(nil, ks.fnName, "ToRaw in MAP clause", ce.Pos(), map[bool]string{true: "discharged", false: "violated"}[good],
						map[bool]string{true: "the key is serialised by `" + types.ExprString(ce.Args[0]) + "` (key provenance)",
							false: "the map key is serialised by `" + types.ExprString(ce.Args[0]) + "`, which is not derived from the map's key type"}[good], true)
					return true
				})
			}
		}
	}
}

func keyProvenance(e ast.Expr, defs map[string]ast.Expr, depth int) bool {
	if depth > 3 {
		return false
	}
	found := false
	ast.Inspect(e, func(n ast.Node) bool {
		switch x := n.(type) {
		case *ast.SelectorExpr:
			switch x.Sel.Name {
			case "kt", "Key", "KeyType":
				found = true
			}
		case *ast.Ident:
			if x.Name == "kt" || x.Name == "keyType" {
				found = true
			} else if d, ok := defs[x.Name]; ok && d != e {
				if keyProvenance(d, defs, depth+1) {
					found = true
				}
			}
		}
		return !found
	})
	return found
}

package main

import (
	"go/token"
	"go/types"

	"golang.org/x/tools/go/ssa"
)

// NOTFOUNDPOS: the locator functions of the generic packages (`search*`) return a position next
// to the error; when the error is the not-found sentinel the caller (GetByPath -> SetByPath) uses
// that position as the INSERTION point of the new element. It therefore has to be a position of
// the container that was searched, i.e. derived from the read cursor — a constant (the zero value
// of an unassigned named result) makes every insertion land at offset 0 of the root value.
func init() {
	register(&Rule{
		Name:     "NOTFOUNDPOS",
		Doc:      "every return of a locator (a function of a generic package returning an int position and an error) whose error operand is the package's errNotFound sentinel returns a position that is derived from the read cursor (`p.Read`), not a constant: the position is where SetByPath inserts the missing element",
		Configs:  "NP",
		Floor:    map[string]int{"N": 6, "P": 6},
		Controls: 1,
		Run:      runNotFoundPos,
	})
}

func isNotFoundSentinel(v ssa.Value) bool {
	for {
		switch x := v.(type) {
		case *ssa.MakeInterface:
			v = x.X
			continue
		case *ssa.ChangeInterface:
			v = x.X
			continue
		case *ssa.UnOp:
			if x.Op == token.MUL {
				if g, ok := x.X.(*ssa.Global); ok && g.Name() == "errNotFound" {
					return true
				}
			}
		}
		return false
	}
}

func derivesFromRead(v ssa.Value, seen map[ssa.Value]bool, d int) bool {
	if v == nil || seen[v] || d > 12 {
		return false
	}
	seen[v] = true
	switch x := v.(type) {
	case *ssa.UnOp:
		if x.Op == token.MUL {
			if _, n, ok := fieldNameOf(x.X); ok && n == "Read" {
				return true
			}
		}
		return derivesFromRead(x.X, seen, d+1)
	case *ssa.Phi:
		for _, e := range x.Edges {
			if !derivesFromRead(e, seen, d+1) {
				return false // every incoming value must be a cursor position
			}
		}
		return len(x.Edges) > 0
	case *ssa.BinOp:
		return derivesFromRead(x.X, seen, d+1) || derivesFromRead(x.Y, seen, d+1)
	case *ssa.Convert:
		return derivesFromRead(x.X, seen, d+1)
	}
	return false
}

func runNotFoundPos(rc *RuleCtx) {
	for _, fn := range rc.W.Funcs {
		if fn.Blocks == nil {
			continue
		}
		pr := pkgRel(fn)
		if pr != "thrift/generic" && pr != "proto/generic" {
			continue
		}
		res := fn.Signature.Results()
		posIdx := -1
		for i := 0; i < res.Len(); i++ {
			if b, ok := res.At(i).Type().Underlying().(*types.Basic); ok && b.Kind() == types.Int {
				posIdx = i
			}
		}
		ei := errIndex(fn.Signature)
		if posIdx < 0 || ei < 0 {
			continue
		}
		for _, b := range fn.Blocks {
			ret, ok := b.Instrs[len(b.Instrs)-1].(*ssa.Return)
			if !ok || len(ret.Results) <= ei || !isNotFoundSentinel(ret.Results[ei]) {
				continue
			}
			rc.Examined++
			good := derivesFromRead(ret.Results[posIdx], map[ssa.Value]bool{}, 0)
			rc.verdict(good, fn, "return …, errNotFound", ret.Pos(), map[bool]string{
				true:  "the position returned with errNotFound is a cursor position of the searched container",
				false: "the position returned with errNotFound is not derived from the read cursor (constant / unassigned result): SetByPath inserts the missing element at that offset of the ROOT value, not into the searched container"}[good], true)
		}
	}
}

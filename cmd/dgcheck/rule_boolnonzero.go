package main

import (
	"go/token"
	"go/types"
	"strings"

	"golang.org/x/tools/go/ssa"
)

// BOOLNONZERO: protobuf encodes a bool as a varint; every conforming decoder reads ANY non-zero
// value as true. A decoder that tests `== 1` (or narrows the varint first) reads 2 as false and
// 257 as true — it no longer returns what the reference decoder sees.
func init() {
	register(&Rule{
		Name:     "BOOLNONZERO",
		Doc:      "every function of proto/protowire and proto/binary whose name says it decodes a bool (…Bool) and that derives its bool result from a decoded varint computes it as `v != 0` on the un-narrowed value — not `== 1`, and not after a conversion to a narrower integer type",
		Configs:  "NP",
		Floor:    map[string]int{"N": 1, "P": 1},
		Controls: 1,
		Run:      runBoolNonZero,
	})
}

func runBoolNonZero(rc *RuleCtx) {
	for _, fn := range rc.W.Funcs {
		if fn.Blocks == nil || !strings.Contains(fn.Name(), "Bool") {
			continue
		}
		pr := pkgRel(fn)
		if pr != "proto/protowire" && pr != "proto/binary" && !rc.W.isControlFn(fn) {
			continue
		}
		for _, b := range fn.Blocks {
			for _, ins := range b.Instrs {
				bo, ok := ins.(*ssa.BinOp)
				if !ok || (bo.Op != token.EQL && bo.Op != token.NEQ) {
					continue
				}
				k, isC := constInt(bo.Y)
				if !isC {
					continue
				}
				bt, ok := bo.X.Type().Underlying().(*types.Basic)
				if !ok || bt.Info()&types.IsInteger == 0 {
					continue
				}
				// the operand derives from a varint decode (ConsumeVarint / ReadVarint …)
				src := bo.X
				narrowed := false
				for {
					if c, ok := src.(*ssa.Convert); ok {
						if fb, ok := c.X.Type().Underlying().(*types.Basic); ok && intWidth(bt) < intWidth(fb) {
							narrowed = true
						}
						src = c.X
						continue
					}
					break
				}
				ex, ok := src.(*ssa.Extract)
				if !ok {
					continue
				}
				call, ok := ex.Tuple.(*ssa.Call)
				if !ok || call.Call.StaticCallee() == nil || !strings.Contains(call.Call.StaticCallee().Name(), "Varint") {
					continue
				}
				rc.Examined++
				good := k == 0 && !narrowed
				rc.verdict(good, fn, "bool from varint", bo.Pos(), map[bool]string{
					true:  "any non-zero varint is true",
					false: "the bool is computed as `" + bo.Op.String() + " " + itoa(k) + "`" + map[bool]string{true: " on a narrowed value", false: ""}[narrowed] + ": a varint other than 0/1 (2, 256+1 …) is decoded differently from every conforming decoder, which reads any non-zero value as true"}[good], false)
			}
		}
	}
}

func itoa(k int64) string {
	if k == 0 {
		return "0"
	}
	neg := k < 0
	if neg {
		k = -k
	}
	s := ""
	for k > 0 {
		s = string(rune('0'+k%10)) + s
		k /= 10
	}
	if neg {
		s = "-" + s
	}
	return s
}

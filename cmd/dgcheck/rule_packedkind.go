package main

import (
	"go/token"
	"strings"

	"golang.org/x/tools/go/ssa"
)

// PACKEDKIND: a length-delimited protobuf payload (packed list, embedded message, map entry) is
// walked by `for p.Read < start+length { … }` with `length` decoded by ReadLength(). What one
// element of the payload looks like depends on the element's kind (varint, fixed32, fixed64, …),
// so the loop body has to consume input through a call that is told the kind — a wire type, a
// proto.Type or a descriptor. A body that consumes with a fixed primitive only (ReadVarint for
// every element) miscounts and over-reads payloads of any other kind.
func init() {
	register(&Rule{
		Name:     "PACKEDKIND",
		Doc:      "every loop whose condition compares the cursor with `start + length` for a length decoded by ReadLength() consumes its elements through at least one cursor-advancing call that receives the element's kind as a non-constant argument (proto.WireType, proto.Type, ProtoKind, *TypeDescriptor, *FieldDescriptor — or that is handed the tag's wire type it has just consumed); a body that only calls fixed primitives treats every element as that primitive",
		Configs:  "NP",
		Floor:    map[string]int{"N": 6, "P": 6},
		Controls: 1,
		Run:      runPackedKind,
	})
}

func fromReadLength(v ssa.Value, d int) bool {
	if v == nil || d > 6 {
		return false
	}
	switch x := v.(type) {
	case *ssa.Extract:
		if c, ok := x.Tuple.(*ssa.Call); ok && x.Index == 0 {
			if cal := c.Call.StaticCallee(); cal != nil && cal.Name() == "ReadLength" {
				return true
			}
		}
	case *ssa.Convert:
		return fromReadLength(x.X, d+1)
	case *ssa.BinOp:
		return fromReadLength(x.X, d+1) || fromReadLength(x.Y, d+1)
	case *ssa.Phi:
		for _, e := range x.Edges {
			if fromReadLength(e, d+1) {
				return true
			}
		}
	}
	return false
}

func isKindType(t string) bool {
	t = strings.TrimPrefix(t, "*")
	switch t {
	case "proto.WireType", "proto.Type", "proto.ProtoKind", "proto.TypeDescriptor", "proto.FieldDescriptor", "proto.MessageDescriptor":
		return true
	}
	return false
}

func runPackedKind(rc *RuleCtx) {
	w := rc.W
	adv := mayAdvanceSummary(w)
	for _, fn := range w.Funcs {
		if fn.Blocks == nil {
			continue
		}
		for _, lp := range naturalLoops(fn) {
			iff, ok := lastInstr(lp.head).(*ssa.If)
			if !ok {
				continue
			}
			// the loop condition (possibly a conjunction evaluated over several blocks: take the head's)
			bo, ok := iff.Cond.(*ssa.BinOp)
			if !ok || (bo.Op != token.LSS && bo.Op != token.GTR) {
				continue
			}
			lhs, rhs := bo.X, bo.Y
			if bo.Op == token.GTR {
				lhs, rhs = rhs, lhs
			}
			ld, ok := lhs.(*ssa.UnOp)
			if !ok {
				continue
			}
			if _, n, ok := fieldNameOf(ld.X); !ok || n != "Read" {
				continue
			}
			sum, ok := rhs.(*ssa.BinOp)
			if !ok || sum.Op != token.ADD || !(fromReadLength(sum.X, 0) || fromReadLength(sum.Y, 0)) {
				continue
			}
			rc.Examined++
			consuming, aware := 0, 0
			var first ssa.Instruction
			for b := range lp.blocks {
				for _, ins := range b.Instrs {
					c, ok := ins.(ssa.CallInstruction)
					if !ok {
						continue
					}
					cal := c.Common().StaticCallee()
					if cal == nil {
						// dynamic call (closure / interface): assume it is told what it needs
						if c.Common().IsInvoke() || c.Common().Value != nil {
							consuming++
							aware++
						}
						continue
					}
					if !adv[cal] {
						continue
					}
					consuming++
					if first == nil {
						first = ins
					}
					for _, a := range c.Common().Args {
						if _, isC := a.(*ssa.Const); isC {
							continue
						}
						if isKindType(typeShort(a.Type())) {
							aware++
							break
						}
					}
				}
			}
			if consuming == 0 {
				continue
			}
			pos := firstPos(lp.head)
			good := aware > 0
			rc.verdict(good, fn, "payload loop", pos, map[bool]string{
				true:  "the loop over the length-delimited payload consumes through a call that receives the element kind",
				false: "the loop over the length-delimited payload consumes input only through fixed primitives (no wire type / kind / descriptor argument): every element is treated as the same primitive whatever the list's element type"}[good], true)
		}
	}
}

package main

import (
	"go/ast"
	"strings"
)

func runDefaultLit(rc *RuleCtx) {
	_, fd := rc.W.findDecl("thrift.makeDefaultValue")
	want := map[string][]string{
		"ConstType_ConstInt":     {"IsInt", "DOUBLE", "BOOL"},
		"ConstType_ConstDouble":  {"DOUBLE"},
		"ConstType_ConstLiteral": {"STRING"},
	}
	ast.Inspect(fd.Body, func(n ast.Node) bool {
		cc, ok := n.(*ast.CaseClause)
		if !ok {
			return true
		}
		for _, e := range cc.List {
			sel, ok := e.(*ast.SelectorExpr)
			if !ok {
				continue
			}
			need, ok := want[sel.Sel.Name]
			if !ok {
				continue
			}
			have := map[string]bool{}
			for _, st := range cc.Body {
				ast.Inspect(st, func(m ast.Node) bool {
					switch x := m.(type) {
					case *ast.Ident:
						have[x.Name] = true
					case *ast.SelectorExpr:
						have[x.Sel.Name] = true
					}
					return true
				})
			}
			var missing []string
			for _, w := range need {
				if !have[w] {
					missing = append(missing, w)
				}
			}
			rc.Examined++
			good := len(missing) == 0
			rc.add(nil, "thrift.makeDefaultValue", "case "+sel.Sel.Name, cc.Pos(), map[bool]string{true: "discharged", false: "violated"}[good],
				map[bool]string{true: "the clause handles every field type the grammar allows this literal for",
					false: "the clause for " + sel.Sel.Name + " never mentions " + strings.Join(missing, ", ") + ": a field of that type initialised with this kind of literal (`double d = 1`, `bool b = 1`) gets no default value"}[good], false)
		}
		return true
	})
}

package main

import (
	"fmt"
	"go/ast"
	"go/token"
	"go/types"
	"os"
	"path/filepath"
	"regexp"
	"sort"
	"strconv"
	"strings"

	"golang.org/x/tools/go/ssa"
)

// ---------------------------------------------------------------------------------------------
// NATIVEROW
// ---------------------------------------------------------------------------------------------

func init() {
	register(&Rule{
		Name:     "NATIVEROW",
		Doc:      "every row of a native function table (`var Funcs = []loader.CFunc{{\"_name\", _entry__name, _size__name, _stack__name, _pcsp__name}, …}` in internal/native/avx, avx2, sse) takes all four of its columns from the constants of its OWN name: a row whose entry offset is another routine's makes the stub of that name run the other routine (i64toa printing negatives as u64toa does) — in one CPU flavour only, which the test machine may never load",
		Configs:  "N",
		Floor:    map[string]int{"N": 102},
		Controls: 1,
		Run:      runNativeRow,
	})
}

func runNativeRow(rc *RuleCtx) {
	for _, p := range rc.W.Pkgs {
		rel := strings.TrimPrefix(strings.TrimPrefix(p.PkgPath, modPath), "/")
		if !strings.HasPrefix(rel, "internal/native/") {
			continue
		}
		for _, f := range p.Syntax {
			for _, d := range f.Decls {
				gd, ok := d.(*ast.GenDecl)
				if !ok || gd.Tok != token.VAR {
					continue
				}
				for _, sp := range gd.Specs {
					vs, ok := sp.(*ast.ValueSpec)
					if !ok {
						continue
					}
					for _, v := range vs.Values {
						cl, ok := v.(*ast.CompositeLit)
						if !ok {
							continue
						}
						t := p.TypesInfo.TypeOf(cl)
						if t == nil || !strings.HasSuffix(t.String(), "loader.CFunc") || !strings.HasPrefix(t.String(), "[]") {
							continue
						}
						for _, el := range cl.Elts {
							row, ok := el.(*ast.CompositeLit)
							if !ok || len(row.Elts) != 5 {
								continue
							}
							lit, ok := row.Elts[0].(*ast.BasicLit)
							if !ok || lit.Kind != token.STRING {
								continue
							}
							name, _ := strconv.Unquote(lit.Value)
							if name == "__native_entry__" {
								continue
							}
							rc.Examined++
							var wrong []string
							for i, pre := range []string{"_entry_", "_size_", "_stack_", "_pcsp_"} {
								id, ok := row.Elts[i+1].(*ast.Ident)
								if !ok || id.Name != pre+name {
									wrong = append(wrong, nodeText(rc.W.Fset, row.Elts[i+1]))
								}
							}
							good := len(wrong) == 0
							rc.add(nil, rel+".Funcs", "row "+name, row.Pos(), map[bool]string{true: "discharged", false: "violated"}[good],
								map[bool]string{true: "the four columns are the constants of this routine", false: fmt.Sprintf("the row of %s takes %v from another routine: the stub bound to this name runs (or is sized / unwound as) the other one", name, wrong)}[good], !good)
						}
					}
				}
			}
		}
	}
}

// ---------------------------------------------------------------------------------------------
// INTSWITCHCOVER
// ---------------------------------------------------------------------------------------------

func init() {
	register(&Rule{
		Name:     "INTSWITCHCOVER",
		Doc:      "a type switch that converts Go integers has an arm for every width of a family it handles: with arms for three of int8/int16/int32/int64 it has the fourth, and likewise for uint8/uint16/uint32/uint64; a switch that handles both sized families and one of int / uint handles the other, too: the readers hand out int8 for a thrift byte (byteAsUint8=false), int16, int32 … according to the wire type, so a converter without the int8 arm (primitive.ToInt64) fails with `unsupported type` for exactly the values ReadAny produces",
		Configs:  "NP",
		Floor:    map[string]int{"N": 6, "P": 6},
		Controls: 1,
		Run:      runIntSwitchCover,
	})
}

func runIntSwitchCover(rc *RuleCtx) {
	all := []types.BasicKind{types.Int, types.Int8, types.Int16, types.Int32, types.Int64, types.Uint, types.Uint8, types.Uint16, types.Uint32, types.Uint64}
	for _, p := range rc.W.Pkgs {
		rel := strings.TrimPrefix(strings.TrimPrefix(p.PkgPath, modPath), "/")
		if strings.HasPrefix(rel, "testdata") {
			continue
		}
		for _, f := range p.Syntax {
			for _, d := range f.Decls {
				fd, ok := d.(*ast.FuncDecl)
				if !ok || fd.Body == nil {
					continue
				}
				name := declName(rel, fd)
				ast.Inspect(fd.Body, func(n ast.Node) bool {
					ts, ok := n.(*ast.TypeSwitchStmt)
					if !ok {
						return true
					}
					have := map[types.BasicKind]bool{}
					for _, st := range ts.Body.List {
						cc := st.(*ast.CaseClause)
						for _, e := range cc.List {
							if t := p.TypesInfo.TypeOf(e); t != nil {
								if b, ok := t.(*types.Basic); ok && b.Info()&types.IsInteger != 0 {
									have[b.Kind()] = true
								}
							}
						}
					}
					fams := [][]types.BasicKind{all[1:5], all[6:10]}
					var missing []string
					examined := false
					for _, fam := range fams {
						n := 0
						for _, k := range fam {
							if have[k] {
								n++
							}
						}
						if n < 3 {
							continue
						}
						examined = true
						for _, k := range fam {
							if !have[k] {
								missing = append(missing, types.Typ[k].Name())
							}
						}
					}
					if !examined {
						return true
					}
					// the unsized types go in pairs: a converter that takes uint takes int, and vice versa
					if have[types.Int] != have[types.Uint] && (have[types.Int] || have[types.Uint]) {
						both := true
						for _, fam := range fams {
							n := 0
							for _, k := range fam {
								if have[k] {
									n++
								}
							}
							if n < 3 {
								both = false
							}
						}
						if both {
							if !have[types.Int] {
								missing = append(missing, "int")
							} else {
								missing = append(missing, "uint")
							}
						}
					}
					rc.Examined++
					good := len(missing) == 0
					rc.add(nil, name, "integer type switch", ts.Pos(), map[bool]string{true: "discharged", false: "violated"}[good],
						map[bool]string{true: "every width of the families handled has an arm", false: fmt.Sprintf("no arm for %v: a value of that type — which the readers do produce — falls into the default arm (unsupported type / silently dropped)", missing)}[good], !good)
					return true
				})
			}
		}
	}
}

// ---------------------------------------------------------------------------------------------
// MAPHDRORDER
// ---------------------------------------------------------------------------------------------

func init() {
	register(&Rule{
		Name:     "MAPHDRORDER",
		Doc:      "a thrift map header is key type, value type, count — in that order: wherever a function of package thrift writes the single bytes `byte(<key type>)` and `byte(<value type>)` of two Type-typed parameters (names kt/keyType vs et/vt/valueType/elemType), the key type is written first. The two parameters have the same Go type, so a swap compiles; it shows only for maps whose key and value types differ, and EncodeEmpty is reached only for absent fields under the write-default options",
		Configs:  "NP",
		Floor:    map[string]int{"N": 3, "P": 3},
		Controls: 1,
		Run:      runMapHdrOrder,
	})
}

func runMapHdrOrder(rc *RuleCtx) {
	keyish := map[string]bool{"kt": true, "keyType": true, "kType": true, "keytype": true}
	elemish := map[string]bool{"et": true, "vt": true, "valueType": true, "elemType": true, "vType": true, "valuetype": true}
	p := rc.W.Pkg("thrift")
	for _, f := range p.Syntax {
		for _, d := range f.Decls {
			fd, ok := d.(*ast.FuncDecl)
			if !ok || fd.Body == nil {
				continue
			}
			name := declName("thrift", fd)
			// per statement list: positions of byte(key) / byte(elem)
			var walk func(list []ast.Stmt)
			walk = func(list []ast.Stmt) {
				firstKey, firstElem := token.NoPos, token.NoPos
				for _, st := range list {
					ast.Inspect(st, func(n ast.Node) bool {
						switch x := n.(type) {
						case *ast.BlockStmt:
							walk(x.List)
							return false
						case *ast.CaseClause:
							walk(x.Body)
							return false
						case *ast.CallExpr:
							id, ok := x.Fun.(*ast.Ident)
							if !ok || id.Name != "byte" || len(x.Args) != 1 {
								return true
							}
							a, ok := x.Args[0].(*ast.Ident)
							if !ok {
								return true
							}
							if v, ok := p.TypesInfo.Uses[a].(*types.Var); !ok || !strings.HasSuffix(v.Type().String(), "thrift.Type") {
								return true
							}
							if keyish[a.Name] && firstKey == token.NoPos {
								firstKey = x.Pos()
							}
							if elemish[a.Name] && firstElem == token.NoPos {
								firstElem = x.Pos()
							}
						}
						return true
					})
				}
				if firstKey != token.NoPos && firstElem != token.NoPos {
					rc.Examined++
					good := firstKey < firstElem
					rc.add(nil, name, "map header bytes", firstKey, map[bool]string{true: "discharged", false: "violated"}[good],
						map[bool]string{true: "the key type byte is written before the value type byte", false: "the value type byte is written BEFORE the key type byte: the header of a map whose key and value types differ names them the wrong way round (malformed for every reader)"}[good], !good)
				}
			}
			walk(fd.Body.List)
		}
	}
}

// ---------------------------------------------------------------------------------------------
// RECINTARG
// ---------------------------------------------------------------------------------------------

func init() {
	register(&Rule{
		Name:     "RECINTARG",
		Doc:      "sibling recursive calls agree on the recursion bookkeeping: when one arm (case clause / block) of a function calls the function itself more than once — the key and the value of a map type, the two operands of a pair — every integer-typed parameter (the recursion depth) receives the same argument expression in all of them. thrift.parseType gives the nesting depth to decide which struct is a function's root (request base, api.body fast path); parsing a map's value at the map's own depth treats a struct inside `map<_, S>` as the root struct",
		Configs:  "NP",
		Floor:    map[string]int{"N": 3, "P": 3},
		Controls: 1,
		Run:      runRecIntArg,
	})
}

func runRecIntArg(rc *RuleCtx) {
	for _, p := range rc.W.Pkgs {
		rel := strings.TrimPrefix(strings.TrimPrefix(p.PkgPath, modPath), "/")
		if rel != "thrift" && rel != "proto" {
			continue
		}
		for _, f := range p.Syntax {
			for _, d := range f.Decls {
				fd, ok := d.(*ast.FuncDecl)
				if !ok || fd.Body == nil || fd.Recv != nil {
					continue
				}
				self := p.TypesInfo.Defs[fd.Name]
				sig, _ := self.Type().(*types.Signature)
				if sig == nil {
					continue
				}
				var intParams []int
				for i := 0; i < sig.Params().Len(); i++ {
					if b, ok := sig.Params().At(i).Type().Underlying().(*types.Basic); ok && b.Info()&types.IsInteger != 0 {
						intParams = append(intParams, i)
					}
				}
				if len(intParams) == 0 {
					continue
				}
				name := declName(rel, fd)
				var walk func(list []ast.Stmt)
				walk = func(list []ast.Stmt) {
					var calls []*ast.CallExpr
					for _, st := range list {
						ast.Inspect(st, func(n ast.Node) bool {
							switch x := n.(type) {
							case *ast.CaseClause:
								walk(x.Body)
								return false
							case *ast.FuncLit:
								return false
							case *ast.CallExpr:
								if id, ok := x.Fun.(*ast.Ident); ok && p.TypesInfo.Uses[id] == self {
									calls = append(calls, x)
								}
							}
							return true
						})
					}
					if len(calls) < 2 {
						return
					}
					rc.Examined++
					var diff []string
					for _, i := range intParams {
						seen := map[string]bool{}
						for _, c := range calls {
							if i < len(c.Args) {
								seen[types.ExprString(c.Args[i])] = true
							}
						}
						if len(seen) > 1 {
							var ks []string
							for k := range seen {
								ks = append(ks, k)
							}
							sort.Strings(ks)
							diff = append(diff, fmt.Sprintf("%s: %v", sig.Params().At(i).Name(), ks))
						}
					}
					good := len(diff) == 0
					rc.add(nil, name, fmt.Sprintf("%d sibling recursive calls", len(calls)), calls[0].Pos(), map[bool]string{true: "discharged", false: "violated"}[good],
						map[bool]string{true: "the sibling recursive calls pass the same integer arguments", false: fmt.Sprintf("the sibling recursive calls of one arm disagree on %v: one part of the type is processed at another nesting depth than its sibling", diff)}[good], !good)
				}
				walk(fd.Body.List)
			}
		}
	}
}

// ---------------------------------------------------------------------------------------------
// REGISTERALL
// ---------------------------------------------------------------------------------------------

func init() {
	register(&Rule{
		Name:     "REGISTERALL",
		Doc:      "in the protobuf descriptor builder (package proto) a field descriptor is entered into ALL of its message's lookup tables under the same conditions: the calls `ids.Set(number, fd)`, `names.Set(name, fd)`, `names.Set(jsonName, fd)` that register one descriptor value are control-dependent on the same branches. A JSON-name registration that runs only for some fields (only snake_case names, only message-typed fields) leaves ByJSONName(\"UID\") nil for a declared `json_name` while FieldDescriptor.JSONName() still reports it",
		Configs:  "NP",
		Floor:    map[string]int{"N": 1, "P": 1},
		Controls: 1,
		Run:      runRegisterAll,
	})
}

func runRegisterAll(rc *RuleCtx) {
	for _, fn := range rc.W.Funcs {
		if fn.Blocks == nil || pkgRel(fn) != "proto" {
			continue
		}
		type site struct {
			pos  token.Pos
			ctrl string
		}
		groups := map[ssa.Value][]site{}
		var order []ssa.Value
		for _, b := range fn.Blocks {
			for _, ins := range b.Instrs {
				c, ok := ins.(*ssa.Call)
				if !ok || c.Call.StaticCallee() == nil || c.Call.StaticCallee().Name() != "Set" || !strings.HasPrefix(pkgRel(c.Call.StaticCallee()), "internal/util") {
					continue
				}
				val := c.Call.Args[len(c.Call.Args)-1]
				if cv, ok := val.(*ssa.Convert); ok {
					val = cv.X
				}
				var cs []string
				for _, cd := range controllingIfs(b) {
					cs = append(cs, fmt.Sprintf("%d:%v", cd.ifb.Index, cd.val))
				}
				sort.Strings(cs)
				if _, ok := groups[val]; !ok {
					order = append(order, val)
				}
				groups[val] = append(groups[val], site{c.Pos(), strings.Join(cs, ",")})
			}
		}
		for _, v := range order {
			g := groups[v]
			if len(g) < 2 {
				continue
			}
			rc.Examined++
			good := true
			for _, s := range g[1:] {
				if s.ctrl != g[0].ctrl {
					good = false
				}
			}
			rc.verdict(good, fn, fmt.Sprintf("%d registrations of one descriptor", len(g)), g[0].pos, map[bool]string{
				true:  "all registrations of the descriptor run under the same conditions",
				false: "the registrations of one descriptor run under different conditions: for some fields one lookup table lacks the entry the others have"}[good], true)
		}
	}
}

// ---------------------------------------------------------------------------------------------
// POOLNEWSHARED
// ---------------------------------------------------------------------------------------------

func init() {
	register(&Rule{
		Name:     "POOLNEWSHARED",
		Doc:      "the objects a sync.Pool hands out share no storage: the `New` function of every pool (a `func() interface{}` literal of a package initialiser) stores into the object it builds no address or slice derived from a package-level variable. A scratch buffer shared by all pooled state machines (JT.Dbuf pointing into one package array) is written by every concurrent conversion: wrong doubles, errors or a native routine that never returns — with two or more goroutines only",
		Configs:  "NP",
		Floor:    map[string]int{"N": 12, "P": 12},
		Controls: 1,
		Run:      runPoolNewShared,
	})
}

func runPoolNewShared(rc *RuleCtx) {
	var globalRoot func(v ssa.Value, d int) *ssa.Global
	globalRoot = func(v ssa.Value, d int) *ssa.Global {
		if d > 8 {
			return nil
		}
		switch x := v.(type) {
		case *ssa.Global:
			return x
		case *ssa.UnOp:
			return globalRoot(x.X, d+1)
		case *ssa.IndexAddr:
			return globalRoot(x.X, d+1)
		case *ssa.FieldAddr:
			return globalRoot(x.X, d+1)
		case *ssa.Slice:
			return globalRoot(x.X, d+1)
		case *ssa.Convert:
			return globalRoot(x.X, d+1)
		case *ssa.ChangeType:
			return globalRoot(x.X, d+1)
		}
		return nil
	}
	isRef := func(t types.Type) bool {
		switch t.Underlying().(type) {
		case *types.Pointer, *types.Slice, *types.Map:
			return true
		}
		if b, ok := t.Underlying().(*types.Basic); ok && b.Kind() == types.UnsafePointer {
			return true
		}
		return false
	}
	for _, fn := range rc.W.Funcs {
		if fn.Blocks == nil || fn.Parent() == nil || strings.HasPrefix(pkgRel(fn), "testdata") {
			continue
		}
		isNew := strings.HasPrefix(fn.Parent().Name(), "init") || strings.HasPrefix(fn.Parent().Name(), "zzControlPool")
		sig := fn.Signature
		if !isNew || sig.Params().Len() != 0 || sig.Results().Len() != 1 || !types.IsInterface(sig.Results().At(0).Type()) {
			continue
		}
		rc.Examined++
		var bad ssa.Instruction
		var which string
		for _, b := range fn.Blocks {
			for _, ins := range b.Instrs {
				st, ok := ins.(*ssa.Store)
				if !ok || !isRef(st.Val.Type()) {
					continue
				}
				if g := globalRoot(st.Val, 0); g != nil && g.Pkg != nil && inRepo(g.Pkg.Pkg.Path()) {
					bad, which = ins, g.Name()
				}
			}
		}
		good := bad == nil
		pos := fn.Pos()
		if bad != nil {
			pos = bad.Pos()
		}
		rc.verdict(good, fn, "pool New", pos, map[bool]string{
			true:  "the new object holds only storage of its own",
			false: "the new object is given storage of the package variable " + which + ": every object of the pool shares it, so concurrent users overwrite each other's scratch data"}[good], true)
	}
}

// ---------------------------------------------------------------------------------------------
// ITERKIND
// ---------------------------------------------------------------------------------------------

func init() {
	register(&Rule{
		Name:     "ITERKIND",
		Doc:      "the typed key readers of the thrift map iterator look at the key type first: in the methods of thrift/generic.mapIterator a key is read with ReadString only under a comparison of the iterator's `kt` field (NextInt switches over it). Without the test NextStr reads the first 4 bytes of an integer or struct key as a string length: StrKeys / GetByStr on a map<i64,…> return garbage keys or a bogus size error instead of the type error",
		Configs:  "NP",
		Floor:    map[string]int{"N": 1, "P": 1},
		Controls: 1,
		Run:      runIterKind,
	})
}

func runIterKind(rc *RuleCtx) {
	for _, fn := range rc.W.Funcs {
		if fn.Blocks == nil || pkgRel(fn) != "thrift/generic" || fn.Signature.Recv() == nil || !strings.Contains(fn.Signature.Recv().Type().String(), "mapIterator") {
			continue
		}
		for _, b := range fn.Blocks {
			for _, ins := range b.Instrs {
				if !callsNamed(ins, "ReadString") {
					continue
				}
				rc.Examined++
				good := false
				for _, cd := range controllingIfs(b) {
					k, _ := condKey(cd.cond)
					bo, ok := k.(*ssa.BinOp)
					if !ok {
						continue
					}
					for _, op := range []ssa.Value{bo.X, bo.Y} {
						if u, ok := op.(*ssa.UnOp); ok && u.Op == token.MUL {
							if _, n, ok := fieldNameOf(u.X); ok && n == "kt" {
								good = true
							}
						}
					}
				}
				rc.verdict(good, fn, "ReadString key", ins.Pos(), map[bool]string{
					true:  "the key is read as a string only under a test of the key type",
					false: "the key is read as a string whatever the map's key type: the bytes of an integer / struct key are taken for a string length"}[good], true)
			}
		}
	}
}

// ---------------------------------------------------------------------------------------------
// PATCHAFTERDEC
// ---------------------------------------------------------------------------------------------

func init() {
	register(&Rule{
		Name:     "PATCHAFTERDEC",
		Doc:      "when a container writer drops an empty child it first corrects the count and then patches the header with the corrected value: in every block that both decrements a counter (`size -= 1`) and calls ModifyI32(pos, int32(size)), the value handed to ModifyI32 is the decremented one. With the two statements swapped the header announces one element more than follow (malformed for every reader) — in the one sibling loop (binary-keyed maps) that no test exercises with a cleared child",
		Configs:  "NP",
		Floor:    map[string]int{"N": 3, "P": 3},
		Controls: 1,
		Run:      runPatchAfterDec,
	})
}

func runPatchAfterDec(rc *RuleCtx) {
	for _, fn := range rc.W.Funcs {
		if fn.Blocks == nil {
			continue
		}
		rel := pkgRel(fn)
		if rel != "thrift/generic" && rel != "proto/generic" && rel != "thrift" {
			continue
		}
		for _, b := range fn.Blocks {
			var dec *ssa.BinOp
			for _, ins := range b.Instrs {
				if bo, ok := ins.(*ssa.BinOp); ok && bo.Op == token.SUB {
					if k, ok := constInt(bo.Y); ok && k == 1 {
						if _, isPhi := bo.X.(*ssa.Phi); isPhi {
							dec = bo
						}
					}
				}
			}
			if dec == nil {
				continue
			}
			for _, ins := range b.Instrs {
				if !callsNamed(ins, "ModifyI32") {
					continue
				}
				args := ins.(ssa.CallInstruction).Common().Args
				v := args[len(args)-1]
				if cv, ok := v.(*ssa.Convert); ok {
					v = cv.X
				}
				if v != ssa.Value(dec) && v != dec.X {
					continue
				}
				rc.Examined++
				good := v == ssa.Value(dec)
				rc.verdict(good, fn, "ModifyI32 after decrement", ins.Pos(), map[bool]string{
					true:  "the header is patched with the decremented count",
					false: "the header is patched with the count BEFORE the decrement of the same block: it announces one element more than is written"}[good], true)
			}
		}
	}
}

// ---------------------------------------------------------------------------------------------
// BUFOWN
// ---------------------------------------------------------------------------------------------

func init() {
	register(&Rule{
		Name:     "BUFOWN",
		Doc:      "a writer that is handed a protocol object (a *BinaryProtocol parameter of a function of thrift/generic or proto/generic) only ever EXTENDS that object's buffer: every store into p.Buf stores a value derived from p.Buf itself (append(p.Buf, …), p.Buf[a:b], a helper called with p.Buf). Assigning the caller's input bytes (`p.Buf = self.raw()`) makes the pooled writer's buffer alias the input: FreeBinaryProtocolBuffer puts the input into the pool and the next writer overwrites it",
		Configs:  "NP",
		Floor:    map[string]int{"N": 24, "P": 24},
		Controls: 1,
		Run:      runBufOwn,
	})
}

func runBufOwn(rc *RuleCtx) {
	for _, fn := range rc.W.Funcs {
		if fn.Blocks == nil {
			continue
		}
		rel := pkgRel(fn)
		if rel != "thrift/generic" && rel != "proto/generic" {
			continue
		}
		isProtoParam := func(v ssa.Value) bool {
			p, ok := v.(*ssa.Parameter)
			return ok && strings.HasSuffix(p.Type().String(), ".BinaryProtocol") && strings.HasPrefix(p.Type().String(), "*")
		}
		isBufAddr := func(v ssa.Value) (ssa.Value, bool) {
			fa, ok := v.(*ssa.FieldAddr)
			if !ok {
				return nil, false
			}
			if _, n, ok := fieldNameOf(fa); !ok || n != "Buf" {
				return nil, false
			}
			return fa.X, isProtoParam(fa.X)
		}
		var derived func(v ssa.Value, p ssa.Value, d int) bool
		derived = func(v ssa.Value, p ssa.Value, d int) bool {
			if d > 8 {
				return false
			}
			switch x := v.(type) {
			case *ssa.UnOp:
				if x.Op == token.MUL {
					if owner, ok := isBufAddr(x.X); ok && owner == p {
						return true
					}
				}
				return false
			case *ssa.Slice:
				return derived(x.X, p, d+1)
			case *ssa.Phi:
				for _, e := range x.Edges {
					if !derived(e, p, d+1) {
						return false
					}
				}
				return true
			case *ssa.Call:
				for _, a := range x.Call.Args {
					if derived(a, p, d+1) {
						return true
					}
				}
				return false
			case *ssa.Extract:
				return derived(x.Tuple, p, d+1)
			case *ssa.ChangeType:
				return derived(x.X, p, d+1)
			}
			return false
		}
		for _, b := range fn.Blocks {
			for _, ins := range b.Instrs {
				st, ok := ins.(*ssa.Store)
				if !ok {
					continue
				}
				owner, ok := isBufAddr(st.Addr)
				if !ok {
					continue
				}
				rc.Examined++
				good := derived(st.Val, owner, 0)
				rc.verdict(good, fn, "store p.Buf", st.Pos(), map[bool]string{
					true:  "the buffer is extended in place",
					false: "the protocol's buffer is REPLACED by a slice that does not come from it: the writer's (pooled) buffer now aliases foreign memory — the caller's input when it is the node's raw bytes"}[good], true)
			}
		}
	}
}

// ---------------------------------------------------------------------------------------------
// PEEKBREAK
// ---------------------------------------------------------------------------------------------

func init() {
	register(&Rule{
		Name:     "PEEKBREAK",
		Doc:      "a protobuf loop over the occurrences of one field (the pairs of a map, the elements of an unpacked list) decides whether the NEXT record still belongs to it by PEEKING at its tag: when the field number obtained from a tag read inside the loop is compared with the loop's own field number and one edge of that comparison leaves the loop, the tag was read with ConsumeTagWithoutMove, or the exit path restores the cursor (a store to .Read). A moving ConsumeTag leaves the cursor after the foreign field's tag: the not-found position handed to SetByPath (where the new pair is inserted) lies inside the next field",
		Configs:  "NP",
		Floor:    map[string]int{"N": 12, "P": 12},
		Controls: 1,
		Run:      runPeekBreak,
	})
}

func runPeekBreak(rc *RuleCtx) {
	for _, fn := range rc.W.Funcs {
		if fn.Blocks == nil {
			continue
		}
		rel := pkgRel(fn)
		if rel != "proto/generic" && rel != "conv/p2j" && rel != "proto/binary" {
			continue
		}
		loops := naturalLoops(fn)
		inLoop := func(b *ssa.BasicBlock) *natLoop {
			var best *natLoop
			for _, l := range loops {
				if l.blocks[b] && (best == nil || len(l.blocks) < len(best.blocks)) {
					best = l
				}
			}
			return best
		}
		for _, b := range fn.Blocks {
			iff, ok := lastInstr(b).(*ssa.If)
			if !ok {
				continue
			}
			l := inLoop(b)
			if l == nil {
				continue
			}
			k, _ := condKey(iff.Cond)
			bo, ok := k.(*ssa.BinOp)
			if !ok || (bo.Op != token.NEQ && bo.Op != token.EQL) {
				continue
			}
			var call *ssa.Call
			for _, op := range []ssa.Value{bo.X, bo.Y} {
				if ex, ok := op.(*ssa.Extract); ok && ex.Index == 0 {
					if c, ok := ex.Tuple.(*ssa.Call); ok && c.Call.StaticCallee() != nil && strings.HasPrefix(c.Call.StaticCallee().Name(), "ConsumeTag") && l.blocks[c.Block()] {
						call = c
					}
				}
			}
			if call == nil {
				continue
			}
			// one edge leaves the loop
			var exit *ssa.BasicBlock
			for _, s := range b.Succs {
				if !l.blocks[s] {
					exit = s
				}
			}
			if exit == nil {
				continue
			}
			rc.Examined++
			peek := call.Call.StaticCallee().Name() == "ConsumeTagWithoutMove"
			restored := false
			for _, ins := range exit.Instrs {
				if st, ok := ins.(*ssa.Store); ok {
					if _, n, ok := fieldNameOf(st.Addr); ok && n == "Read" {
						restored = true
					}
				}
			}
			good := peek || restored
			rc.verdict(good, fn, "loop exit on foreign tag", bo.Pos(), map[bool]string{
				true:  "the tag that ends the loop was peeked at (or the cursor is restored on the way out)",
				false: "the tag that ends the loop was CONSUMED: after the loop the cursor stands inside the next field, and every position derived from it (the not-found insertion point) is wrong"}[good], true)
		}
	}
}

// ---------------------------------------------------------------------------------------------
// PUBLISHCOMPLETE
// ---------------------------------------------------------------------------------------------

func init() {
	register(&Rule{
		Name:     "PUBLISHCOMPLETE",
		Doc:      "a type descriptor is complete when it is published in the compile cache: in the IDL parsers (packages proto and thrift) no direct field of a descriptor object is assigned after the object (or a record holding it) was stored into a map — the cache is what a recursive reference finds while the type is still being compiled, and it COPIES fields of what it finds (the LIST wrapper copies t.msg). A `msg` assigned after the field loop is nil in every `repeated Self` field: Message() of the list's element is nil",
		Configs:  "NP",
		Floor:    map[string]int{"N": 3, "P": 3},
		Controls: 1,
		Run:      runPublishComplete,
	})
}

func runPublishComplete(rc *RuleCtx) {
	for _, fn := range rc.W.Funcs {
		if fn.Blocks == nil {
			continue
		}
		rel := pkgRel(fn)
		if (rel != "proto" && rel != "thrift") || fn.Name() == "init" {
			continue
		}
		// objects published: the MapUpdate value, and allocs stored into its fields before the update
		for _, b := range fn.Blocks {
			for idx, ins := range b.Instrs {
				mu, ok := ins.(*ssa.MapUpdate)
				if !ok {
					continue
				}
				pub := map[ssa.Value]bool{}
				if a, ok := mu.Value.(*ssa.Alloc); ok {
					pub[a] = true
					if a.Referrers() != nil {
						for _, r := range *a.Referrers() {
							if fa, ok := r.(*ssa.FieldAddr); ok && fa.Referrers() != nil {
								for _, rr := range *fa.Referrers() {
									if st, ok := rr.(*ssa.Store); ok {
										if inner, ok := st.Val.(*ssa.Alloc); ok {
											pub[inner] = true
										}
									}
								}
							}
						}
					}
				}
				if len(pub) == 0 {
					continue
				}
				rc.Examined++
				// stores to direct fields of a published object that come after the update
				after := func(x ssa.Instruction) bool {
					if x.Block() == b {
						for j, y := range b.Instrs {
							if y == x {
								return j > idx
							}
						}
					}
					return b.Dominates(x.Block()) && x.Block() != b
				}
				var late *ssa.Store
				for obj := range pub {
					if obj.Referrers() == nil {
						continue
					}
					for _, r := range *obj.Referrers() {
						fa, ok := r.(*ssa.FieldAddr)
						if !ok || fa.Referrers() == nil {
							continue
						}
						for _, rr := range *fa.Referrers() {
							if st, ok := rr.(*ssa.Store); ok && st.Addr == ssa.Value(fa) && after(st) {
								late = st
							}
						}
					}
				}
				good := late == nil
				pos := mu.Pos()
				if late != nil {
					pos = late.Pos()
				}
				rc.verdict(good, fn, "cache publication", pos, map[bool]string{
					true:  "no field of the published descriptor is assigned after the publication",
					false: "a field of the descriptor is assigned AFTER it was published in the cache: a recursive reference compiled in between sees (and copies) the field unset"}[good], true)
			}
		}
	}
}

// ---------------------------------------------------------------------------------------------
// CTWINLIT
// ---------------------------------------------------------------------------------------------

func init() {
	register(&Rule{
		Name:     "CTWINLIT",
		Doc:      "the Go half and the C half of one lookup structure use the same numbers: for the function pairs (caching.ascii2Int / ascii2int, caching.DJBHash32 / hash_DJB32) whose Go side BUILDS the field-name trie / hash map that the native converter (/repo/native/map.c, from which the blob is generated) PROBES, the integer literals of the two bodies are the same multiset. An offset of 254 on the Go side and 255 in C keeps the Go trie self-consistent and makes the native lookup probe another slot: a JSON member whose key has a character below '.' at the discriminating position is dropped as unknown (assumption as for CHDRAGREE: the blob was built from these sources)",
		Configs:  "N",
		Floor:    map[string]int{"N": 2},
		Controls: 1,
		Run:      runCTwinLit,
	})
}

func runCTwinLit(rc *RuleCtx) {
	src, err := os.ReadFile(filepath.Join(rc.W.Dir, "native", "map.c"))
	if err != nil {
		broken("CTWINLIT: cannot read native/map.c: %v", err)
	}
	text := regexp.MustCompile(`(?s)/\*.*?\*/`).ReplaceAllString(string(src), "")
	text = regexp.MustCompile(`//[^\n]*`).ReplaceAllString(text, "")
	cBody := func(name string) (string, bool) {
		re := regexp.MustCompile(`\b` + name + `\s*\([^)]*\)\s*\{`)
		loc := re.FindStringIndex(text)
		if loc == nil {
			return "", false
		}
		depth, i := 1, loc[1]
		for ; i < len(text) && depth > 0; i++ {
			switch text[i] {
			case '{':
				depth++
			case '}':
				depth--
			}
		}
		return text[loc[1]:i], true
	}
	lits := func(s string) []string {
		var out []string
		for _, m := range regexp.MustCompile(`\b(\d+)(?:[uUlL]*)\b`).FindAllStringSubmatch(s, -1) {
			out = append(out, m[1])
		}
		sort.Strings(out)
		return out
	}
	pairs := [][2]string{{"ascii2Int", "ascii2int"}, {"DJBHash32", "hash_DJB32"}, {"zzControlAscii2Int", "ascii2int"}}
	p := rc.W.Pkg("internal/caching")
	for _, pr := range pairs {
		var fd *ast.FuncDecl
		for _, f := range p.Syntax {
			for _, d := range f.Decls {
				if x, ok := d.(*ast.FuncDecl); ok && x.Name.Name == pr[0] && x.Recv == nil {
					fd = x
				}
			}
		}
		if fd == nil || fd.Body == nil {
			if strings.HasPrefix(pr[0], "zzControl") {
				continue
			}
			broken("CTWINLIT: Go function internal/caching.%s not found", pr[0])
		}
		body, ok := cBody(pr[1])
		if !ok {
			broken("CTWINLIT: C function %s not found in native/map.c", pr[1])
		}
		var golits []string
		ast.Inspect(fd.Body, func(n ast.Node) bool {
			if bl, ok := n.(*ast.BasicLit); ok && bl.Kind == token.INT {
				if tv, ok := p.TypesInfo.Types[bl]; ok && tv.Value != nil {
					golits = append(golits, tv.Value.ExactString())
				}
			}
			return true
		})
		sort.Strings(golits)
		clits := lits(body)
		rc.Examined++
		good := strings.Join(golits, ",") == strings.Join(clits, ",")
		rc.add(nil, "internal/caching."+pr[0], "literals vs native "+pr[1], fd.Pos(), map[bool]string{true: "discharged", false: "violated"}[good],
			map[bool]string{true: fmt.Sprintf("both bodies use %v", golits), false: fmt.Sprintf("the Go body uses %v, the C body %v: what the Go side builds is not what the native side probes", golits, clits)}[good], true)
	}
}

// ---------------------------------------------------------------------------------------------
// INPLACEFILTER
// ---------------------------------------------------------------------------------------------

func init() {
	register(&Rule{
		Name:     "INPLACEFILTER",
		Doc:      "a result slice that re-uses its input's array (`ret = in[:0]` of a slice parameter) is filled in ONE pass over that input: the function does not read elements of the parameter inside a loop nested in another loop. findFuncs searches `funcs` once per requested method; filtering in place overwrites the entries a later search still has to find (methods requested out of declaration order silently disappear). Expected count zero today; the control keeps the matcher alive",
		Configs:  "NP",
		Floor:    map[string]int{"N": 0, "P": 0},
		Controls: 1,
		Run:      runInplaceFilter,
	})
}

func runInplaceFilter(rc *RuleCtx) {
	for _, fn := range rc.W.Funcs {
		if fn.Blocks == nil || strings.HasPrefix(pkgRel(fn), "testdata") {
			continue
		}
		for _, b := range fn.Blocks {
			for _, ins := range b.Instrs {
				sl, ok := ins.(*ssa.Slice)
				if !ok || sl.Low != nil || sl.High == nil {
					continue
				}
				if k, isC := constInt(sl.High); !isC || k != 0 {
					continue
				}
				p, ok := sl.X.(*ssa.Parameter)
				if !ok {
					continue
				}
				if _, isSlice := p.Type().Underlying().(*types.Slice); !isSlice {
					continue
				}
				rc.Examined++
				loops := naturalLoops(fn)
				nested := false
				for _, inner := range loops {
					reads := false
					for lb := range inner.blocks {
						for _, li := range lb.Instrs {
							if ia, ok := li.(*ssa.IndexAddr); ok && ia.X == ssa.Value(p) {
								reads = true
							}
						}
					}
					if !reads {
						continue
					}
					for _, outer := range loops {
						if outer != inner && outer.blocks[inner.head] && len(outer.blocks) > len(inner.blocks) {
							nested = true
						}
					}
				}
				rc.verdict(!nested, fn, "in-place filter of "+p.Name(), sl.Pos(), map[bool]string{
					true:  "the input is read in a single pass",
					false: "the result shares the array of `" + p.Name() + "` while `" + p.Name() + "` is searched again for every iteration of an enclosing loop: appended results overwrite entries that a later search still needs"}[!nested], true)
			}
		}
	}
}

// ---------------------------------------------------------------------------------------------
// NOUNTYPEDSKIP / ENCODINGTABLE
// ---------------------------------------------------------------------------------------------

func init() {
	register(&Rule{
		Name:     "NOUNTYPEDSKIP",
		Doc:      "the library itself never skips a repeated field with (*proto/binary.BinaryProtocol).SkipAllElements, the shortcut that takes the elements of a packed list for varints: every caller has the field's descriptor and passes the element's wire type to SkipAllElementsWithType. With the untyped call a packed list of fixed32 / fixed64 / float / double elements is walked in varint steps: the span of the field returned by Fields / Children ends in the middle of an element or fails, for exactly the kinds the canned test messages do not put into a list. Expected count zero; the control keeps the matcher alive",
		Configs:  "NP",
		Floor:    map[string]int{"N": 0, "P": 0},
		Controls: 1,
		Run:      runNoUntypedSkip,
	})
	register(&Rule{
		Name:     "ENCODINGTABLE",
		Doc:      "the value encoding an HTTP mapping announces (the constant its Encoding() method returns, which both converters use to choose the codec for the field's value) is the tabled one: EncodingJSON for every mapping of thrift/annotation except apiNoBodyStruct (EncodingThriftBinary). The table was read off the eleven implementations and confirmed against the converters' dispatch; a mapping that announces EncodingText makes a struct-typed api.raw_body fail on request and arrive as `a:x,b:2` on response",
		Configs:  "NP",
		Floor:    map[string]int{"N": 11, "P": 11},
		Controls: 1,
		Run:      runEncodingTable,
	})
}

func runNoUntypedSkip(rc *RuleCtx) {
	for _, fn := range rc.W.Funcs {
		if fn.Blocks == nil || strings.HasPrefix(pkgRel(fn), "testdata") {
			continue
		}
		for _, b := range fn.Blocks {
			for _, ins := range b.Instrs {
				if !callsNamed(ins, "SkipAllElements") {
					continue
				}
				cal := ins.(ssa.CallInstruction).Common().StaticCallee()
				if pkgRel(cal) != "proto/binary" {
					continue
				}
				rc.Examined++
				rc.bad(fn, "SkipAllElements", ins.Pos(), "the untyped skip takes the elements of a packed list for varints; a packed list of fixed-width elements is walked in the wrong steps — pass the element's wire type (SkipAllElementsWithType)")
			}
		}
	}
}

func runEncodingTable(rc *RuleCtx) {
	table := map[string]string{"apiNoBodyStruct": "EncodingThriftBinary", "zzControlMapping": "EncodingJSON"}
	for _, n := range []string{"apiPostForm", "apiQuery", "apiPath", "apiHeader", "apiCookie", "apiBody", "apiHTTPCode", "apiNone", "apiRawBody", "apiRawUri"} {
		table[n] = "EncodingJSON"
	}
	p := rc.W.Pkg("thrift/annotation")
	for _, f := range p.Syntax {
		for _, d := range f.Decls {
			fd, ok := d.(*ast.FuncDecl)
			if !ok || fd.Body == nil || fd.Recv == nil || fd.Name.Name != "Encoding" || len(fd.Body.List) != 1 {
				continue
			}
			ret, ok := fd.Body.List[0].(*ast.ReturnStmt)
			if !ok || len(ret.Results) != 1 {
				continue
			}
			recv := types.ExprString(fd.Recv.List[0].Type)
			recv = strings.TrimPrefix(recv, "*")
			want, tabled := table[recv]
			if !tabled {
				continue // a mapping the table does not know is not judged
			}
			got := types.ExprString(ret.Results[0])
			rc.Examined++
			good := strings.HasSuffix(got, "."+want) || got == want
			rc.add(nil, "(thrift/annotation."+recv+").Encoding", "announced encoding", ret.Pos(), map[bool]string{true: "discharged", false: "violated"}[good],
				map[bool]string{true: "the mapping announces " + want, false: "the mapping announces " + got + " where the table says " + want + ": both converters choose the value codec from it, so a struct / container value of this source is encoded or decoded with the wrong codec"}[good], true)
		}
	}
}

// ---------------------------------------------------------------------------------------------
// PROBEBOUND
// ---------------------------------------------------------------------------------------------

func init() {
	register(&Rule{
		Name:     "PROBEBOUND",
		Doc:      "a LOOKUP in the open-addressed child table gives up after one round: a loop of thrift/generic that advances a slot index modulo the table size (`h = (h+1) % N`) and compares the slot's key with the key looked for has an exit governed by an ordered comparison with N (a step counter), not only by the slot's content. The loader fills at most half of the 2n slots, but SetByStr / SetByInt append new children INTO the table's spare slots; once every slot is occupied a lookup of an absent key never meets the empty slot that used to end the probe and never returns",
		Configs:  "NP",
		Floor:    map[string]int{"N": 2, "P": 2},
		Controls: 1,
		Run:      runProbeBound,
	})
}

func runProbeBound(rc *RuleCtx) {
	for _, fn := range rc.W.Funcs {
		if fn.Blocks == nil || pkgRel(fn) != "thrift/generic" {
			continue
		}
		for _, lp := range naturalLoops(fn) {
			var mod *ssa.BinOp
			cmpKey := false
			for b := range lp.blocks {
				for _, ins := range b.Instrs {
					if bo, ok := ins.(*ssa.BinOp); ok && bo.Op == token.REM {
						if _, isParam := bo.Y.(*ssa.Parameter); isParam {
							mod = bo
						}
					}
					if callsNamed(ins, "str") || callsNamed(ins, "int") {
						cmpKey = true
					}
				}
			}
			if mod == nil || !cmpKey {
				continue
			}
			rc.Examined++
			good := false
			for b := range lp.blocks {
				iff, ok := lastInstr(b).(*ssa.If)
				if !ok {
					continue
				}
				leaves := false
				for _, s := range b.Succs {
					if !lp.blocks[s] {
						leaves = true
					}
				}
				k, _ := condKey(iff.Cond)
				bo, ok := k.(*ssa.BinOp)
				if !ok {
					continue
				}
				switch bo.Op {
				case token.LSS, token.LEQ, token.GTR, token.GEQ:
					if bo.X == mod.Y || bo.Y == mod.Y {
						// `i < N && slot occupied`: the short-circuit puts the counter test in the loop head
						if leaves || true {
							good = true
						}
					}
				}
			}
			rc.verdict(good, fn, "probe loop", mod.Pos(), map[bool]string{
				true:  "the probe counts its steps against the table size",
				false: "the probe ends only at an empty slot or at the key: in a table whose every slot is occupied (children appended after the load) the lookup of an absent key never returns"}[good], true)
		}
	}
}

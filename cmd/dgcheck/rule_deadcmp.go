package main

import (
	"fmt"
	"go/token"
	"go/types"
	"math"

	"golang.org/x/tools/go/ssa"
)

// DEADCMP: a limit check whose outcome is fixed by the operand's type can never fire. The depth
// and size limits of the decoders are written as comparisons of small unsigned counters (uint8
// stack pointers, uint16/uint32 lengths) widened to int; if the constant they are compared with
// lies outside the range of the *source* type the guard is dead and the limit is not enforced.
func init() {
	register(&Rule{
		Name:     "DEADCMP",
		Doc:      "an ordered or equality comparison between an integer widened from a narrower type T (uint8/16/32, int8/16/32) and a constant never uses a constant above T's maximum: a guard like `int(sp) >= 256` with sp uint8 can never be true, so the limit it is meant to enforce (stack depth, length bound) does not exist; `len(f)` of a stack field that is only ever allocated with one constant length counts as that constant",
		Configs:  "NP",
		Floor:    map[string]int{"N": 5, "P": 5},
		Controls: 1,
		Run:      runDeadCmp,
	})
}

func basicRange(b *types.Basic) (lo, hi float64, ok bool) {
	switch b.Kind() {
	case types.Uint8:
		return 0, math.MaxUint8, true
	case types.Uint16:
		return 0, math.MaxUint16, true
	case types.Uint32:
		return 0, math.MaxUint32, true
	case types.Int8:
		return math.MinInt8, math.MaxInt8, true
	case types.Int16:
		return math.MinInt16, math.MaxInt16, true
	case types.Int32:
		return math.MinInt32, math.MaxInt32, true
	}
	return 0, 0, false
}

func widenedFrom(v ssa.Value) (*types.Basic, bool) {
	cv, ok := v.(*ssa.Convert)
	if !ok {
		return nil, false
	}
	from, ok1 := cv.X.Type().Underlying().(*types.Basic)
	to, ok2 := cv.Type().Underlying().(*types.Basic)
	if !ok1 || !ok2 || from.Info()&types.IsInteger == 0 || to.Info()&types.IsInteger == 0 {
		return nil, false
	}
	if _, isConst := cv.X.(*ssa.Const); isConst {
		return nil, false
	}
	if intWidth(from) >= intWidth(to) {
		return nil, false
	}
	// uintN -> wider signed/unsigned and intN -> wider signed preserve the value
	if from.Info()&types.IsUnsigned == 0 && to.Info()&types.IsUnsigned != 0 {
		return nil, false
	}
	return from, true
}

func runDeadCmp(rc *RuleCtx) {
	for _, fn := range rc.W.Funcs {
		for _, b := range fn.Blocks {
			for _, ins := range b.Instrs {
				bo, ok := ins.(*ssa.BinOp)
				if !ok {
					continue
				}
				switch bo.Op {
				case token.LSS, token.LEQ, token.GTR, token.GEQ, token.EQL, token.NEQ:
				default:
					continue
				}
				x, y, op := bo.X, bo.Y, bo.Op
				if _, isC := x.(*ssa.Const); isC {
					x, y = y, x
					op = map[token.Token]token.Token{token.LSS: token.GTR, token.LEQ: token.GEQ, token.GTR: token.LSS, token.GEQ: token.LEQ, token.EQL: token.EQL, token.NEQ: token.NEQ}[op]
				}
				c, isC := constInt(y)
				if !isC {
					// len(f) of a stack field that is always allocated with one constant length (STACKCAP)
					if c, isC = lenOfFixedField(rc.W, y); !isC {
						continue
					}
				}
				from, ok := widenedFrom(x)
				if !ok {
					continue
				}
				lo, hi, ok := basicRange(from)
				if !ok {
					continue
				}
				rc.Examined++
				cf := float64(c)
				dead := ""
				// only the upper side: a limit the counter's type cannot represent. (`x < 0` on a widened
				// unsigned is a redundant test — the value really cannot be negative — not a missing limit.)
				if cf > hi {
					switch op {
					case token.GEQ, token.GTR, token.EQL:
						dead = "never true"
					case token.LSS, token.LEQ, token.NEQ:
						dead = "always true"
					}
				} else if cf == hi && op == token.GTR {
					dead = "never true"
				} else if cf == hi && op == token.LEQ {
					dead = "always true"
				}
				_ = lo
				anchor := fmt.Sprintf("%s(widened) %s const", from.Name(), op)
				if dead == "" {
					rc.ok(fn, anchor, bo.Pos(), fmt.Sprintf("constant %d lies inside the range of %s", c, from.Name()), false)
				} else {
					rc.bad(fn, anchor, bo.Pos(), fmt.Sprintf("the operand is widened from %s [%.0f, %.0f]; compared `%s %d` the condition is %s: the guard it implements does not exist", from.Name(), lo, hi, op, c, dead))
				}
			}
		}
	}
}

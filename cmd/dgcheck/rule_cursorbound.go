package main

import (
	"go/token"
	"go/types"

	"golang.org/x/tools/go/ssa"
)

func init() {
	register(&Rule{
		Name: "CURSORBOUND",
		Doc: "(a) a read cursor is never advanced by a constant without a bounds check: every store `p.Read = p.Read + c` (c a positive constant) into a thrift/proto BinaryProtocol is dominated by a comparison involving len(p.Buf) on the same cursor — an unchecked jump past the end lets later code build nodes over memory outside the caller's buffer; " +
			"(b) a byte count is not computed by multiplying an input-derived 32-bit count in 32-bit arithmetic and widening afterwards (int(sz*n)): the product can wrap negative and move the cursor backwards",
		Configs:  "NP",
		Floor:    map[string]int{"N": 1, "P": 1},
		Controls: 1,
		Run:      runCursorBound,
	})
}

func runCursorBound(rc *RuleCtx) {
	w := rc.W
	for _, fn := range w.Funcs {
		if fn.Blocks == nil {
			continue
		}
		for _, b := range fn.Blocks {
			for _, ins := range b.Instrs {
				switch x := ins.(type) {
				case *ssa.Store:
					if !storesRead(x) {
						continue
					}
					bo, ok := x.Val.(*ssa.BinOp)
					if !ok || bo.Op != token.ADD {
						continue
					}
					c, isC := constInt(bo.Y)
					if !isC || c <= 0 {
						continue
					}
					ld, ok := bo.X.(*ssa.UnOp)
					if !ok {
						continue
					}
					if _, n, ok := fieldNameOf(ld.X); !ok || n != "Read" {
						continue
					}
					rc.Examined++
					// a dominating comparison that involves len(<cursor>.Buf)
					guarded := false
					for _, cd := range controllingIfs(b) {
						if mentionsLenBuf(cd.cond, 0) {
							guarded = true
						}
					}
					rc.verdict(guarded, fn, "Read += const", x.Pos(), map[bool]string{true: "advance is dominated by a comparison with len(Buf)", false: "the cursor is advanced by a constant with no dominating bounds check against len(Buf): it can point past the end of the caller's buffer"}[guarded], true)
				case *ssa.Convert:
					// int(<int32 product>) where an operand derives from a decoded header count
					bo, ok := x.X.(*ssa.BinOp)
					if !ok || bo.Op != token.MUL {
						continue
					}
					fb, ok1 := bo.Type().Underlying().(*types.Basic)
					tb, ok2 := x.Type().Underlying().(*types.Basic)
					if !ok1 || !ok2 || fb.Info()&types.IsInteger == 0 || tb.Info()&types.IsInteger == 0 || intWidth(fb) >= intWidth(tb) {
						continue
					}
					pr := pkgRel(fn)
					if pr != "thrift" && pr != "thrift/generic" && pr != "proto/binary" && pr != "proto/generic" && !w.isControlFn(fn) {
						continue
					}
					if _, c1 := bo.X.(*ssa.Const); c1 {
						if _, c2 := bo.Y.(*ssa.Const); c2 {
							continue
						}
					}
					rc.Examined++
					rc.bad(fn, "int(narrow product)", x.Pos(), "a product is computed in "+fb.Name()+" and widened afterwards: for large input counts it wraps (possibly negative) before the conversion; convert the operands first")
				}
			}
		}
	}
}

func mentionsLenBuf(v ssa.Value, d int) bool {
	if d > 6 || v == nil {
		return false
	}
	switch x := v.(type) {
	case *ssa.BinOp:
		return mentionsLenBuf(x.X, d+1) || mentionsLenBuf(x.Y, d+1)
	case *ssa.UnOp:
		return mentionsLenBuf(x.X, d+1)
	case *ssa.Convert:
		return mentionsLenBuf(x.X, d+1)
	case *ssa.Call:
		if bi, ok := x.Call.Value.(*ssa.Builtin); ok && bi.Name() == "len" {
			return true
		}
		if cal := x.Call.StaticCallee(); cal != nil && cal.Name() == "Left" {
			return true
		}
	case *ssa.Phi:
		for _, e := range x.Edges {
			if mentionsLenBuf(e, d+1) {
				return true
			}
		}
	}
	return false
}

package main

import (
	"go/ast"
	"go/types"
	"regexp"
	"strings"
)

// UNUSEDBOUND: a parameter that carries a bound — a length, size, limit, depth — exists to be
// compared with. A function body that never mentions it walks without that bound: the scan of an
// embedded message runs on into its parent, the recursion has no budget.
func init() {
	register(&Rule{
		Name:     "UNUSEDBOUND",
		Doc:      "every integer parameter whose name says it is a bound (…len, …length, …size, …limit, …depth, max…, …end, case-insensitive), and every parameter of type proto.WireType (the wire type read from the tag in front of the value), of a function with a body is referenced by that body: an ignored bound means the callee scans or recurses without it, an ignored wire type that it decodes the value without looking at how it was encoded (packed vs. unpacked)",
		Configs:  "NP",
		Floor:    map[string]int{"N": 15, "P": 15},
		Controls: 1,
		Run:      runUnusedBound,
	})
}

var boundNameRe = regexp.MustCompile(`(?i)(len|length|size|limit|depth|end)$|^max`)

func runUnusedBound(rc *RuleCtx) {
	for _, p := range rc.W.Pkgs {
		rel := strings.TrimPrefix(strings.TrimPrefix(p.PkgPath, modPath), "/")
		if strings.HasPrefix(rel, "internal/native") || strings.HasPrefix(rel, "testdata") {
			continue
		}
		info := p.TypesInfo
		for _, f := range p.Syntax {
			for _, d := range f.Decls {
				fd, ok := d.(*ast.FuncDecl)
				if !ok || fd.Body == nil || fd.Type.Params == nil {
					continue
				}
				name := declName(rel, fd)
				used := map[types.Object]bool{}
				ast.Inspect(fd.Body, func(n ast.Node) bool {
					if id, ok := n.(*ast.Ident); ok {
						if o := info.Uses[id]; o != nil {
							used[o] = true
						}
					}
					return true
				})
				for _, fl := range fd.Type.Params.List {
					for _, id := range fl.Names {
						if id.Name == "_" {
							continue
						}
						o := info.Defs[id]
						if o == nil {
							continue
						}
						isWire := strings.HasSuffix(typeShort(o.Type()), "proto.WireType")
						if !isWire {
							if !boundNameRe.MatchString(id.Name) {
								continue
							}
							b, ok := o.Type().Underlying().(*types.Basic)
							if !ok || b.Info()&types.IsInteger == 0 {
								continue
							}
						}
						rc.Examined++
						good := used[o]
						rc.add(nil, name, "bound parameter "+id.Name, id.Pos(), map[bool]string{true: "discharged", false: "violated"}[good],
							map[bool]string{true: "the bound is used", false: "the bound parameter `" + id.Name + "` is never used by the function body: the callee runs without the limit its caller computed"}[good], false)
					}
				}
			}
		}
	}
}

package main

import (
	"go/token"
	"go/types"
	"strings"

	"golang.org/x/tools/go/ssa"
)

// COUNTCMP: a zero-based position (a loop counter that starts at 0 and steps by 1, or an index
// handed in by the caller) compared with an element COUNT decoded from a container header must
// treat "position == count" like "position > count": the only correct comparisons are
// pos < count (continue) and pos >= count (leave). `pos > count` / `pos <= count` admit the
// position one past the last element — an off-by-one that reads (or addresses) an element the
// container does not have.
func init() {
	register(&Rule{
		Name:     "COUNTCMP",
		Doc:      "a zero-based position — an induction variable starting at 0 with step 1, an int index parameter, PathNode.int(), or an iterator's element counter `k` — compared with an element count decoded from a container header (size result of Read{List,Set,Map}Begin, the `size` field of an iterator) groups equality with greater-than: only `pos < count` and `pos >= count` (either operand order) are accepted; `pos > count` / `pos <= count` admit the position one past the last element",
		Configs:  "NP",
		Floor:    map[string]int{"N": 20, "P": 20},
		Controls: 1,
		Run:      runCountCmp,
	})
}

func runCountCmp(rc *RuleCtx) {
	w := rc.W
	for _, fn := range w.Funcs {
		if fn.Blocks == nil {
			continue
		}
		for _, b := range fn.Blocks {
			for _, ins := range b.Instrs {
				bo, ok := ins.(*ssa.BinOp)
				if !ok {
					continue
				}
				switch bo.Op {
				case token.LSS, token.LEQ, token.GTR, token.GEQ:
				default:
					continue
				}
				xc, yc := headerCount(bo.X, 0), headerCount(bo.Y, 0)
				if xc == yc {
					continue // neither or both are counts
				}
				pos, op := bo.X, bo.Op
				if xc {
					pos = bo.Y
					// count OP pos  ==  pos OP' count
					op = map[token.Token]token.Token{token.LSS: token.GTR, token.LEQ: token.GEQ, token.GTR: token.LSS, token.GEQ: token.LEQ}[bo.Op]
				}
				kind := zeroBasedPos(pos)
				if kind == "" {
					continue
				}
				rc.Examined++
				good := op == token.LSS || op == token.GEQ
				detail := kind + " compared with a header count by `" + op.String() + "`"
				if !good {
					detail += ": the position equal to the count (one past the last element) is treated as in range"
				}
				rc.verdict(good, fn, kind+" vs count", bo.Pos(), detail, false)
			}
		}
	}
}

// headerCount: the value is an element count decoded from a container header.
func headerCount(v ssa.Value, d int) bool {
	if d > 4 {
		return false
	}
	switch x := v.(type) {
	case *ssa.Extract:
		call, ok := x.Tuple.(*ssa.Call)
		if !ok {
			return false
		}
		cal := call.Call.StaticCallee()
		if cal == nil {
			return false
		}
		switch cal.Name() {
		case "ReadListBegin", "ReadSetBegin":
			return x.Index == 1
		case "ReadMapBegin":
			return x.Index == 2
		}
	case *ssa.UnOp:
		if x.Op == token.MUL {
			if owner, n, ok := fieldNameOf(x.X); ok && n == "size" && strings.HasSuffix(typeShort(owner), "Iterator") {
				return true
			}
		}
	case *ssa.Field:
		if owner, n, ok := fieldNameOf(x); ok && n == "size" && strings.HasSuffix(typeShort(owner), "Iterator") {
			return true
		}
	case *ssa.Convert:
		return headerCount(x.X, d+1)
	case *ssa.ChangeType:
		return headerCount(x.X, d+1)
	}
	return false
}

// zeroBasedPos classifies v as a zero-based position; "" if it is not one.
func zeroBasedPos(v ssa.Value) string {
	switch x := v.(type) {
	case *ssa.Phi:
		if len(x.Edges) != 2 {
			return ""
		}
		for i := 0; i < 2; i++ {
			c, isC := constInt(x.Edges[i])
			if !isC || c != 0 {
				continue
			}
			st, ok := x.Edges[1-i].(*ssa.BinOp)
			if !ok || st.Op != token.ADD {
				continue
			}
			if one, ok := constInt(st.Y); ok && one == 1 && st.X == x {
				return "counter"
			}
		}
	case *ssa.Parameter:
		if b, ok := x.Type().Underlying().(*types.Basic); ok && b.Kind() == types.Int {
			return "index parameter"
		}
	case *ssa.Call:
		if cal := x.Call.StaticCallee(); cal != nil && (cal.Name() == "int" || cal.Name() == "Int") && cal.Signature.Recv() != nil {
			if strings.HasSuffix(typeShort(cal.Signature.Recv().Type()), "Path") {
				return "path index"
			}
		}
	case *ssa.Convert:
		return zeroBasedPos(x.X)
	case *ssa.UnOp:
		if x.Op == token.MUL {
			if owner, n, ok := fieldNameOf(x.X); ok && (n == "k" || n == "i") && strings.HasSuffix(typeShort(owner), "Iterator") {
				return "iterator position"
			}
		}
	case *ssa.Field:
		if owner, n, ok := fieldNameOf(x); ok && (n == "k" || n == "i") && strings.HasSuffix(typeShort(owner), "Iterator") {
			return "iterator position"
		}
	}
	return ""
}

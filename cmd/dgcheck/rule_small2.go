package main

import (
	"go/token"
	"go/types"
	"strings"

	"golang.org/x/tools/go/ssa"
)

func init() {
	register(&Rule{
		Name:     "REPEATCOUNT",
		Doc:      "every count passed to strings.Repeat (which panics on a negative count) is a non-negative constant, a len(), a value with a dominating comparison that excludes negatives, or the result of a clamping function all of whose returns are provably >= 0 — the error-location renderer runs inside every JSON syntax error, so a negative padding turns a parse error into a panic",
		Configs:  "NP",
		Floor:    map[string]int{"N": 2, "P": 2},
		Controls: 1,
		Run:      runRepeatCount,
	})
	register(&Rule{
		Name:     "ASSERTFAILUSE",
		Doc:      "the value of a comma-ok type assertion `v, ok := x.(T)` is not used in a block that is only reached when ok is false: there v is the zero value of T (in a chain `if v2, ok := x.(map[int8]…); ok {…} else if v3, ok := x.(map[int16]…); ok { len(v2) }` the wrong assertion's value is empty, whatever the input)",
		Configs:  "NP",
		Floor:    map[string]int{"N": 40, "P": 40},
		Controls: 1,
		Run:      runAssertFailUse,
	})
	register(&Rule{
		Name:     "KEYNORM",
		Doc:      "for every package-level map: when the keys of its insertions are normalised by strings.ToLower (in the inserting function), the keys of its lookups are normalised the same way — a registry that lower-cases on registration and looks up the raw spelling misses every key that is not already lower-case",
		Configs:  "NP",
		Floor:    map[string]int{"N": 1, "P": 1},
		Controls: 1,
		Run:      runKeyNorm,
	})
}

// nonNegFunc: every return of a one-result int function is a constant >= 0 or a value with a lower bound >= 0.
func nonNegFunc(fn *ssa.Function) bool {
	if fn == nil || fn.Blocks == nil || fn.Signature.Results().Len() != 1 {
		return false
	}
	for _, b := range fn.Blocks {
		ret, ok := lastInstr(b).(*ssa.Return)
		if !ok {
			continue
		}
		if !nonNegValue(fn, ret.Results[0], b, 0) {
			return false
		}
	}
	return true
}

func nonNegValue(fn *ssa.Function, v ssa.Value, at *ssa.BasicBlock, d int) bool {
	if d > 4 {
		return false
	}
	if k, isC := constInt(v); isC {
		return k >= 0
	}
	if lb, has, _ := lowerBound(fn, v, at); has && lb >= 0 {
		return true
	}
	switch x := v.(type) {
	case *ssa.Call:
		if b, ok := x.Call.Value.(*ssa.Builtin); ok && (b.Name() == "len" || b.Name() == "cap") {
			return true
		}
		if cal := x.Call.StaticCallee(); cal != nil {
			return nonNegFunc(cal)
		}
	case *ssa.Phi:
		for i, e := range x.Edges {
			if !nonNegValue(fn, e, x.Block().Preds[i], d+1) {
				return false
			}
		}
		return true
	}
	return false
}

func runRepeatCount(rc *RuleCtx) {
	for _, fn := range rc.W.Funcs {
		for _, b := range fn.Blocks {
			for _, ins := range b.Instrs {
				c, ok := ins.(*ssa.Call)
				if !ok {
					continue
				}
				cal := c.Call.StaticCallee()
				if cal == nil || cal.Name() != "Repeat" || cal.Pkg == nil || cal.Pkg.Pkg.Path() != "strings" || len(c.Call.Args) != 2 {
					continue
				}
				rc.Examined++
				good := nonNegValue(fn, c.Call.Args[1], b, 0)
				rc.verdict(good, fn, "strings.Repeat count", c.Pos(), map[bool]string{
					true:  "the repeat count is provably non-negative",
					false: "the repeat count can be negative (no clamp, no dominating test): strings.Repeat panics, so the error path panics instead of returning the error"}[good], true)
			}
		}
	}
}

func runAssertFailUse(rc *RuleCtx) {
	for _, fn := range rc.W.Funcs {
		for _, b := range fn.Blocks {
			for _, ins := range b.Instrs {
				ta, ok := ins.(*ssa.TypeAssert)
				if !ok || !ta.CommaOk || ta.Referrers() == nil {
					continue
				}
				var val, okv ssa.Value
				for _, r := range *ta.Referrers() {
					if ex, ok := r.(*ssa.Extract); ok {
						if ex.Index == 0 {
							val = ex
						} else {
							okv = ex
						}
					}
				}
				if val == nil || okv == nil || val.Referrers() == nil {
					continue
				}
				rc.Examined++
				var badUse ssa.Instruction
				for _, u := range *val.Referrers() {
					if _, isPhi := u.(*ssa.Phi); isPhi {
						continue
					}
					if _, isDbg := u.(*ssa.DebugRef); isDbg {
						continue
					}
					for _, cd := range controllingIfs(u.Block()) {
						k, neg := condKey(cd.cond)
						if k == okv && (cd.val != neg) == false {
							badUse = u
						}
					}
				}
				if badUse != nil {
					rc.bad(fn, "x.("+typeShort(ta.AssertedType)+")", badUse.Pos(), "the value of this assertion is used where the assertion is known to have FAILED (its ok is false on every path to the use): it is the zero value there, whatever the input")
				} else {
					rc.ok(fn, "x.("+typeShort(ta.AssertedType)+")", ta.Pos(), "the asserted value is not used on the failed side", false)
				}
			}
		}
	}
}

// lowered: does the key value derive (within the function, through string conversions/phis) from strings.ToLower?
func loweredKey(v ssa.Value, d int) bool {
	if d > 5 || v == nil {
		return false
	}
	switch x := v.(type) {
	case *ssa.Call:
		if cal := x.Call.StaticCallee(); cal != nil && cal.Pkg != nil && cal.Pkg.Pkg.Path() == "strings" && (cal.Name() == "ToLower" || cal.Name() == "ToUpper") {
			return true
		}
	case *ssa.Phi:
		for _, e := range x.Edges {
			if loweredKey(e, d+1) {
				return true
			}
		}
	case *ssa.Convert:
		return loweredKey(x.X, d+1)
	case *ssa.ChangeType:
		return loweredKey(x.X, d+1)
	case *ssa.MakeInterface:
		return loweredKey(x.X, d+1)
	}
	return false
}

func globalMapOf(v ssa.Value) *ssa.Global {
	if u, ok := v.(*ssa.UnOp); ok && u.Op == token.MUL {
		if g, ok := u.X.(*ssa.Global); ok {
			if _, isMap := g.Type().(*types.Pointer).Elem().Underlying().(*types.Map); isMap {
				return g
			}
		}
	}
	return nil
}

func runKeyNorm(rc *RuleCtx) {
	type site struct {
		fn      *ssa.Function
		pos     token.Pos
		lowered bool
	}
	ins, look := map[*ssa.Global][]site{}, map[*ssa.Global][]site{}
	for _, fn := range rc.W.Funcs {
		for _, b := range fn.Blocks {
			for _, i := range b.Instrs {
				switch x := i.(type) {
				case *ssa.MapUpdate:
					if g := globalMapOf(x.Map); g != nil {
						ins[g] = append(ins[g], site{fn, x.Pos(), loweredKey(x.Key, 0)})
					}
				case *ssa.Lookup:
					if g := globalMapOf(x.X); g != nil {
						look[g] = append(look[g], site{fn, x.Pos(), loweredKey(x.Index, 0)})
					}
				}
			}
		}
	}
	for g, is := range ins {
		norm := false
		for _, s := range is {
			if s.lowered {
				norm = true
			}
		}
		if !norm {
			continue
		}
		for _, s := range look[g] {
			rc.Examined++
			rc.verdict(s.lowered, s.fn, "lookup in "+strings.TrimPrefix(g.String(), modPath+"/"), s.pos, map[bool]string{
				true:  "the lookup key is case-normalised like the registered keys",
				false: "the map's keys are case-normalised on insertion (strings.ToLower) but this lookup uses the raw key: every key spelled with an upper-case letter is missed"}[s.lowered], true)
		}
	}
}

func init() {
	register(&Rule{
		Name:     "RANGECOPYWRITE",
		Doc:      "in `for _, k := range xs` with k a struct VALUE, the body does not assign to a field of k unless k is also read afterwards in the body: the write goes to the per-iteration copy and is lost — a reset loop written this way (`for _, k := range keys { k.Node = Node{} }`) clears nothing",
		Configs:  "NP",
		Floor:    map[string]int{"N": 30, "P": 30},
		Controls: 1,
		Run:      runRangeCopyWrite,
	})
}

func init() {
	register(&Rule{
		Name:     "IDUPPERCONST",
		Doc:      "the methods of util.FieldIDMap — the id/number index shared by thrift struct descriptors (i16 ids) and protobuf message descriptors (numbers up to 2^29-1) — compare their id parameter only with 0 and with the table's own length, never with a positive constant: a `sanity` upper bound taken from one protocol silently drops or hides the other protocol's fields",
		Configs:  "NP",
		Floor:    map[string]int{"N": 3, "P": 3},
		Controls: 1,
		Run:      runIDUpperConst,
	})
}

func runIDUpperConst(rc *RuleCtx) {
	for _, fn := range rc.W.Funcs {
		if fn.Blocks == nil || fn.Signature.Recv() == nil {
			continue
		}
		if !strings.HasSuffix(typeShort(derefType(fn.Signature.Recv().Type())), "FieldIDMap") {
			continue
		}
		for _, b := range fn.Blocks {
			for _, ins := range b.Instrs {
				bo, ok := ins.(*ssa.BinOp)
				if !ok {
					continue
				}
				switch bo.Op {
				case token.LSS, token.LEQ, token.GTR, token.GEQ, token.EQL, token.NEQ:
				default:
					continue
				}
				var other ssa.Value
				if p := paramRoot(bo.X, 0); p != nil && isIntParam(p) {
					other = bo.Y
				} else if p := paramRoot(bo.Y, 0); p != nil && isIntParam(p) {
					other = bo.X
				} else {
					continue
				}
				rc.Examined++
				k, isC := constInt(other)
				good := !isC || k <= 0
				rc.verdict(good, fn, "id comparison", bo.Pos(), map[bool]string{
					true:  "the id is compared with 0 / the table length only",
					false: "the id is bounded by a positive constant: ids above it are silently not stored / not found although the other protocol's descriptors use them"}[good], true)
			}
		}
	}
}

func isIntParam(p *ssa.Parameter) bool {
	bt, ok := p.Type().Underlying().(*types.Basic)
	return ok && bt.Info()&types.IsInteger != 0
}

func init() {
	register(&Rule{
		Name:     "OPTPRESENCE",
		Doc:      "a proto2 optional bool read through its nil-safe getter and NEGATED (`!x.GetF()`, where x has a pointer field F) is conjoined with the presence test `x.F != nil`: the getter returns false for an ABSENT option too, so `!fo.GetPacked()` alone reads every field that merely carries some other option as `[packed = false]`",
		Configs:  "NP",
		Floor:    map[string]int{"N": 1, "P": 1},
		Controls: 1,
		Run:      runOptPresence,
	})
}

func init() {
	register(&Rule{
		Name:     "PARAMFORWARD",
		Doc:      "when a function forwards one of its bool parameters to a callee (`p.ReadString(copyString)`), every other call of that same callee in the function passes the parameter too, not a constant: `ReadString(false)` for the map keys next to `ReadString(copyString)` for the values makes the option hold for part of the result only (the keys still alias the input buffer)",
		Configs:  "NP",
		Floor:    map[string]int{"N": 20, "P": 20},
		Controls: 1,
		Run:      runParamForward,
	})
}

func runParamForward(rc *RuleCtx) {
	for _, fn := range rc.W.Funcs {
		if fn.Blocks == nil || pkgRel(fn) == "" {
			continue
		}
		type slot struct {
			callee *ssa.Function
			idx    int
		}
		fwd := map[slot]*ssa.Parameter{}
		var calls []*ssa.Call
		for _, b := range fn.Blocks {
			for _, ins := range b.Instrs {
				c, ok := ins.(*ssa.Call)
				if !ok {
					continue
				}
				cal := c.Call.StaticCallee()
				if cal == nil || cal == fn {
					continue
				}
				calls = append(calls, c)
				for i, a := range c.Call.Args {
					if p, ok := a.(*ssa.Parameter); ok {
						if bt, ok := p.Type().Underlying().(*types.Basic); ok && bt.Kind() == types.Bool {
							fwd[slot{cal, i}] = p
						}
					}
				}
			}
		}
		if len(fwd) == 0 {
			continue
		}
		for _, c := range calls {
			cal := c.Call.StaticCallee()
			for i, a := range c.Call.Args {
				p, ok := fwd[slot{cal, i}]
				if !ok {
					continue
				}
				rc.Examined++
				_, isConst := a.(*ssa.Const)
				rc.verdict(!isConst, fn, cal.Name()+" arg "+p.Name(), c.Pos(), map[bool]string{
					true:  "the option parameter is forwarded",
					false: "this call of " + cal.Name() + " passes a constant where other calls in the same function forward the parameter `" + p.Name() + "`: the option is honoured for part of the result only"}[!isConst], true)
			}
		}
	}
}

func init() {
	register(&Rule{
		Name:     "BODYNIL",
		Doc:      "every ReadAll of a net/http.Request's Body is control-dependent on a nil test of that Body: net/http leaves Request.Body nil for a request created without a body (http.NewRequest(m, url, nil), every client-side GET), and ioutil.ReadAll(nil) dereferences it — an api.raw_body / JSON mapping over such a request panics instead of seeing an empty body",
		Configs:  "NP",
		Floor:    map[string]int{"N": 2, "P": 2},
		Controls: 1,
		Run:      runBodyNil,
	})
}

func runBodyNil(rc *RuleCtx) {
	isBody := func(v ssa.Value) bool {
		for {
			switch x := v.(type) {
			case *ssa.ChangeInterface:
				v = x.X
				continue
			case *ssa.MakeInterface:
				v = x.X
				continue
			}
			break
		}
		f, ok := loadedField(v)
		return ok && f.name == "Body" && strings.HasSuffix(f.owner, "net/http.Request")
	}
	for _, fn := range rc.W.Funcs {
		for _, b := range fn.Blocks {
			for _, ins := range b.Instrs {
				c, ok := ins.(*ssa.Call)
				if !ok {
					continue
				}
				cal := c.Call.StaticCallee()
				if cal == nil || cal.Name() != "ReadAll" || cal.Pkg == nil || !(cal.Pkg.Pkg.Path() == "io" || cal.Pkg.Pkg.Path() == "io/ioutil") || len(c.Call.Args) != 1 || !isBody(c.Call.Args[0]) {
					continue
				}
				rc.Examined++
				good := false
				for _, cd := range controllingIfs(b) {
					subj, nilOnTrue, ok := nilTest(cd.cond)
					if ok && isBody(subj) && cd.val != nilOnTrue {
						good = true
					}
				}
				rc.verdict(good, fn, "ReadAll(Request.Body)", c.Pos(), map[bool]string{
					true:  "the body is read only where it is known to be non-nil",
					false: "Request.Body is read without a nil test: it is nil for a request created without a body, and ReadAll(nil) panics"}[good], true)
			}
		}
	}
}

func init() {
	register(&Rule{
		Name:     "ROOTSTRUCTNIL",
		Doc:      "in the converters (conv/*), the struct descriptor of a *thrift.TypeDescriptor PARAMETER — the root descriptor chosen by the caller, which may describe a list, map or scalar — is dereferenced (`desc.Struct().M()`, `*desc.Struct()`) only under a dominating test that it is a struct (`desc.Struct() != nil` / `desc.Type() == STRUCT`): TypeDescriptor.Struct() returns nil for every other type",
		Configs:  "NP",
		Floor:    map[string]int{"N": 3, "P": 3},
		Controls: 1,
		Run:      runRootStructNil,
	})
}

func runRootStructNil(rc *RuleCtx) {
	isStructCallOn := func(v ssa.Value) (*ssa.Parameter, bool) {
		c, ok := v.(*ssa.Call)
		if !ok {
			return nil, false
		}
		cal := c.Call.StaticCallee()
		if cal == nil || cal.Name() != "Struct" || len(c.Call.Args) != 1 || !strings.HasSuffix(typeShort(c.Call.Args[0].Type()), "thrift.TypeDescriptor") {
			return nil, false
		}
		a := c.Call.Args[0]
		if u, ok := a.(*ssa.UnOp); ok && u.Op == token.MUL {
			a = u.X // value receiver: Struct(*desc)
		}
		p, ok := a.(*ssa.Parameter)
		return p, ok
	}
	for _, fn := range rc.W.Funcs {
		if fn.Blocks == nil || !strings.HasPrefix(pkgRel(fn), "conv/") {
			continue
		}
		for _, b := range fn.Blocks {
			for _, ins := range b.Instrs {
				sc, ok := ins.(*ssa.Call)
				if !ok {
					continue
				}
				p, ok := isStructCallOn(sc)
				if !ok || sc.Referrers() == nil {
					continue
				}
				// is the result dereferenced?
				var deref ssa.Instruction
				for _, r := range *sc.Referrers() {
					switch x := r.(type) {
					case *ssa.UnOp:
						if x.Op == token.MUL {
							deref = x
						}
					case *ssa.FieldAddr:
						deref = x
					case *ssa.Call:
						if len(x.Call.Args) > 0 && x.Call.Args[0] == ssa.Value(sc) && x.Call.StaticCallee() != nil && x.Call.StaticCallee().Signature.Recv() != nil {
							deref = x
						}
					}
				}
				if deref == nil {
					continue
				}
				rc.Examined++
				good := false
				for _, cd := range controllingIfs(deref.Block()) {
					if subj, nilOnTrue, ok := nilTest(cd.cond); ok {
						if q, ok := isStructCallOn(subj); ok && q == p && cd.val != nilOnTrue {
							good = true
						}
						if subj == ssa.Value(sc) && cd.val != nilOnTrue {
							good = true
						}
					}
					k, neg := condKey(cd.cond)
					if bo, ok := k.(*ssa.BinOp); ok && (bo.Op == token.EQL || bo.Op == token.NEQ) {
						// desc.Type() == STRUCT (12)
						for _, side := range []ssa.Value{bo.X, bo.Y} {
							if tc, ok := side.(*ssa.Call); ok && tc.Call.StaticCallee() != nil && tc.Call.StaticCallee().Name() == "Type" && len(tc.Call.Args) == 1 && (tc.Call.Args[0] == ssa.Value(p) || derefOf(tc.Call.Args[0]) == ssa.Value(p)) {
								isEq := (bo.Op == token.EQL) == (cd.val != neg)
								if isEq {
									good = true
								}
							}
						}
					}
				}
				rc.verdict(good, fn, p.Name()+".Struct() deref", sc.Pos(), map[bool]string{
					true:  "the root descriptor is known to be a struct here",
					false: "`" + p.Name() + ".Struct()` is dereferenced although the caller may pass a descriptor of a list / map / scalar, for which it is nil"}[good], true)
			}
		}
	}
}

func derefOf(v ssa.Value) ssa.Value {
	if u, ok := v.(*ssa.UnOp); ok && u.Op == token.MUL {
		return u.X
	}
	return nil
}

func init() {
	register(&Rule{
		Name:    "DEFAULTLIT",
		Doc:     "thrift.makeDefaultValue accepts every literal kind the IDL grammar allows for a field type (table: an integer literal initialises the integer types AND double AND bool; a double literal double; a string literal string): the clause for parser.ConstType_ConstInt handles DOUBLE and BOOL besides IsInt() — otherwise `double d = 1` / `bool b = 1` silently get no default value (the caller drops the error)",
		Configs: "NP",
		Floor:   map[string]int{"N": 1, "P": 1},
		Run:     runDefaultLit,
	})
}

func init() {
	register(&Rule{
		Name:     "HEADERKIND",
		Doc:      "a variable's header is rewritten through `(*rt.GoString)(unsafe.Pointer(&x))` only when x is a string, and through `(*rt.GoSlice)(…)` only when x is a slice: a []byte built through the two-word string header keeps cap 0 with len > 0 — an invalid slice (`b[:n]` panics with `capacity 0`) — and a string built through the slice header reads a third word that is not there",
		Configs:  "NP",
		Floor:    map[string]int{"N": 10, "P": 10},
		Controls: 1,
		Run:      runHeaderKind,
	})
}

func runHeaderKind(rc *RuleCtx) {
	for _, fn := range rc.W.Funcs {
		for _, b := range fn.Blocks {
			for _, ins := range b.Instrs {
				cv, ok := ins.(*ssa.Convert)
				if !ok {
					continue
				}
				pt, ok := cv.Type().(*types.Pointer)
				if !ok {
					continue
				}
				hdr := typeShort(pt.Elem())
				if hdr != "internal/rt.GoString" && hdr != "internal/rt.GoSlice" {
					continue
				}
				inner, ok := cv.X.(*ssa.Convert)
				if !ok {
					continue
				}
				src, ok := inner.X.Type().(*types.Pointer)
				if !ok {
					continue
				}
				var kind string
				switch u := src.Elem().Underlying().(type) {
				case *types.Slice:
					kind = "slice"
				case *types.Basic:
					if u.Kind() == types.String {
						kind = "string"
					}
				}
				if kind == "" {
					continue
				}
				rc.Examined++
				good := (kind == "string") == (hdr == "internal/rt.GoString")
				rc.verdict(good, fn, "header of a "+kind+" as "+strings.TrimPrefix(hdr, "internal/"), cv.Pos(), map[bool]string{
					true:  "the header type matches the variable's kind",
					false: "a " + kind + " variable is rewritten through the header of the other kind (" + strings.TrimPrefix(hdr, "internal/") + "): a slice keeps cap 0 with a non-zero len (re-slicing panics), a string would read a capacity word it does not have"}[good], false)
			}
		}
	}
}

package main

import (
	"strings"

	"golang.org/x/tools/go/ssa"
)

// REFLOCAL: thriftgo records a parsed *Reference only for names that point into another file
// (`base.Service`); a name without a file prefix refers to the SAME file and GetReference()
// returns nil for it. Code that resolves a name through GetReference() therefore needs a second
// branch that looks the name up in the current tree — otherwise `service C extends P` with P in
// the same file silently loses P's functions.
func init() {
	register(&Rule{
		Name:     "REFLOCAL",
		Doc:      "for every call of a thriftgo `GetReference()` accessor whose result is tested against nil, the edge on which the reference IS nil (same-file name) reaches a lookup on a *parser.Thrift (GetService/GetStruct/GetTypedef/GetEnum/GetUnion/GetException/GetConstant) before the function returns: both the cross-file and the same-file form of a name are resolved",
		Configs:  "NP",
		Floor:    map[string]int{"N": 1, "P": 1},
		Controls: 1,
		Run:      runRefLocal,
	})
}

func runRefLocal(rc *RuleCtx) {
	isLookup := func(ins ssa.Instruction) bool {
		c, ok := ins.(ssa.CallInstruction)
		if !ok {
			return false
		}
		cal := c.Common().StaticCallee()
		if cal == nil || cal.Signature.Recv() == nil {
			return false
		}
		if !strings.HasSuffix(typeShort(cal.Signature.Recv().Type()), "parser.Thrift") {
			return false
		}
		switch cal.Name() {
		case "GetService", "GetStruct", "GetTypedef", "GetEnum", "GetUnion", "GetException", "GetConstant", "GetStructLikes":
			return true
		}
		return false
	}
	for _, fn := range rc.W.Funcs {
		for _, b := range fn.Blocks {
			for _, ins := range b.Instrs {
				c, ok := ins.(*ssa.Call)
				if !ok {
					continue
				}
				cal := c.Call.StaticCallee()
				if cal == nil || cal.Name() != "GetReference" {
					continue
				}
				// the If that tests the result
				for _, r := range *c.Referrers() {
					bo, ok := r.(*ssa.BinOp)
					if !ok {
						continue
					}
					for _, rr := range *bo.Referrers() {
						iff, ok := rr.(*ssa.If)
						if !ok {
							continue
						}
						subj, nilOnTrue, ok := nilTest(iff.Cond)
						if !ok || subj != c {
							continue
						}
						nilEdge := iff.Block().Succs[1]
						if nilOnTrue {
							nilEdge = iff.Block().Succs[0]
						}
						rc.Examined++
						// does every... no: does SOME lookup lie on the nil edge before return? (must be reachable without re-entering the non-nil region)
						nonNil := iff.Block().Succs[0]
						if nilOnTrue {
							nonNil = iff.Block().Succs[1]
						}
						region := edgeRegion(nonNil)
						seen := map[*ssa.BasicBlock]bool{}
						found := false
						var walk func(x *ssa.BasicBlock)
						walk = func(x *ssa.BasicBlock) {
							if seen[x] || region[x] || found {
								return
							}
							seen[x] = true
							for _, in := range x.Instrs {
								if isLookup(in) {
									found = true
									return
								}
							}
							for _, s := range x.Succs {
								// do not follow loop back edges out of the function's remainder
								walk(s)
							}
						}
						walk(nilEdge)
						rc.verdict(found, fn, "GetReference() == nil", c.Pos(), map[bool]string{
							true:  "a same-file name (nil reference) is looked up in the current tree",
							false: "when GetReference() is nil — the name refers to the SAME file — nothing is looked up: the referenced declaration is silently ignored"}[found], true)
					}
				}
			}
		}
	}
}

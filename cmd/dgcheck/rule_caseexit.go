package main

import (
	"go/ast"
	"go/token"
	"strings"
)

func init() {
	register(&Rule{
		Name: "CASEEXIT",
		Doc: "in the portable JSON->thrift converter (conv/j2t/impl_fallback.go, built only when !amd64 || go1.25) every case of the switch over the decoded JSON value kind terminates on all paths (return on every branch of its if/else chains): " +
			"falling out of a case re-enters the scanning loop and silently accepts a value whose JSON kind contradicts the descriptor",
		Configs: "P",
		Floor:   map[string]int{"P": 6},
		Run:     runCaseExit,
	})
}

// terminates: a conservative version of the spec's "terminating statement" for the shapes used here.
func terminates(stmts []ast.Stmt) bool {
	if len(stmts) == 0 {
		return false
	}
	switch s := stmts[len(stmts)-1].(type) {
	case *ast.ReturnStmt:
		return true
	case *ast.BranchStmt:
		return s.Tok == token.GOTO
	case *ast.ExprStmt:
		if ce, ok := s.X.(*ast.CallExpr); ok {
			if id, ok := ce.Fun.(*ast.Ident); ok && id.Name == "panic" {
				return true
			}
		}
	case *ast.BlockStmt:
		return terminates(s.List)
	case *ast.IfStmt:
		if s.Else == nil {
			return false
		}
		if !terminates(s.Body.List) {
			return false
		}
		switch e := s.Else.(type) {
		case *ast.BlockStmt:
			return terminates(e.List)
		case *ast.IfStmt:
			return terminates([]ast.Stmt{e})
		}
	case *ast.SwitchStmt:
		hasDefault := false
		for _, cc := range s.Body.List {
			cl := cc.(*ast.CaseClause)
			if cl.List == nil {
				hasDefault = true
			}
			if !terminates(cl.Body) {
				return false
			}
		}
		return hasDefault
	case *ast.ForStmt:
		return s.Cond == nil // for {} without break is terminating; approximated
	}
	return false
}

func runCaseExit(rc *RuleCtx) {
	w := rc.W
	found := false
	for _, ks := range w.kindSwitches(3) {
		if !strings.HasSuffix(ks.tagType, "types.ValueType") || !strings.HasPrefix(strings.TrimLeft(ks.fnName, "(*"), "conv/j2t") {
			continue
		}
		found = true
		for _, cl := range ks.clauses {
			var names []string
			for _, l := range cl.labels {
				names = append(names, l.name)
			}
			rc.Examined++
			good := terminates(cl.body)
			rc.add(nil, ks.fnName, "case "+strings.Join(names, ","), cl.pos, map[bool]string{true: "discharged", false: "violated"}[good],
				map[bool]string{true: "every path of the case returns", false: "a path through `case " + strings.Join(names, ",") + "` falls out of the switch back into the scanning loop: a JSON value of this kind that fits no branch is silently accepted"}[good], true)
		}
		if ks.hasDflt {
			rc.Examined++
			good := terminates(ks.dfltBody)
			rc.add(nil, ks.fnName, "default", ks.sw.Pos(), map[bool]string{true: "discharged", false: "violated"}[good], "default clause must return (structural tokens may continue the loop only through an explicit continue)", true)
		}
	}
	if !found {
		broken("CASEEXIT: no switch over types.ValueType found in the portable conv/j2t (file restructured: update the rule)")
	}
}

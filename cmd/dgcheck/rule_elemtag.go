package main

import (
	"golang.org/x/tools/go/ssa"
)

// ELEMTAG: an UNPACKED repeated field is written as one tag per element, and that tag carries the
// wire type of the ELEMENT (varint for int32, fixed64 for double, length-delimited for strings and
// messages). A writer loop that tags every element with a constant wire type is right for the one
// element kind the constant fits and writes undecodable bytes for every other.
func init() {
	register(&Rule{
		Name:     "ELEMTAG",
		Doc:      "in every loop that writes the elements of a list through WriteBaseTypeWithDesc(desc.Elem(), …), the AppendTag call of the same loop does not pass a constant wire type: the wire type derives from the element descriptor (Elem().WireType()) — a constant tags every element kind alike",
		Configs:  "NP",
		Floor:    map[string]int{"N": 1, "P": 1},
		Controls: 1,
		Run:      runElemTag,
	})
}

func derivesFromElem(v ssa.Value, d int) bool {
	if v == nil || d > 6 {
		return false
	}
	switch x := v.(type) {
	case *ssa.Call:
		if cal := x.Call.StaticCallee(); cal != nil {
			if cal.Name() == "Elem" {
				return true
			}
			if len(x.Call.Args) > 0 {
				return derivesFromElem(x.Call.Args[0], d+1)
			}
		}
	case *ssa.Phi:
		for _, e := range x.Edges {
			if derivesFromElem(e, d+1) {
				return true
			}
		}
	case *ssa.Convert:
		return derivesFromElem(x.X, d+1)
	}
	return false
}

func runElemTag(rc *RuleCtx) {
	for _, fn := range rc.W.Funcs {
		if fn.Blocks == nil {
			continue
		}
		for _, lp := range naturalLoops(fn) {
			var writes, tags []*ssa.Call
			for b := range lp.blocks {
				for _, ins := range b.Instrs {
					c, ok := ins.(*ssa.Call)
					if !ok {
						continue
					}
					cal := c.Call.StaticCallee()
					if cal == nil {
						continue
					}
					switch cal.Name() {
					case "WriteBaseTypeWithDesc":
						if len(c.Call.Args) > 1 && derivesFromElem(c.Call.Args[1], 0) {
							writes = append(writes, c)
						}
					case "AppendTag":
						tags = append(tags, c)
					}
				}
			}
			if len(writes) == 0 || len(tags) == 0 {
				continue
			}
			for _, t := range tags {
				// a tag followed by a length prefix (or by another tag) is the envelope of a length-delimited
				// entry, not an element tag: look at what comes first after it
				first := ""
				seen := map[*ssa.BasicBlock]bool{}
				var walk func(b *ssa.BasicBlock, from int)
				walk = func(b *ssa.BasicBlock, from int) {
					for k := from; k < len(b.Instrs) && first == ""; k++ {
						if c, ok := b.Instrs[k].(*ssa.Call); ok {
							if cal := c.Call.StaticCallee(); cal != nil {
								switch cal.Name() {
								case "WriteBaseTypeWithDesc":
									first = "write"
								case "AppendSpeculativeLength", "AppendTag":
									first = "envelope"
								}
							}
						}
					}
					if first != "" {
						return
					}
					for _, sc := range b.Succs {
						if lp.blocks[sc] && !seen[sc] {
							seen[sc] = true
							walk(sc, 0)
						}
					}
				}
				walk(t.Block(), indexOfInstr(t.Block(), t)+1)
				if first != "write" {
					continue
				}
				rc.Examined++
				wt := t.Call.Args[len(t.Call.Args)-1]
				_, isConst := wt.(*ssa.Const)
				good := !isConst
				rc.verdict(good, fn, "element tag", t.Pos(), map[bool]string{
					true:  "the element tag's wire type is computed (from the element descriptor)",
					false: "every element of the list is tagged with the same constant wire type although the elements are written by their own kind (WriteBaseTypeWithDesc(desc.Elem(), …)): an unpacked list of varint or fixed-width elements is undecodable"}[good], true)
			}
		}
	}
}

package main

import (
	"go/token"
	"go/types"

	"golang.org/x/tools/go/ssa"
)

// lookup functions whose documented result is nil when the element is not declared.
var lookupAnchors = []string{
	"(thrift.StructDescriptor).FieldById",
	"(thrift.StructDescriptor).FieldByKey",
	"(thrift.StructDescriptor).GetRequestBase",
	"(thrift.StructDescriptor).GetResponseBase",
	"(*proto.MessageDescriptor).ByNumber",
	"(*proto.MessageDescriptor).ByName",
	"(*proto.MessageDescriptor).ByJSONName",
	"(*proto.ServiceDescriptor).LookupMethodByName",
}

func init() {
	register(&Rule{
		Name:     "NILLOOKUP",
		Doc:      "the result of a descriptor lookup that may be nil (FieldById/FieldByKey/ByNumber/ByName/ByJSONName/LookupMethodByName/Get*Base, resolved callees) is dereferenced only in the region dominated by the non-nil edge of a nil test on it",
		Configs:  "NP",
		Floor:    map[string]int{"N": 40, "P": 38},
		Controls: 1,
		Run:      runNilLookup,
	})
}

// nonNilRegion: blocks dominated by the non-nil edge of a nil test on v (or on a phi/copy of it).
func nonNilRegion(fn *ssa.Function, v ssa.Value) map[*ssa.BasicBlock]bool {
	region := map[*ssa.BasicBlock]bool{}
	for _, b := range fn.Blocks {
		iff, ok := lastInstr(b).(*ssa.If)
		if !ok {
			continue
		}
		subj, nilOnTrue, ok := nilTest(iff.Cond)
		if !ok || subj != v {
			continue
		}
		safe := b.Succs[0]
		if nilOnTrue {
			safe = b.Succs[1]
		}
		for d := range edgeRegion(safe) {
			region[d] = true
		}
	}
	return region
}

// derefUse: does instruction r dereference pointer v?
func derefUse(r ssa.Instruction, v ssa.Value) string {
	switch u := r.(type) {
	case *ssa.UnOp:
		if u.Op == token.MUL && u.X == v {
			return "load"
		}
	case *ssa.FieldAddr:
		if u.X == v {
			return "field " + fieldNameSafe(u)
		}
	case *ssa.Store:
		if u.Addr == v {
			return "store"
		}
	case *ssa.Call:
		if cal := u.Call.StaticCallee(); cal != nil && len(u.Call.Args) > 0 && u.Call.Args[0] == v && cal.Signature.Recv() != nil {
			if _, isPtr := cal.Signature.Recv().Type().(*types.Pointer); isPtr {
				// a pointer-receiver method dereferences unless it nil-checks its receiver first
				if !methodChecksNilRecv(cal) {
					return "method " + cal.Name()
				}
			}
		}
	}
	return ""
}

func fieldNameSafe(fa *ssa.FieldAddr) string {
	if _, n, ok := fieldNameOf(fa); ok {
		return n
	}
	return "?"
}

// methodChecksNilRecv: every dereference of the receiver inside the method lies in the non-nil
// region of a receiver nil test.
func methodChecksNilRecv(fn *ssa.Function) bool {
	if fn.Blocks == nil || len(fn.Params) == 0 {
		return false
	}
	recv := fn.Params[0]
	region := nonNilRegion(fn, recv)
	for _, r := range *recv.Referrers() {
		if d := derefUse(r, recv); d != "" && !region[r.Block()] {
			return false
		}
	}
	return true
}

func runNilLookup(rc *RuleCtx) {
	w := rc.W
	lookups := map[*ssa.Function]bool{}
	for _, n := range lookupAnchors {
		lookups[w.Fn(n)] = true
	}
	for _, fn := range w.Funcs {
		for _, b := range fn.Blocks {
			for _, ins := range b.Instrs {
				call, ok := ins.(*ssa.Call)
				if !ok {
					continue
				}
				cal := call.Call.StaticCallee()
				if cal == nil || !lookups[cal] {
					continue
				}
				rc.Examined++
				region := nonNilRegion(fn, call)
				var bad []string
				var badPos token.Pos
				nderef := 0
				// follow the value through phis / stores into locals are not followed (SSA lifts locals)
				seen := map[ssa.Value]bool{}
				var visit func(v ssa.Value, reg map[*ssa.BasicBlock]bool)
				visit = func(v ssa.Value, reg map[*ssa.BasicBlock]bool) {
					if seen[v] {
						return
					}
					seen[v] = true
					for _, r := range *v.Referrers() {
						if d := derefUse(r, v); d != "" {
							nderef++
							if !reg[r.Block()] {
								bad = append(bad, d+" at "+w.relPos(instrPos(r)))
								if !badPos.IsValid() {
									badPos = instrPos(r)
								}
							}
						}
					}
				}
				visit(call, region)
				anchor := cal.Name()
				if len(bad) > 0 {
					rc.bad(fn, anchor, badPos, "result of "+cal.Name()+" (nil when the element is not declared) dereferenced without a dominating nil test: "+bad[0])
				} else {
					rc.ok(fn, anchor, call.Pos(), "", nderef > 0)
				}
			}
		}
	}
}

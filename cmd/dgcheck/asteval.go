package main

import (
	"fmt"
	"go/ast"
	"go/constant"
	"go/token"
	"go/types"

	"golang.org/x/tools/go/packages"
	"golang.org/x/tools/go/types/typeutil"
)

// predEval evaluates boolean expressions over ONE subject expression of an enumeration type,
// for a given constant value of the subject. Supported: || && ! == != parentheses, constants,
// identifiers defined by a single assignment in the same function, and calls of methods on the
// subject whose body is `return <expr>` (optionally after `if … { panic(…) }`) or a
// `switch recv { case …: return c … default: return c }`.
type predEval struct {
	w       *World
	subject string // types.ExprString of the subject expression in the current frame
	val     int64
	depth   int
	// free: assumed truth values of boolean option selectors (by types.ExprString), e.g. "self.opts.Int642String"
	free map[string]bool
}

type evalErr struct{ msg string }

func (e evalErr) Error() string { return e.msg }

func (w *World) pkgOfFunc(f *types.Func) (*packages.Package, *ast.FuncDecl) {
	if f.Pkg() == nil {
		return nil, nil
	}
	for _, p := range w.Pkgs {
		if p.Types != f.Pkg() {
			continue
		}
		for _, file := range p.Syntax {
			for _, d := range file.Decls {
				if fd, ok := d.(*ast.FuncDecl); ok && p.TypesInfo.Defs[fd.Name] == f {
					return p, fd
				}
			}
		}
	}
	return nil, nil
}

func (pe *predEval) evalBool(p *packages.Package, e ast.Expr, locals map[string]ast.Expr) (bool, error) {
	e = ast.Unparen(e)
	if tv, ok := p.TypesInfo.Types[e]; ok && tv.Value != nil && tv.Value.Kind() == constant.Bool {
		return constant.BoolVal(tv.Value), nil
	}
	switch x := e.(type) {
	case *ast.BinaryExpr:
		switch x.Op {
		case token.LOR:
			a, err := pe.evalBool(p, x.X, locals)
			if err != nil {
				return false, err
			}
			if a {
				return true, nil
			}
			return pe.evalBool(p, x.Y, locals)
		case token.LAND:
			a, err := pe.evalBool(p, x.X, locals)
			if err != nil {
				return false, err
			}
			if !a {
				return false, nil
			}
			return pe.evalBool(p, x.Y, locals)
		case token.EQL, token.NEQ:
			a, err := pe.evalInt(p, x.X)
			if err != nil {
				return false, err
			}
			b, err := pe.evalInt(p, x.Y)
			if err != nil {
				return false, err
			}
			return (a == b) == (x.Op == token.EQL), nil
		}
	case *ast.UnaryExpr:
		if x.Op == token.NOT {
			a, err := pe.evalBool(p, x.X, locals)
			return !a, err
		}
	case *ast.Ident:
		if def, ok := locals[x.Name]; ok {
			return pe.evalBool(p, def, locals)
		}
	case *ast.SelectorExpr:
		if v, ok := pe.free[types.ExprString(x)]; ok {
			return v, nil
		}
	case *ast.CallExpr:
		f, ok := typeutil.Callee(p.TypesInfo, x).(*types.Func)
		if !ok {
			break
		}
		sel, ok := ast.Unparen(x.Fun).(*ast.SelectorExpr)
		if !ok || types.ExprString(ast.Unparen(sel.X)) != pe.subject {
			break
		}
		return pe.callPredicate(f)
	}
	return false, evalErr{fmt.Sprintf("cannot evaluate %s", types.ExprString(e))}
}

func (pe *predEval) evalInt(p *packages.Package, e ast.Expr) (int64, error) {
	e = ast.Unparen(e)
	if tv, ok := p.TypesInfo.Types[e]; ok && tv.Value != nil && tv.Value.Kind() == constant.Int {
		v, _ := constant.Int64Val(tv.Value)
		return v, nil
	}
	if types.ExprString(e) == pe.subject {
		return pe.val, nil
	}
	return 0, evalErr{fmt.Sprintf("cannot evaluate %s as the subject or a constant", types.ExprString(e))}
}

// callPredicate evaluates a bool method of the subject's type for the current value.
func (pe *predEval) callPredicate(f *types.Func) (bool, error) {
	if pe.depth > 4 {
		return false, evalErr{"predicate nesting too deep"}
	}
	p, fd := pe.w.pkgOfFunc(f)
	if fd == nil || fd.Body == nil || fd.Recv == nil || len(fd.Recv.List) == 0 || len(fd.Recv.List[0].Names) == 0 {
		return false, evalErr{"no source for " + f.FullName()}
	}
	sub := &predEval{w: pe.w, subject: fd.Recv.List[0].Names[0].Name, val: pe.val, depth: pe.depth + 1}
	return sub.evalBody(p, fd.Body.List)
}

func (pe *predEval) evalBody(p *packages.Package, stmts []ast.Stmt) (bool, error) {
	for _, st := range stmts {
		switch s := st.(type) {
		case *ast.IfStmt:
			// `if cond { panic }` prefix: evaluate; if it would panic, report as error
			c, err := pe.evalBool(p, s.Cond, nil)
			if err != nil {
				return false, err
			}
			if c {
				if len(s.Body.List) == 1 {
					if r, ok := s.Body.List[0].(*ast.ReturnStmt); ok && len(r.Results) == 1 {
						return pe.evalBool(p, r.Results[0], nil)
					}
				}
				return false, evalErr{"predicate panics for this value"}
			}
		case *ast.ReturnStmt:
			if len(s.Results) != 1 {
				return false, evalErr{"unsupported return"}
			}
			return pe.evalBool(p, s.Results[0], nil)
		case *ast.SwitchStmt:
			if s.Tag == nil || types.ExprString(ast.Unparen(s.Tag)) != pe.subject {
				return false, evalErr{"unsupported switch"}
			}
			var dflt []ast.Stmt
			matched := false
			for _, cc := range s.Body.List {
				cl := cc.(*ast.CaseClause)
				if cl.List == nil {
					dflt = cl.Body
					continue
				}
				for _, l := range cl.List {
					v, err := pe.evalInt(p, l)
					if err != nil {
						return false, err
					}
					if v == pe.val {
						matched = true
						r, err := pe.evalBody(p, cl.Body)
						return r, err
					}
				}
			}
			if !matched && dflt != nil {
				return pe.evalBody(p, dflt)
			}
			// fallthrough to following statements
		default:
			return false, evalErr{"unsupported statement in predicate"}
		}
	}
	return false, evalErr{"predicate has no return for this value"}
}

// localDefs collects `name := expr` / `var name = expr` single definitions inside a function body.
func localDefs(body *ast.BlockStmt) map[string]ast.Expr {
	defs := map[string]ast.Expr{}
	count := map[string]int{}
	ast.Inspect(body, func(n ast.Node) bool {
		if as, ok := n.(*ast.AssignStmt); ok && len(as.Lhs) == len(as.Rhs) {
			for i, l := range as.Lhs {
				if id, ok := l.(*ast.Ident); ok {
					count[id.Name]++
					defs[id.Name] = as.Rhs[i]
				}
			}
		}
		return true
	})
	for n, c := range count {
		if c != 1 {
			delete(defs, n)
		}
	}
	return defs
}

// findDecl returns the package and declaration of a function by its short name.
func (w *World) findDecl(short string) (*packages.Package, *ast.FuncDecl) {
	fn := w.Fn(short)
	obj, ok := fn.Object().(*types.Func)
	if !ok {
		broken("anchor %s has no types.Func", short)
	}
	p, fd := w.pkgOfFunc(obj)
	if fd == nil {
		broken("anchor %s has no syntax", short)
	}
	return p, fd
}

package main

import (
	"go/ast"
	"go/token"
	"go/types"
	"strings"

	"golang.org/x/tools/go/ssa"
	"golang.org/x/tools/go/types/typeutil"
)

// nilReceiverSafe: every use of the method's receiver other than a comparison is control-dependent
// on the receiver being non-nil.
func nilReceiverSafe(fn *ssa.Function) bool {
	if fn.Blocks == nil || fn.Signature.Recv() == nil || len(fn.Params) == 0 {
		return false
	}
	recv := fn.Params[0]
	refs := recv.Referrers()
	if refs == nil {
		return true
	}
	for _, r := range *refs {
		if bo, ok := r.(*ssa.BinOp); ok && (bo.Op == token.EQL || bo.Op == token.NEQ) {
			continue
		}
		if _, ok := r.(*ssa.DebugRef); ok {
			continue
		}
		safe := false
		for _, cd := range controllingIfs(r.Block()) {
			if subj, nilOnTrue, ok := nilTest(cd.cond); ok && subj == ssa.Value(recv) && cd.val != nilOnTrue {
				safe = true
			}
		}
		if !safe {
			return false
		}
	}
	return true
}

// MSGDESCNIL: FieldDescriptor.Message() / TypeDescriptor.Message() is nil for every field that is
// not a message (or map). In the j2p visitor the decision "this JSON object belongs to field f" is
// taken from the JSON document (an object where the schema has an int32), so f.Message() may be nil
// whenever the document does not match the schema: calling ByJSONName/ByNumber on it panics, where
// the property demands a mismatch error.
func init() {
	register(&Rule{
		Name:     "MSGDESCNIL",
		Doc:      "in conv/j2p and proto/generic every `d.Message().M(…)` is guarded: M itself answers nil on a nil receiver (every use of the receiver is under `m != nil`), or the statement is inside an `if`/`case` that establishes that d is a message or map descriptor (a condition mentioning d together with MESSAGE / IsMap / Message() != nil), or a preceding statement of the same list returns when `d.Message() == nil` — an object-valued JSON member for a scalar field must end in a mismatch error, not a nil dereference",
		Configs:  "NP",
		Floor:    map[string]int{"N": 13, "P": 13},
		Controls: 1,
		Run:      runMsgDescNil,
	})
}

func runMsgDescNil(rc *RuleCtx) {
	for _, rel := range []string{"conv/j2p", "proto/generic"} {
		runMsgDescNilIn(rc, rel)
	}
}

func runMsgDescNilIn(rc *RuleCtx, rel string) {
	p := rc.W.Pkg(rel)
	info := p.TypesInfo
	for _, f := range p.Syntax {
		for _, d := range f.Decls {
			fd, ok := d.(*ast.FuncDecl)
			if !ok || fd.Body == nil {
				continue
			}
			name := declName(rel, fd)
			var stack []ast.Node
			ast.Inspect(fd.Body, func(n ast.Node) bool {
				if n == nil {
					stack = stack[:len(stack)-1]
					return false
				}
				stack = append(stack, n)
				outer, ok := n.(*ast.CallExpr)
				if !ok {
					return true
				}
				osel, ok := outer.Fun.(*ast.SelectorExpr)
				if !ok {
					return true
				}
				inner, ok := ast.Unparen(osel.X).(*ast.CallExpr)
				if !ok {
					return true
				}
				isel, ok := inner.Fun.(*ast.SelectorExpr)
				if !ok || isel.Sel.Name != "Message" {
					return true
				}
				if t := info.TypeOf(isel.X); t == nil || !(strings.HasSuffix(typeShort(t), "proto.FieldDescriptor") || strings.HasSuffix(typeShort(t), "proto.TypeDescriptor")) {
					return true
				}
				rc.Examined++
				dtxt := types.ExprString(ast.Unparen(isel.X))
				guarded := false
				mentions := func(e ast.Expr) bool {
					s := types.ExprString(e)
					return strings.Contains(s, dtxt) && (strings.Contains(s, "MESSAGE") || strings.Contains(s, "MessageKind") || strings.Contains(s, "IsMap()") || strings.Contains(s, "Message()"))
				}
				for i, anc := range stack {
					switch x := anc.(type) {
					case *ast.IfStmt:
						if i+1 < len(stack) && stack[i+1] == ast.Node(x.Body) && mentions(x.Cond) {
							guarded = true
						}
					case *ast.CaseClause:
						for _, l := range x.List {
							if strings.Contains(types.ExprString(l), "MESSAGE") {
								guarded = true
							}
						}
					case *ast.BlockStmt:
						// a preceding `if d.Message() == nil { return … }` in an enclosing list
						for _, st := range x.List {
							if st.Pos() >= n.Pos() {
								break
							}
							if is, ok := st.(*ast.IfStmt); ok {
								if be, ok := ast.Unparen(is.Cond).(*ast.BinaryExpr); ok && be.Op == token.EQL && ((mentions(be.X) && types.ExprString(be.Y) == "nil") || (mentions(be.Y) && types.ExprString(be.X) == "nil")) && len(is.Body.List) > 0 {
									if _, isRet := is.Body.List[len(is.Body.List)-1].(*ast.ReturnStmt); isRet {
										guarded = true
									}
								}
							}
						}
					}
				}
				detail := "the descriptor is known to be a message/map here"
				if !guarded {
					if f, ok := typeutil.Callee(info, outer).(*types.Func); ok {
						if sf := rc.W.Prog.FuncValue(f); sf != nil && nilReceiverSafe(sf) {
							guarded = true
							detail = "the lookup answers nil on a nil descriptor (every use of its receiver is under `m != nil`)"
						}
					}
				}
				rc.add(nil, name, dtxt+".Message()."+osel.Sel.Name, outer.Pos(), map[bool]string{true: "discharged", false: "violated"}[guarded],
					map[bool]string{true: detail, false: "`" + dtxt + ".Message()` is nil for a scalar field; which field an object-valued JSON member belongs to is decided by the document, so this call panics on a document that does not match the schema"}[guarded], false)
				return true
			})
		}
	}
}

package main

import (
	"go/token"
	"strings"

	"golang.org/x/tools/go/ssa"
)

func init() {
	register(&Rule{
		Name: "NOTFOUNDEXIT",
		Doc: "in the generic packages' locator code: (a) a search loop (a loop with a match-`break` exit besides its exhaustion exit) cannot fall from its exhaustion edge into a success return — it must return not-found or pass a found-flag test (φ resolved by the incoming edge); " +
			"(b) after an in-place write into the caller's bytes (size patch) no path reaches an error return — the patch must come after the last fallible step, so a failed operation leaves the value unchanged",
		Configs:  "NP",
		Floor:    map[string]int{"N": 8, "P": 8},
		Controls: 1,
		Run:      runNotFoundExit,
	})
}

// errorish: the returned value certainly denotes failure (error result non-nil, or an error Node/Value
// built by errNode/errValue/errNotFoundLast, or the errNotFound variable).
func errorishReturn(w *World, ret *ssa.Return, from *ssa.BasicBlock) bool {
	ec := w.EC()
	for _, rv := range ret.Results {
		if types_isError(rv) && ec.nonNil(rv, from, map[ssa.Value]bool{}) {
			return true
		}
		v := rv
		if ph, ok := v.(*ssa.Phi); ok && from != nil {
			for i, p := range ph.Block().Preds {
				if p == from {
					v = ph.Edges[i]
				}
			}
		}
		switch x := v.(type) {
		case *ssa.Call:
			if cal := x.Call.StaticCallee(); cal != nil {
				n := cal.Name()
				if n == "errNode" || n == "errValue" || n == "errNotFoundLast" || n == "errPathNode" || n == "wrapError" || n == "wrapValue" && false {
					return true
				}
			}
		case *ssa.UnOp:
			if g, ok := x.X.(*ssa.Global); ok && x.Op == token.MUL && strings.HasPrefix(strings.ToLower(g.Name()), "err") {
				return true
			}
		case *ssa.MakeInterface:
			if types_isError(rv) {
				return true
			}
		}
	}
	return false
}

func types_isError(v ssa.Value) bool {
	return v.Type().String() == "error"
}

func runNotFoundExit(rc *RuleCtx) {
	w := rc.W
	for _, fn := range w.Funcs {
		pr := pkgRel(fn)
		if pr != "thrift/generic" && pr != "proto/generic" || fn.Blocks == nil {
			continue
		}
		isErr := func(r *ssa.Return, from *ssa.BasicBlock) bool { return errorishReturn(w, r, from) }
		// (a) search loops — in the locator functions only (bulk readers legitimately run to exhaustion)
		isLocator := strings.HasPrefix(fn.Name(), "search") || fn.Name() == "deleteChild" || fn.Name() == "findDeleteChild" || strings.HasPrefix(fn.Name(), "zzControlLocator")
		for _, l := range naturalLoops(fn) {
			if !isLocator {
				break
			}
			// exits
			var exhaustion [][2]*ssa.BasicBlock
			matchExit := false
			for b := range l.blocks {
				for _, s := range b.Succs {
					if l.blocks[s] {
						continue
					}
					if b == l.head {
						exhaustion = append(exhaustion, [2]*ssa.BasicBlock{b, s})
						continue
					}
					if _, isPanic := lastInstr(s).(*ssa.Panic); isPanic {
						continue
					}
					// a match exit leaves the loop on an equality test (key/id comparison), possibly a
					// few jump-blocks earlier; counter bounds of compound headers (<, <=) are not matches
					if exitOnEquality(b) {
						matchExit = true
					}
				}
			}
			if !matchExit || len(exhaustion) == 0 {
				continue
			}
			// only loops that walk a cursor (contain a Skip*/Read*/Consume* call)
			walks := false
			for b := range l.blocks {
				for _, ins := range b.Instrs {
					if c := staticCallee(ins); c != nil {
						n := c.Name()
						if strings.HasPrefix(n, "Skip") || strings.HasPrefix(n, "Read") || strings.HasPrefix(n, "Consume") || strings.HasPrefix(n, "Next") {
							walks = true
						}
					}
				}
			}
			if !walks {
				continue
			}
			rc.Examined++
			var bad *mpResult
			for _, e := range exhaustion {
				if r := mustPass(mpQuery{fn: fn, w: w, armFrom: e[0], armTo: e[1], isEvent: func(ssa.Instruction) bool { return false }, isErrReturn: isErr}); r != nil {
					bad = r
				}
			}
			if bad == nil {
				rc.ok(fn, "search-loop", blockPos(l.head), "exhaustion leads to a not-found/error return or a found-flag test", true)
			} else {
				o := rc.bad(fn, "search-loop", blockPos(l.head), "search loop can be exhausted without a match and still reach the success return at "+w.relPos(instrPos(bad.at))+" (no not-found exit): the last visited element is treated as the match")
				o.Path = w.pathStrings(bad)
			}
		}
		// (b) mutate last
		for _, b := range fn.Blocks {
			for _, ins := range b.Instrs {
				c, ok := ins.(*ssa.Call)
				if !ok {
					continue
				}
				cal := c.Call.StaticCallee()
				if cal == nil || cal.Name() != "ModifyI32" {
					continue
				}
				if ok, _ := inputDerived(c.Call.Args[0], map[ssa.Value]bool{}, 0); !ok {
					continue
				}
				rc.Examined++
				// the ModifyI32 call's own error check is allowed: paths through its failure edge are cut
				own := map[*ssa.BasicBlock]bool{}
				if ev := errValueOf(c); ev != nil {
					for _, blk := range fn.Blocks {
						if iff, ok := lastInstr(blk).(*ssa.If); ok {
							if subj, nilOnTrue, ok := nilTest(iff.Cond); ok && subj == ev {
								if nilOnTrue {
									own[blk.Succs[1]] = true
								} else {
									own[blk.Succs[0]] = true
								}
							}
						}
					}
				}
				// inverted classification: we look for a path to an ERROR return after the patch
				r := mustPass(mpQuery{fn: fn, w: w, start: ins, isEvent: func(i ssa.Instruction) bool { return own[i.Block()] },
					isErrReturn: func(r *ssa.Return, from *ssa.BasicBlock) bool { return !errorishReturn(w, r, from) }})
				if r == nil {
					rc.ok(fn, "size-patch", c.Pos(), "no fallible step follows the in-place size patch", true)
				} else {
					o := rc.bad(fn, "size-patch", c.Pos(), "after the in-place size patch the function can still fail at "+w.relPos(instrPos(r.at))+": a failed operation leaves the caller's value modified")
					o.Path = w.pathStrings(r)
				}
			}
		}
	}
}

// exitOnEquality: block b (or its unique chain of predecessors without branching) ends in an If
// on an ==/!= comparison or a bool-returning call such as bytes.Equal.
func exitOnEquality(b *ssa.BasicBlock) bool {
	for i := 0; i < 4 && b != nil; i++ {
		if iff, ok := lastInstr(b).(*ssa.If); ok {
			k, _ := condKey(iff.Cond)
			switch x := k.(type) {
			case *ssa.BinOp:
				if (x.Op == token.EQL || x.Op == token.NEQ) && !isNilConst(x.X) && !isNilConst(x.Y) {
					return true
				}
				return false
			case *ssa.Call:
				return true
			}
			return false
		}
		if len(b.Preds) != 1 {
			return false
		}
		b = b.Preds[0]
	}
	return false
}

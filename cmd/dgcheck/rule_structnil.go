package main

import (
	"go/ast"
	"go/types"
	"strings"
)

// STRUCTNIL: TypeDescriptor.Struct() returns nil for every descriptor that is not a STRUCT (and
// proto's Message() for every non-MESSAGE). In the typed path walkers the kind of the PATH STEP
// (FieldId, FieldName) is chosen by the caller, the kind of the DESCRIPTOR by the schema: a field
// step applied to a list or scalar descriptor calls desc.Struct().FieldById(…) on nil and panics.
func init() {
	register(&Rule{
		Name:     "STRUCTNIL",
		Doc:      "in the path walkers of thrift/generic (functions that switch over the path-step kind), every `d.Struct().M(…)` inside a clause for PathFieldId / PathFieldName is preceded in that clause by a test that d is a STRUCT descriptor (`d.Type() != thrift.STRUCT`, `d.Struct() == nil` …): the step kind comes from the caller, not from the schema; (b) likewise every `d.Elem()` / `d.Key()` inside a clause for PathIndex / PathStrKey / PathIntKey / PathBinKey is preceded by a test of d's type",
		Configs:  "NP",
		Floor:    map[string]int{"N": 2, "P": 2},
		Controls: 1,
		Run:      runStructNil,
	})
}

func runStructNil(rc *RuleCtx) {
	for _, ks := range rc.W.kindSwitches(3) {
		if !strings.HasSuffix(ks.tagType, "generic.PathType") || !strings.HasPrefix(ks.fnName, "thrift/generic") && !strings.HasPrefix(ks.fnName, "(thrift/generic") && !strings.HasPrefix(ks.fnName, "(*thrift/generic") {
			continue
		}
		info := ks.pkg.TypesInfo
		for _, cl := range ks.clauses {
			isField := false
			for _, l := range cl.labels {
				if l.name == "PathFieldId" || l.name == "PathFieldName" {
					isField = true
				}
			}
			if !isField {
				// clause (b): element / key steps narrow the descriptor with Elem() / Key(), which are nil for a
				// descriptor that is not a container — the step kind comes from the caller here, too
				isElem := false
				for _, l := range cl.labels {
					switch l.name {
					case "PathIndex", "PathStrKey", "PathIntKey", "PathBinKey":
						isElem = true
					}
				}
				if !isElem {
					continue
				}
				tested := map[string]bool{}
				for _, st := range cl.body {
					if is, ok := st.(*ast.IfStmt); ok {
						// the test may sit in the condition or in the if's init statement (`if t := d.Type(); t != LIST …`)
						for _, part := range []ast.Node{is.Init, is.Cond} {
							if part == nil || part == ast.Node((*ast.AssignStmt)(nil)) {
								continue
							}
							ast.Inspect(part, func(n ast.Node) bool {
								if ce, ok := n.(*ast.CallExpr); ok {
									if sel, ok := ce.Fun.(*ast.SelectorExpr); ok && (sel.Sel.Name == "Type" || sel.Sel.Name == "Elem" || sel.Sel.Name == "Key") {
										tested[types.ExprString(ast.Unparen(sel.X))] = true
									}
								}
								return true
							})
						}
					}
					ast.Inspect(st, func(n ast.Node) bool {
						ce, ok := n.(*ast.CallExpr)
						if !ok {
							return true
						}
						sel, ok := ce.Fun.(*ast.SelectorExpr)
						if !ok || (sel.Sel.Name != "Elem" && sel.Sel.Name != "Key") {
							return true
						}
						if t := info.TypeOf(sel.X); t == nil || !strings.HasSuffix(typeShort(t), "thrift.TypeDescriptor") {
							return true
						}
						if _, inCond := st.(*ast.IfStmt); inCond {
							return true
						}
						rc.Examined++
						d := types.ExprString(ast.Unparen(sel.X))
						good := tested[d]
						rc.add(nil, ks.fnName, d+"."+sel.Sel.Name+"() in element step", ce.Pos(), map[bool]string{true: "discharged", false: "violated"}[good],
							map[bool]string{true: "the descriptor is tested to be a container before it is narrowed to its element / key", false: "an index / key step (chosen by the caller) narrows `" + d + "` with " + sel.Sel.Name + "() without testing that it is a LIST/SET/MAP descriptor: for a struct or scalar descriptor the result is nil and the next use panics"}[good], false)
						return true
					})
				}
				continue
			}
			// statements in order: remember descriptor variables that have been type-tested
			tested := map[string]bool{}
			for _, st := range cl.body {
				// a guard: if <d>.Type() != STRUCT {return…}  or  if <d>.Struct() == nil {return…}
				if is, ok := st.(*ast.IfStmt); ok {
					ast.Inspect(is.Cond, func(n ast.Node) bool {
						ce, ok := n.(*ast.CallExpr)
						if !ok {
							return true
						}
						if sel, ok := ce.Fun.(*ast.SelectorExpr); ok && (sel.Sel.Name == "Type" || sel.Sel.Name == "Struct") {
							tested[types.ExprString(ast.Unparen(sel.X))] = true
						}
						return true
					})
				}
				ast.Inspect(st, func(n ast.Node) bool {
					outer, ok := n.(*ast.CallExpr)
					if !ok {
						return true
					}
					osel, ok := outer.Fun.(*ast.SelectorExpr)
					if !ok {
						return true
					}
					inner, ok := ast.Unparen(osel.X).(*ast.CallExpr)
					if !ok {
						return true
					}
					isel, ok := inner.Fun.(*ast.SelectorExpr)
					if !ok || isel.Sel.Name != "Struct" {
						return true
					}
					if t := info.TypeOf(isel.X); t == nil || !strings.HasSuffix(typeShort(t), "thrift.TypeDescriptor") {
						return true
					}
					rc.Examined++
					d := types.ExprString(ast.Unparen(isel.X))
					good := tested[d]
					rc.add(nil, ks.fnName, d+".Struct()."+osel.Sel.Name, outer.Pos(), map[bool]string{true: "discharged", false: "violated"}[good],
						map[bool]string{true: "the descriptor is tested to be a STRUCT before the field step is resolved", false: "a field step (chosen by the caller) resolves `" + d + ".Struct()." + osel.Sel.Name + "` without testing that `" + d + "` is a STRUCT descriptor: for a list, map or scalar descriptor Struct() is nil and the call panics"}[good], false)
					return true
				})
			}
		}
	}
}

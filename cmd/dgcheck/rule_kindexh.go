package main

import (
	"fmt"
	"go/constant"
	"go/types"
	"sort"
	"strings"
)

func init() {
	register(&Rule{
		Name: "KINDEXH",
		Doc: "every switch over a kind/type enumeration covers the whole class its labels show it belongs to (sibling consistency, classes discovered from the labels): " +
			"thrift.Type value walkers (>=8 labels) cover the 11 value types; thrift integer switches cover I08..I64; thrift container switches with STRUCT cover LIST/SET/MAP/STRUCT; " +
			"proto.Type value walkers (>=12 labels) cover the 16 scalar kinds + MESSAGE; proto signed/unsigned integer switches cover their whole group; map-key switches cover the 12 legal proto3 key kinds; ProtoKind number switches cover all integer kinds + EnumKind",
		Configs:  "NP",
		Floor:    map[string]int{"N": 30, "P": 30},
		Controls: 1,
		Run:      runKindExh,
	})
}

func (w *World) constVals(rel string, names ...string) map[string]int64 {
	p := w.Pkg(rel)
	out := map[string]int64{}
	for _, n := range names {
		obj := p.Types.Scope().Lookup(n)
		c, ok := obj.(*types.Const)
		if !ok {
			broken("constant %s.%s does not resolve", rel, n)
		}
		v, _ := constant.Int64Val(c.Val())
		out[n] = v
	}
	return out
}

func valsOf(m map[string]int64, names ...string) map[int64]string {
	out := map[int64]string{}
	for _, n := range names {
		out[m[n]] = n
	}
	return out
}

func runKindExh(rc *RuleCtx) {
	w := rc.W
	tc := w.constVals("thrift", "BOOL", "BYTE", "I08", "I16", "I32", "I64", "DOUBLE", "STRING", "LIST", "SET", "MAP", "STRUCT", "STOP")
	tFull := valsOf(tc, "BOOL", "BYTE", "I16", "I32", "I64", "DOUBLE", "STRING", "LIST", "SET", "MAP", "STRUCT")
	tInts := valsOf(tc, "I08", "I16", "I32", "I64")
	tCont := valsOf(tc, "LIST", "SET", "MAP", "STRUCT")
	pcNames := []string{"DOUBLE", "FLOAT", "INT64", "UINT64", "INT32", "FIX64", "FIX32", "BOOL", "STRING", "MESSAGE", "BYTE", "UINT32", "ENUM", "SFIX32", "SFIX64", "SINT32", "SINT64", "LIST", "MAP", "UNKNOWN", "ERROR", "GROUP"}
	pc := w.constVals("proto", pcNames...)
	pFull := valsOf(pc, "DOUBLE", "FLOAT", "INT64", "UINT64", "INT32", "FIX64", "FIX32", "BOOL", "STRING", "MESSAGE", "BYTE", "UINT32", "ENUM", "SFIX32", "SFIX64", "SINT32", "SINT64")
	pSigned := valsOf(pc, "INT32", "INT64", "SINT32", "SINT64", "SFIX32", "SFIX64")
	pUnsigned := valsOf(pc, "UINT32", "UINT64", "FIX32", "FIX64")
	pKeys := valsOf(pc, "INT32", "INT64", "SINT32", "SINT64", "SFIX32", "SFIX64", "UINT32", "UINT64", "FIX32", "FIX64", "BOOL", "STRING")
	kc := w.constVals("proto", "DoubleKind", "FloatKind", "Int64Kind", "Uint64Kind", "Int32Kind", "Fixed64Kind", "Fixed32Kind", "BoolKind", "StringKind", "MessageKind", "BytesKind", "Uint32Kind", "EnumKind", "Sfixed32Kind", "Sfixed64Kind", "Sint32Kind", "Sint64Kind")
	kInts := valsOf(kc, "Int64Kind", "Uint64Kind", "Int32Kind", "Fixed64Kind", "Fixed32Kind", "Uint32Kind", "Sfixed32Kind", "Sfixed64Kind", "Sint32Kind", "Sint64Kind")
	kNumber := valsOf(kc, "Int64Kind", "Uint64Kind", "Int32Kind", "Fixed64Kind", "Fixed32Kind", "Uint32Kind", "Sfixed32Kind", "Sfixed64Kind", "Sint32Kind", "Sint64Kind", "EnumKind", "FloatKind", "DoubleKind")

	count := func(have map[int64]bool, class map[int64]string) int {
		n := 0
		for v := range class {
			if have[v] {
				n++
			}
		}
		return n
	}
	subset := func(have map[int64]bool, classes ...map[int64]string) bool {
		for v := range have {
			ok := false
			for _, c := range classes {
				if _, in := c[v]; in {
					ok = true
				}
			}
			if !ok {
				return false
			}
		}
		return true
	}
	for _, ks := range w.kindSwitches(3) {
		rc.Examined++
		have := map[int64]bool{}
		for _, c := range ks.clauses {
			for _, l := range c.labels {
				have[l.val] = true
			}
		}
		var class map[int64]string
		className := ""
		switch ks.tagType {
		case "thrift.Type":
			switch {
			case len(have) >= 8:
				class, className = tFull, "thrift value types"
			case count(have, tInts) >= 3 && subset(have, tInts, valsOf(tc, "STRING", "DOUBLE")):
				class, className = tInts, "thrift integer types"
			case have[tc["STRUCT"]] && count(have, tCont) >= 3 && subset(have, tCont, valsOf(tc, "STOP", "STRING")):
				class, className = tCont, "thrift container types"
			}
		case "proto.Type":
			switch {
			case have[pc["STRING"]] && have[pc["BOOL"]] && count(have, pSigned)+count(have, pUnsigned) >= 2 && subset(have, pKeys):
				class, className = pKeys, "legal proto3 map-key kinds"
			case len(have) >= 12:
				class, className = pFull, "proto scalar kinds + MESSAGE"
			case count(have, pSigned) >= 3 && count(have, pUnsigned) >= 1 && subset(have, pSigned, pUnsigned):
				class, className = map[int64]string{}, "proto integer kinds"
				for v, n := range pSigned {
					class[v] = n
				}
				for v, n := range pUnsigned {
					class[v] = n
				}
			case count(have, pSigned) >= 3 && subset(have, pSigned):
				class, className = pSigned, "proto signed integer kinds"
			case count(have, pUnsigned) >= 3 && subset(have, pUnsigned):
				class, className = pUnsigned, "proto unsigned integer kinds"
			}
		case "google.golang.org/protobuf/reflect/protoreflect.Kind", "proto.ProtoKind":
			if count(have, kInts) >= 4 {
				class, className = kNumber, "kinds a JSON number can denote (integers, enum, float, double)"
			}
		}
		if class == nil {
			continue
		}
		var missing []string
		for v, n := range class {
			if !have[v] {
				missing = append(missing, n)
			}
		}
		sort.Strings(missing)
		anchor := fmt.Sprintf("switch(%s)", ks.tagType)
		fnName := ks.fnName
		detail := className + ": all covered"
		status := "discharged"
		if len(missing) > 0 {
			status = "violated"
			detail = fmt.Sprintf("switch belongs to class `%s` but has no case for %s (falls to default%s)", className, strings.Join(missing, ", "), map[bool]string{true: "", false: " — and there is no default"}[ks.hasDflt])
		}
		rc.add(nil, fnName, anchor, ks.sw.Pos(), status, detail, true)
	}
}

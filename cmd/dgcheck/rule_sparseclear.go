package main

import (
	"go/token"
	"go/types"

	"golang.org/x/tools/go/ssa"
)

// SPARSECLEAR / CHILDRESET: the children array of a PathNode is re-used — `con := self.Next[:0]`
// at every scan, and PathNodes themselves come from a pool (NewPathNode / FreePathNode keep the
// array). Whatever a previous Load left in the array is still there. Two places make old content
// visible again:
//   - a SPARSE store (by field id, by hash) extends the slice over slots it does not write
//     (`con = con[:l+1]` with l jumping ahead) and probes slots before they are stored;
//   - a child that is NOT descended into this time keeps the `Next` of the slot's previous value.
func init() {
	register(&Rule{
		Name:     "SPARSECLEAR",
		Doc:      "(a) a function that extends a children slice up to a caller-chosen slot (`con = con[:l+1]` under `l >= len(con)`, l loaded from a *int parameter) clears the slots it exposes (a loop, or a callee with a loop, that stores the zero value into elements) whenever some caller stores a slot number into that int that is not a running count (an id, a hash slot); (b) a function that picks slots with a probe which reads slots before they are written (it calls a function that loops over `Path.t` of raw slots) calls such a clearing function as well — otherwise a re-used array (Load on the same tree, or a PathNode from the pool) shows children of the previous document: stale fields are marshalled, stale hash entries are found",
		Configs:  "NP",
		Floor:    map[string]int{"N": 2, "P": 2},
		Controls: 1,
		Run:      runSparseClear,
	})
	register(&Rule{
		Name:     "CHILDRESET",
		Doc:      "a function that hands out a slot of a children array (it returns `&con[l]`, a *PathNode) either descends into it (calls scanChildren on it) or truncates its `Next` on every path to a successful return: a slot that is only given a new Node keeps the children of the value it held before, and Marshal / Children prefer `Next` over the node's own bytes",
		Configs:  "NP",
		Floor:    map[string]int{"N": 2, "P": 2},
		Controls: 1,
		Run:      runChildReset,
	})
}

// zeroStoreInLoop: fn stores a zero constant of struct type into a slice element inside a cycle.
func zeroStoreInLoop(fn *ssa.Function) bool {
	if fn == nil {
		return false
	}
	for _, b := range fn.Blocks {
		if !inCycle(b) {
			continue
		}
		for _, ins := range b.Instrs {
			st, ok := ins.(*ssa.Store)
			if !ok {
				continue
			}
			if _, isIdx := st.Addr.(*ssa.IndexAddr); !isIdx {
				continue
			}
			if c, ok := st.Val.(*ssa.Const); ok && c.Value == nil {
				if _, isStruct := c.Type().Underlying().(*types.Struct); isStruct {
					return true
				}
			}
		}
	}
	return false
}

func clearsSlots(fn *ssa.Function) bool {
	if zeroStoreInLoop(fn) {
		return true
	}
	for _, b := range fn.Blocks {
		for _, ins := range b.Instrs {
			if c, ok := ins.(*ssa.Call); ok {
				if zeroStoreInLoop(c.Call.StaticCallee()) {
					return true
				}
			}
		}
	}
	return false
}

// probesSlots: fn loops reading a field `t` of `Path` through a pointer it advances itself (raw slots).
func probesSlots(fn *ssa.Function) bool {
	if fn == nil {
		return false
	}
	for _, b := range fn.Blocks {
		if !inCycle(b) {
			continue
		}
		for _, ins := range b.Instrs {
			if fa, ok := ins.(*ssa.FieldAddr); ok {
				if _, n, ok := fieldNameOf(fa); ok && n == "t" {
					if inner, ok := fa.X.(*ssa.FieldAddr); ok {
						if _, n2, ok := fieldNameOf(inner); ok && n2 == "Path" {
							if _, isPhi := inner.X.(*ssa.Phi); isPhi {
								return true
							}
						}
					}
				}
			}
		}
	}
	return false
}

func runSparseClear(rc *RuleCtx) {
	w := rc.W
	for _, fn := range w.Funcs {
		pr := pkgRel(fn)
		if fn.Blocks == nil || (pr != "thrift/generic" && pr != "proto/generic") {
			continue
		}
		// (b) probe users
		usesProbe := false
		var probePos token.Pos
		for _, b := range fn.Blocks {
			for _, ins := range b.Instrs {
				if c, ok := ins.(*ssa.Call); ok && probesSlots(c.Call.StaticCallee()) {
					// only probes that RETURN a slot number to store into (an int), not lookups
					if bt, ok := c.Type().Underlying().(*types.Basic); ok && bt.Info()&types.IsInteger != 0 {
						usesProbe = true
						probePos = c.Pos()
					}
				}
			}
		}
		if usesProbe {
			rc.Examined++
			good := clearsSlots(fn)
			rc.verdict(good, fn, "probe before store", probePos, map[bool]string{
				true:  "the table is emptied before the probe reads its slots",
				false: "slots are chosen by a probe that reads the slots' Path before they are written, but the re-used array is never emptied: entries of the previous document are taken for occupied slots / are found by later lookups"}[good], true)
		}
		// (a) extension up to a caller-chosen slot
		for _, b := range fn.Blocks {
			for _, ins := range b.Instrs {
				sl, ok := ins.(*ssa.Slice)
				if !ok || sl.High == nil || sl.Low != nil {
					continue
				}
				add, ok := sl.High.(*ssa.BinOp)
				if !ok || add.Op != token.ADD {
					continue
				}
				ld, ok := add.X.(*ssa.UnOp)
				if !ok || ld.Op != token.MUL {
					continue
				}
				lp, ok := ld.X.(*ssa.Parameter)
				if !ok {
					continue
				}
				// is it an extension: controlled by l >= len(x)
				ext := false
				for _, cd := range controllingIfs(b) {
					k, neg := condKey(cd.cond)
					if bo, ok := k.(*ssa.BinOp); ok && mentionsLen(bo.Y, 0) && bo.X == ssa.Value(ld) {
						if (bo.Op == token.GEQ && cd.val != neg) || (bo.Op == token.LSS && cd.val == neg) {
							ext = true
						}
					}
				}
				if !ext {
					continue
				}
				// sparse callers?
				pidx := -1
				for i, q := range fn.Params {
					if q == lp {
						pidx = i
					}
				}
				sparse := ""
				for _, cs := range callSitesOf(w, fn) {
					args := cs.(ssa.CallInstruction).Common().Args
					if pidx >= len(args) {
						continue
					}
					al, ok := args[pidx].(*ssa.Alloc)
					if !ok || al.Referrers() == nil {
						continue
					}
					for _, r := range *al.Referrers() {
						st, ok := r.(*ssa.Store)
						if !ok || st.Addr != ssa.Value(al) {
							continue
						}
						if k, isC := constInt(st.Val); isC && k == 0 {
							continue
						}
						if c, ok := st.Val.(*ssa.Call); ok {
							if bi, ok := c.Call.Value.(*ssa.Builtin); ok && bi.Name() == "len" {
								continue
							}
						}
						sparse = shortName(cs.Parent()) + " (" + w.relPos(st.Pos()) + ")"
					}
				}
				rc.Examined++
				if sparse == "" {
					rc.ok(fn, "extension to slot *"+lp.Name(), sl.Pos(), "every caller passes a running count: the slice grows by one element at a time, no slot is skipped", false)
					continue
				}
				good := clearsSlots(fn)
				rc.verdict(good, fn, "extension to slot *"+lp.Name(), sl.Pos(), map[bool]string{
					true:  "the slots exposed by the extension are emptied (a caller stores sparse slot numbers: " + sparse + ")",
					false: "the slice is extended up to a slot chosen by the caller (" + sparse + " stores an id / hash slot) and the slots skipped over are not emptied: on a re-used array they still hold children of the previous document"}[good], true)
			}
		}
	}
}

func runChildReset(rc *RuleCtx) {
	for _, fn := range rc.W.Funcs {
		pr := pkgRel(fn)
		if fn.Blocks == nil || (pr != "thrift/generic" && pr != "proto/generic") {
			continue
		}
		res := fn.Signature.Results()
		if res.Len() != 2 || typeShort(derefType(res.At(0).Type())) != pr+".PathNode" {
			continue
		}
		if _, isPtr := res.At(0).Type().(*types.Pointer); !isPtr {
			continue
		}
		// the slot: an IndexAddr that is returned
		var slot *ssa.IndexAddr
		for _, b := range fn.Blocks {
			if ret, ok := lastInstr(b).(*ssa.Return); ok {
				if ia, ok := ret.Results[0].(*ssa.IndexAddr); ok {
					slot = ia
				}
			}
		}
		if slot == nil {
			continue
		}
		covering := map[*ssa.BasicBlock]bool{}
		for _, b := range fn.Blocks {
			for _, ins := range b.Instrs {
				switch x := ins.(type) {
				case *ssa.Call:
					if cal := x.Call.StaticCallee(); cal != nil && cal.Name() == "scanChildren" && len(x.Call.Args) > 0 && x.Call.Args[0] == ssa.Value(slot) {
						covering[b] = true
					}
				case *ssa.Store:
					if fa, ok := x.Addr.(*ssa.FieldAddr); ok && fa.X == ssa.Value(slot) {
						if _, n, ok := fieldNameOf(fa); ok && n == "Next" {
							covering[b] = true
						}
					}
					if x.Addr == ssa.Value(slot) { // whole-slot store
						covering[b] = true
					}
				}
			}
		}
		rc.Examined++
		seen := map[*ssa.BasicBlock]bool{}
		var leak *ssa.Return
		var dfs func(b *ssa.BasicBlock)
		dfs = func(b *ssa.BasicBlock) {
			if seen[b] || covering[b] || leak != nil {
				return
			}
			seen[b] = true
			if ret, ok := lastInstr(b).(*ssa.Return); ok {
				if _, isNil := ret.Results[0].(*ssa.Const); !isNil {
					leak = ret
				}
				return
			}
			for _, s := range b.Succs {
				dfs(s)
			}
		}
		// start after the slot is taken
		dfs(slot.Block())
		if leak != nil {
			rc.bad(fn, "slot handed out", leak.Pos(), "a path returns the slot without descending into it and without truncating its Next: the children of the slot's previous value stay attached to the new node")
		} else {
			rc.ok(fn, "slot handed out", slot.Pos(), "every successful path either scans the slot's children or truncates its Next", true)
		}
	}
}

func init() {
	register(&Rule{
		Name:     "SETSLOT",
		Doc:      "a function of the generic packages that replaces the value of a PathNode slot with a caller-supplied Node (a store of a Node-typed parameter into the `Node` field of a *PathNode) also re-assigns that slot's `Next` in the same function: the children that were loaded for the old value are not children of the new one, and Marshal prefers `Next` over the node's own bytes — the edit would be lost; (b) a function that computes `exist` from the slot's `Path.t` and stores a Node into the slot also assigns the slot's `Path` (an empty by-id slot has none: the new field would be marshalled under id 0)",
		Configs:  "NP",
		Floor:    map[string]int{"N": 5, "P": 5},
		Controls: 1,
		Run:      runSetSlot,
	})
}

// slotSetters: methods whose receiver is a *PathNode and that store a Node-typed parameter into the
// receiver's Node field (a helper like setNode): a call of one is a slot replacement at the call site.
func slotSetters(w *World) map[*ssa.Function]bool {
	out := map[*ssa.Function]bool{}
	for _, fn := range w.Funcs {
		if fn.Blocks == nil || fn.Signature.Recv() == nil || len(fn.Params) < 2 {
			continue
		}
		for _, b := range fn.Blocks {
			for _, ins := range b.Instrs {
				st, ok := ins.(*ssa.Store)
				if !ok {
					continue
				}
				fa, ok := st.Addr.(*ssa.FieldAddr)
				if !ok || fa.X != ssa.Value(fn.Params[0]) {
					continue
				}
				if _, n, ok := fieldNameOf(fa); ok && n == "Node" {
					if p, ok := st.Val.(*ssa.Parameter); ok && p != fn.Params[0] {
						out[fn] = true
					}
				}
			}
		}
	}
	return out
}

func runSetSlot(rc *RuleCtx) {
	setters := slotSetters(rc.W)
	for _, fn := range rc.W.Funcs {
		pr := pkgRel(fn)
		if fn.Blocks == nil || (pr != "thrift/generic" && pr != "proto/generic") {
			continue
		}
		type slotInfo struct {
			nodeStore *ssa.Store
			viaSetter *ssa.Call
			nextStore bool
			pathStore bool
			readsPath bool
		}
		slots := map[ssa.Value]*slotInfo{}
		get := func(v ssa.Value) *slotInfo {
			if slots[v] == nil {
				slots[v] = &slotInfo{}
			}
			return slots[v]
		}
		for _, b := range fn.Blocks {
			for _, ins := range b.Instrs {
				switch x := ins.(type) {
				case *ssa.Store:
					fa, ok := x.Addr.(*ssa.FieldAddr)
					if !ok {
						continue
					}
					owner, n, ok := fieldNameOf(fa)
					if !ok || typeShort(owner) != pr+".PathNode" {
						continue
					}
					si := get(fa.X)
					switch n {
					case "Node":
						if _, fresh := fa.X.(*ssa.Alloc); fresh {
							continue // a PathNode under construction (composite literal): its Next is empty
						}
						if p, ok := x.Val.(*ssa.Parameter); ok && typeShort(p.Type()) == pr+".Node" {
							if fn.Signature.Recv() != nil && len(fn.Params) > 0 && p == fn.Params[0] {
								continue // the receiver itself (GetTree roots a tree at self), not a caller-supplied replacement
							}
							si.nodeStore = x
						}
					case "Next":
						si.nextStore = true
					case "Path":
						si.pathStore = true
					}
				case *ssa.Call:
					// v.setNode(val): the helper replaces Node (and is itself checked for Next)
					if cal := x.Call.StaticCallee(); cal != nil && setters[cal] && len(x.Call.Args) > 0 {
						si := get(x.Call.Args[0])
						si.viaSetter = x
						si.nextStore = true
					}
				case *ssa.FieldAddr:
					// `x.Path.t != 0` / `== 0`: the emptiness test of a slot
					if _, n, ok := fieldNameOf(x); ok && n == "t" && x.Referrers() != nil {
						if inner, ok := x.X.(*ssa.FieldAddr); ok {
							if owner, n2, ok := fieldNameOf(inner); ok && n2 == "Path" && typeShort(owner) == pr+".PathNode" {
								for _, r := range *x.Referrers() {
									ld, ok := r.(*ssa.UnOp)
									if !ok || ld.Referrers() == nil {
										continue
									}
									for _, rr := range *ld.Referrers() {
										if bo, ok := rr.(*ssa.BinOp); ok && (bo.Op == token.NEQ || bo.Op == token.EQL) {
											if k, isC := constInt(bo.Y); isC && k == 0 {
												get(inner.X).readsPath = true
											}
										}
									}
								}
							}
						}
					}
				}
			}
		}
		for _, si := range slots {
			if si.nodeStore == nil && si.viaSetter == nil {
				continue
			}
			pos := token.NoPos
			if si.nodeStore != nil {
				pos = si.nodeStore.Pos()
			} else {
				pos = si.viaSetter.Pos()
			}
			rc.Examined++
			rc.verdict(si.nextStore, fn, "slot value replaced", pos, map[bool]string{
				true:  "the slot's Next is re-assigned together with its Node",
				false: "the slot's Node is replaced by the caller's value but its Next keeps the children loaded for the OLD value: Marshal emits those, the edit is lost"}[si.nextStore], true)
			if si.readsPath {
				rc.Examined++
				rc.verdict(si.pathStore, fn, "empty slot gets its path", pos, map[bool]string{
					true:  "a slot found empty (Path.t == 0) is given its Path",
					false: "the function tests the slot's Path.t (empty slot?) and stores the value, but never assigns the slot's Path: a value stored into an empty by-id slot is marshalled under id 0 and is not found by Field(id)"}[si.pathStore], true)
			}
		}
	}
}

func init() {
	register(&Rule{
		Name:     "BARESPAN",
		Doc:      "a function of thrift/generic that gives a child slot a BARE node (a Node literal with the pointer set and length 0: NotScanParentNode does not keep the parent's bytes because its children carry them) re-assigns the slot's Node under a test that the scan produced no children (`len(v.Next) == 0`): an EMPTY container has no child to carry its header / STOP byte, and Marshal writes `raw()` — nothing — for a node without children",
		Configs:  "NP",
		Floor:    map[string]int{"N": 1, "P": 1},
		Controls: 1,
		Run:      runBareSpan,
	})
}

func runBareSpan(rc *RuleCtx) {
	for _, fn := range rc.W.Funcs {
		if fn.Blocks == nil || pkgRel(fn) != "thrift/generic" {
			continue
		}
		// bare literals: a local Node alloc whose field l is stored the constant 0 and whose field v is stored a non-constant
		bare := map[*ssa.Alloc]bool{}
		hasV := map[*ssa.Alloc]bool{}
		for _, b := range fn.Blocks {
			for _, ins := range b.Instrs {
				st, ok := ins.(*ssa.Store)
				if !ok {
					continue
				}
				fa, ok := st.Addr.(*ssa.FieldAddr)
				if !ok {
					continue
				}
				al, ok := fa.X.(*ssa.Alloc)
				if !ok || typeShort(derefType(al.Type())) != "thrift/generic.Node" {
					continue
				}
				_, n, _ := fieldNameOf(fa)
				if n == "l" {
					if k, isC := constInt(st.Val); isC && k == 0 {
						bare[al] = true
					}
				}
				if n == "v" {
					if _, isC := st.Val.(*ssa.Const); !isC {
						hasV[al] = true
					}
				}
			}
		}
		for _, b := range fn.Blocks {
			for _, ins := range b.Instrs {
				st, ok := ins.(*ssa.Store)
				if !ok {
					continue
				}
				fa, ok := st.Addr.(*ssa.FieldAddr)
				if !ok {
					continue
				}
				if owner, n, ok := fieldNameOf(fa); !ok || n != "Node" || typeShort(owner) != "thrift/generic.PathNode" {
					continue
				}
				ld, ok := st.Val.(*ssa.UnOp)
				if !ok {
					continue
				}
				al, ok := ld.X.(*ssa.Alloc)
				if !ok || !bare[al] || !hasV[al] {
					continue
				}
				slot := fa.X
				rc.Examined++
				good := false
				for _, ob := range fn.Blocks {
					for _, oi := range ob.Instrs {
						os, ok := oi.(*ssa.Store)
						if !ok || os == st {
							continue
						}
						ofa, ok := os.Addr.(*ssa.FieldAddr)
						if !ok || ofa.X != slot {
							continue
						}
						if _, n, ok := fieldNameOf(ofa); !ok || n != "Node" {
							continue
						}
						for _, cd := range controllingIfs(ob) {
							k, _ := condKey(cd.cond)
							bo, ok := k.(*ssa.BinOp)
							if !ok {
								continue
							}
							for _, side := range []ssa.Value{bo.X, bo.Y} {
								if c, ok := side.(*ssa.Call); ok {
									if bi, ok := c.Call.Value.(*ssa.Builtin); ok && bi.Name() == "len" && len(c.Call.Args) == 1 {
										if l2, ok := c.Call.Args[0].(*ssa.UnOp); ok {
											if nfa, ok := l2.X.(*ssa.FieldAddr); ok && nfa.X == slot {
												if _, n, ok := fieldNameOf(nfa); ok && n == "Next" {
													good = true
												}
											}
										}
									}
								}
							}
						}
					}
				}
				rc.verdict(good, fn, "bare parent node", st.Pos(), map[bool]string{
					true:  "a bare parent that turns out to have no children gets its own span back",
					false: "the slot is given a bare node (pointer, length 0) and nothing re-assigns it when the scan finds no children: an empty list / map / struct is marshalled as zero bytes (its header or STOP byte is lost)"}[good], true)
			}
		}
	}
}

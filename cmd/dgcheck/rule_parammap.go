package main

import (
	"go/ast"
	"go/types"

	"golang.org/x/tools/go/ssa"
)

// PARAMMAPWRITE: an exported entry point that stores into a map it received from its caller
// panics when the caller passes nil (assignment to entry in nil map — a nil map is the natural
// way to say "no includes") and otherwise edits the caller's data behind its back.
func init() {
	register(&Rule{
		Name:     "PARAMMAPWRITE",
		Doc:      "no exported function or method of a non-internal package stores an entry into a map that is one of its parameters (m[k] = v with m a parameter): a nil map — the natural `none` — panics, and a non-nil one is the caller's data; the callee must copy it first",
		Configs:  "NP",
		Floor:    map[string]int{"N": 3, "P": 3},
		Controls: 1,
		Run:      runParamMapWrite,
	})
}

func runParamMapWrite(rc *RuleCtx) {
	for _, fn := range rc.W.Funcs {
		if fn.Blocks == nil || fn.Parent() != nil {
			continue
		}
		obj, _ := fn.Object().(*types.Func)
		if obj == nil || (!ast.IsExported(obj.Name()) && !rc.W.isControlFn(fn)) {
			continue
		}
		var mapParams []*ssa.Parameter
		for _, p := range fn.Params {
			if _, ok := p.Type().Underlying().(*types.Map); ok {
				mapParams = append(mapParams, p)
			}
		}
		if len(mapParams) == 0 {
			continue
		}
		for _, p := range mapParams {
			rc.Examined++
			var upd *ssa.MapUpdate
			for _, b := range fn.Blocks {
				for _, ins := range b.Instrs {
					if mu, ok := ins.(*ssa.MapUpdate); ok && mu.Map == p && upd == nil {
						upd = mu
					}
				}
			}
			if upd != nil {
				rc.bad(fn, "map parameter "+p.Name(), upd.Pos(), "the function stores into its map parameter `"+p.Name()+"`: a nil argument panics (assignment to entry in nil map) and a non-nil one is modified for the caller")
			} else {
				rc.ok(fn, "map parameter "+p.Name(), fn.Pos(), "the map parameter is only read", false)
			}
		}
	}
}

package main

import (
	"go/token"
	"go/types"

	"golang.org/x/tools/go/ssa"
)

func init() {
	register(&Rule{
		Name: "NATIVERET",
		Doc: "after a call into internal/native that returns a status, inside a function with an error result, the status is tested and its failure edge (< 0 / != 0) reaches only returns whose error is certainly non-nil, or re-executes the native call (retry); " +
			"for unsigned trap codes (J2T_FSM, whose handler may legitimately finish with (false, nil)) the non-zero edge must hand the code to a handler call",
		Configs: "N",
		Floor:   map[string]int{"N": 2},
		Run:     runNativeRet,
	})
}

func runNativeRet(rc *RuleCtx) {
	w := rc.W
	for _, fn := range w.Funcs {
		if fn.Blocks == nil || errIndex(fn.Signature) < 0 {
			continue
		}
		for _, b := range fn.Blocks {
			for _, ins := range b.Instrs {
				c, ok := ins.(*ssa.Call)
				if !ok {
					continue
				}
				cal := c.Call.StaticCallee()
				if cal == nil || pkgRel(cal) != "internal/native" || !isIntType(c.Type()) {
					continue
				}
				// buffer-window contract: a pointer into the middle of a slice (&X[i]) handed to native code
				// must come with the REMAINING length len(X)-i, not the whole length
				for _, a := range c.Call.Args {
					ia, ok := a.(*ssa.IndexAddr)
					if !ok {
						continue
					}
					if z, isC := constInt(ia.Index); isC && z == 0 {
						continue
					}
					rc.Examined++
					okLen := false
					for _, b2 := range c.Call.Args {
						if !isIntType(b2.Type()) {
							continue
						}
						if sub, ok := b2.(*ssa.BinOp); ok && sub.Op == token.SUB && sameLoad(sub.Y, ia.Index) && isLenOf(sub.X, ia.X) {
							okLen = true
						}
					}
					rc.verdict(okLen, fn, anchorName(cal)+"-window", c.Pos(), map[bool]string{true: "length argument is len(buf)-offset of the same buffer and offset", false: "native." + cal.Name() + " receives a pointer to buf[offset] but no length argument equal to len(buf)-offset: native code would read past the end of the buffer"}[okLen], true)
				}
				rc.Examined++
				// status values: the call, and loads of cells it is stored into
				status := map[ssa.Value]bool{c: true}
				for _, r := range *c.Referrers() {
					if st, ok := r.(*ssa.Store); ok && st.Val == c {
						for _, rr := range *st.Addr.Referrers() {
							if ld, ok := rr.(*ssa.UnOp); ok && ld.Op == token.MUL {
								status[ld] = true
							}
						}
					}
				}
				tested := 0
				unsignedTrap := false
				if bt, ok := c.Type().Underlying().(*types.Basic); ok && bt.Info()&types.IsUnsigned != 0 {
					unsignedTrap = true
				}
				var bad *mpResult
				for _, blk := range fn.Blocks {
					iff, ok := lastInstr(blk).(*ssa.If)
					if !ok {
						continue
					}
					k, neg := condKey(iff.Cond)
					bo, ok := k.(*ssa.BinOp)
					if !ok || !status[bo.X] {
						continue
					}
					if z, ok := constInt(bo.Y); !ok || z != 0 {
						continue
					}
					var failOnTrue bool
					switch bo.Op {
					case token.LSS, token.NEQ:
						failOnTrue = true
					case token.GEQ, token.EQL:
						failOnTrue = false
					default:
						continue
					}
					if neg {
						failOnTrue = !failOnTrue
					}
					tested++
					fail := blk.Succs[1]
					if failOnTrue {
						fail = blk.Succs[0]
					}
					var r *mpResult
					if unsignedTrap {
						// trap code (J2T_FSM): (false, nil) from the handler legitimately means "finished";
						// require only that the failure edge hands the status to a handler call
						handled := false
						for d := range edgeRegion(fail) {
							for _, di := range d.Instrs {
								if dc, ok := di.(*ssa.Call); ok && dc != c {
									for _, a := range dc.Call.Args {
										if status[a] {
											handled = true
										}
									}
								}
							}
						}
						if !handled {
							r = &mpResult{exit: fail, at: fail.Instrs[0]}
						}
					} else {
						r = mustPass(mpQuery{fn: fn, w: w, armFrom: blk, armTo: fail,
							isEvent: func(i ssa.Instruction) bool { return i == ins }})
					}
					if r != nil && bad == nil {
						bad = r
					}
				}
				anchor := cal.Name()
				switch {
				case tested == 0:
					rc.bad(fn, anchor, c.Pos(), "status of native."+cal.Name()+" is never compared with 0")
				case bad != nil && unsignedTrap:
					rc.bad(fn, anchor, c.Pos(), "non-zero trap code of native."+cal.Name()+" is not handed to a handler on its failure edge")
				case bad != nil:
					o := rc.bad(fn, anchor, c.Pos(), "failure status of native."+cal.Name()+" can reach the success return at "+w.relPos(instrPos(bad.at))+" (error still nil)")
					o.Path = w.pathStrings(bad)
				default:
					rc.ok(fn, anchor, c.Pos(), "failure edge reaches only error returns or a retry of the native call", true)
				}
			}
		}
	}
}

func anchorName(f *ssa.Function) string { return f.Name() }

// sameLoad: a and b are the same value or loads of the same field of the same base.
func sameLoad(a, b ssa.Value) bool {
	if a == b {
		return true
	}
	la, ok1 := a.(*ssa.UnOp)
	lb, ok2 := b.(*ssa.UnOp)
	if !ok1 || !ok2 || la.Op != token.MUL || lb.Op != token.MUL {
		return false
	}
	fa, ok1 := la.X.(*ssa.FieldAddr)
	fb, ok2 := lb.X.(*ssa.FieldAddr)
	return ok1 && ok2 && fa.X == fb.X && fa.Field == fb.Field
}

func isLenOf(v, buf ssa.Value) bool {
	c, ok := v.(*ssa.Call)
	if !ok {
		return false
	}
	b, ok := c.Call.Value.(*ssa.Builtin)
	return ok && b.Name() == "len" && len(c.Call.Args) == 1 && sameLoad(c.Call.Args[0], buf)
}

package main

import (
	"fmt"
	"sort"
	"strings"

	"golang.org/x/tools/go/ssa"
)

func init() {
	register(&Rule{
		Name: "RWPAIR",
		Doc: "per protobuf kind, every reader/writer reaches exactly the wire primitives the spec prescribes (marker sets computed over the SSA call closure inside proto/binary + proto/protowire): " +
			"varint kinds {varint}, sint {varint, zigzag}, fixed32/sfixed32 {fixed32}, fixed64/sfixed64 {fixed64}, float {fixed32, f32bits}, double {fixed64, f64bits}, string/bytes {bytes}. " +
			"Instances: each case clause of every switch over proto.Type / ProtoKind, each BinaryProtocol.Read<K>/Write<K>, each protowire BinaryDecoder.Decode<K> / BinaryEncoder.Encode<K>; reader and writer of a kind therefore use inverse primitives",
		Configs:  "NP",
		Floor:    map[string]int{"N": 100, "P": 100},
		Controls: 1,
		Run:      runRWPair,
	})
}

var wireMarkers = map[string]string{
	"proto/protowire.ConsumeVarint":  "varint",
	"proto/protowire.AppendVarint":   "varint",
	"proto/protowire.ConsumeFixed32": "fixed32",
	"proto/protowire.AppendFixed32":  "fixed32",
	"proto/protowire.ConsumeFixed64": "fixed64",
	"proto/protowire.AppendFixed64":  "fixed64",
	"proto/protowire.ConsumeBytes":   "bytes",
	"proto/protowire.DecodeZigZag":   "zigzag",
	"proto/protowire.EncodeZigZag":   "zigzag",
	"math.Float32frombits":           "f32",
	"math.Float32bits":               "f32",
	"math.Float64frombits":           "f64",
	"math.Float64bits":               "f64",
}

// spec signature per kind name (proto.Type constant names and ProtoKind names, upper-cased stems)
var kindSpec = map[string]string{
	"BOOL": "varint", "ENUM": "varint", "INT32": "varint", "INT64": "varint", "UINT32": "varint", "UINT64": "varint",
	"SINT32": "varint+zigzag", "SINT64": "varint+zigzag",
	"FIX32": "fixed32", "SFIX32": "fixed32", "FIX64": "fixed64", "SFIX64": "fixed64",
	"FLOAT": "f32+fixed32", "DOUBLE": "f64+fixed64",
	"STRING": "bytes", "BYTE": "bytes",
}

// normalise the different spellings of a kind to the keys of kindSpec
func kindKey(name string) string {
	n := strings.ToUpper(strings.TrimSuffix(name, "Kind"))
	switch n {
	case "FIXED32":
		return "FIX32"
	case "FIXED64":
		return "FIX64"
	case "SFIXED32":
		return "SFIX32"
	case "SFIXED64":
		return "SFIX64"
	case "BYTES":
		return "BYTE"
	case "FLOAT32":
		return "FLOAT"
	case "FLOAT64":
		return "DOUBLE"
	}
	return n
}

func markerSetOf(w *World, roots []*ssa.Function, depth int) string {
	out := map[string]bool{}
	seen := map[*ssa.Function]bool{}
	var walk func(fn *ssa.Function, d int)
	walk = func(fn *ssa.Function, d int) {
		if fn == nil || seen[fn] || d < 0 {
			return
		}
		seen[fn] = true
		for _, b := range fn.Blocks {
			for _, ins := range b.Instrs {
				cal := staticCallee(ins)
				if cal == nil {
					continue
				}
				name := shortName(cal)
				if m, ok := wireMarkers[name]; ok {
					out[m] = true
					continue
				}
				if pr := pkgRel(cal); pr == "proto/binary" || pr == "proto/protowire" {
					// length-delimited helpers: the varint of the length prefix is part of `bytes`
					if cal.Name() == "EncodeString" || cal.Name() == "EncodeBytes" || cal.Name() == "DecodeString" || cal.Name() == "DecodeBytes" {
						out["bytes"] = true
						continue
					}
					walk(cal, d-1)
				}
			}
		}
	}
	for _, r := range roots {
		if r == nil {
			continue
		}
		name := shortName(r)
		if m, ok := wireMarkers[name]; ok {
			out[m] = true
			continue
		}
		if pr := pkgRel(r); pr == "proto/binary" || pr == "proto/protowire" {
			if r.Name() == "EncodeString" || r.Name() == "EncodeBytes" || r.Name() == "DecodeString" || r.Name() == "DecodeBytes" {
				out["bytes"] = true
				continue
			}
			walk(r, depth)
		}
	}
	if out["bytes"] {
		delete(out, "varint") // the length prefix
	}
	var ks []string
	for k := range out {
		ks = append(ks, k)
	}
	sort.Strings(ks)
	return strings.Join(ks, "+")
}

func runRWPair(rc *RuleCtx) {
	w := rc.W
	// (1) switch clauses
	for _, ks := range w.kindSwitches(3) {
		if ks.tagType != "proto.Type" && ks.tagType != "proto.ProtoKind" && !strings.HasSuffix(ks.tagType, "protoreflect.Kind") {
			continue
		}
		for _, cl := range ks.clauses {
			specs := map[string]bool{}
			var names []string
			for _, l := range cl.labels {
				if s, ok := kindSpec[kindKey(l.name)]; ok {
					specs[s] = true
					names = append(names, l.name)
				}
			}
			if len(specs) != 1 {
				continue // no scalar kind, or kinds with different encodings share the clause (raw copy / dispatch)
			}
			var want string
			for s := range specs {
				want = s
			}
			var roots []*ssa.Function
			for _, f := range calleesIn(ks.pkg, cl.body) {
				roots = append(roots, w.ssaFunc(f))
			}
			got := markerSetOf(w, roots, 4)
			rc.Examined++
			if got == "" {
				continue // clause does not touch the wire (type tests, delegation through an interface)
			}
			anchor := "case " + strings.Join(names, ",")
			// name affinity: a per-kind helper called in this clause (Read/Write/Encode/Decode/Append<Kind>)
			// must be the helper of a kind with the same encoding AND the same width as the label
			if len(cl.labels) == 1 {
				lk := kindKey(cl.labels[0].name)
				for _, f := range calleesIn(ks.pkg, cl.body) {
					if f.Pkg() == nil || (f.Pkg().Path() != joinMod("proto/binary") && f.Pkg().Path() != joinMod("proto/protowire")) {
						continue // text encoders (internal/json.EncodeInt64 …) are not wire helpers
					}
					stem := ""
					for _, pre := range []string{"Read", "Write", "Encode", "Decode", "Append", "Consume"} {
						if strings.HasPrefix(f.Name(), pre) {
							stem = strings.TrimPrefix(f.Name(), pre)
						}
					}
					ck := kindKey(stem)
					if _, isKind := kindSpec[ck]; !isKind || stem == "Byte" || stem == "Int" {
						continue
					}
					if ck == lk || kindCompatible(lk, ck) {
						continue
					}
					got = got + " via " + f.Name()
					want = want + " for " + lk
				}
			}
			if got == want {
				rc.add(nil, ks.fnName, anchor, cl.pos, "discharged", "wire primitives {"+got+"}", true)
			} else {
				rc.add(nil, ks.fnName, anchor, cl.pos, "violated", fmt.Sprintf("kind %s must use wire primitives {%s} but this clause reaches {%s}", strings.Join(names, ","), want, got), true)
			}
		}
	}
	// (2) named per-kind methods
	prefixes := []struct{ rel, recv, prefix string }{
		{"proto/binary", "BinaryProtocol", "Read"},
		{"proto/binary", "BinaryProtocol", "Write"},
		{"proto/protowire", "BinaryDecoder", "Decode"},
		{"proto/protowire", "BinaryEncoder", "Encode"},
	}
	for _, fn := range w.Funcs {
		if fn.Signature.Recv() == nil || fn.Blocks == nil || fn.Parent() != nil {
			continue
		}
		for _, p := range prefixes {
			if pkgRel(fn) != p.rel || !isNamed(fn.Signature.Recv().Type(), p.rel, p.recv) || !strings.HasPrefix(fn.Name(), p.prefix) {
				continue
			}
			stem := strings.TrimPrefix(fn.Name(), p.prefix)
			if stem == "Byte" {
				continue // a single raw byte, not the BYTES kind
			}
			want, ok := kindSpec[kindKey(stem)]
			if !ok {
				continue
			}
			rc.Examined++
			got := markerSetOf(w, []*ssa.Function{fn}, 4)
			if got == "" && kindKey(stem) == "BOOL" {
				// accepted idiom: a bool is appended as the literal one-byte varint 0/1
				rc.ok(fn, "per-kind-method", fn.Pos(), "literal one-byte varint", false)
				continue
			}
			if got == want {
				rc.ok(fn, "per-kind-method", fn.Pos(), "wire primitives {"+got+"}", true)
			} else {
				rc.bad(fn, "per-kind-method", fn.Pos(), fmt.Sprintf("%s must use wire primitives {%s} but reaches {%s}", fn.Name(), want, got))
			}
		}
	}
}

// kindCompatible: helper kind ck may serve label kind lk (same wire encoding and value width).
func kindCompatible(lk, ck string) bool {
	width := map[string]int{"BOOL": 1, "ENUM": 32, "INT32": 32, "UINT32": 32, "SINT32": 32, "FIX32": 32, "SFIX32": 32, "FLOAT": 32,
		"INT64": 64, "UINT64": 64, "SINT64": 64, "FIX64": 64, "SFIX64": 64, "DOUBLE": 64, "STRING": 0, "BYTE": 0}
	if kindSpec[lk] != kindSpec[ck] {
		return false
	}
	if lk == "ENUM" || ck == "ENUM" {
		// enums are int32 on the wire but are read/written through the 32- or 64-bit varint helpers
		return true
	}
	if (lk == "STRING" && ck == "BYTE") || (lk == "BYTE" && ck == "STRING") {
		return true
	}
	return width[lk] == width[ck]
}

package main

import (
	"go/token"
	"go/types"

	"golang.org/x/tools/go/ssa"
)

// NILABLEFIELD: a pointer field that the code itself sets to nil ("no descriptor pending") is a
// value every reader has to test. The j2p visitor picks the descriptor of the value it is about to
// encode as `d := self.globalFieldDesc; if d == nil && <inside a list> { d = <list descriptor> }`
// and then calls d.Type(): when the field is nil and the second condition is false — a JSON scalar
// at the root, a scalar where an object was expected — d is nil and the conversion panics on
// perfectly valid JSON.
func init() {
	register(&Rule{
		Name:     "NILABLEFIELD",
		Doc:      "for every pointer-typed struct field that is somewhere assigned nil: a value that is, on some incoming edge, a load of that field taken on the edge where the load was just tested to BE nil (φ of the nil load and a fallback) is not dereferenced (method call with it as pointer receiver, field access) unless a dominating test excludes nil",
		Configs:  "NP",
		Floor:    map[string]int{"N": 3, "P": 3},
		Controls: 1,
		Run:      runNilableField,
	})
}

func runNilableField(rc *RuleCtx) {
	w := rc.W
	nilable := map[sfield]bool{}
	for _, fn := range w.Funcs {
		for _, b := range fn.Blocks {
			for _, ins := range b.Instrs {
				if st, ok := ins.(*ssa.Store); ok && isNilConst(st.Val) {
					if t, n, ok := fieldNameOf(st.Addr); ok {
						if _, isPtr := st.Val.Type().Underlying().(*types.Pointer); isPtr {
							nilable[sfield{typeShort(t), n}] = true
						}
					}
				}
			}
		}
	}
	rc.Stats["nilable_pointer_fields"] = len(nilable)
	for _, fn := range w.Funcs {
		if fn.Blocks == nil {
			continue
		}
		for _, b := range fn.Blocks {
			for _, ins := range b.Instrs {
				phi, ok := ins.(*ssa.Phi)
				if !ok {
					continue
				}
				var nilLoad ssa.Value
				var f sfield
				for i, e := range phi.Edges {
					ld, ok := e.(*ssa.UnOp)
					if !ok || ld.Op != token.MUL {
						continue
					}
					k, ok := loadedField(ld)
					if !ok || !nilable[k] {
						continue
					}
					// the edge comes from a region where this load was tested nil
					pred := b.Preds[i]
					if knownNilAt(ld, pred) || knownNilViaSiblingLoad(ld, pred, k) {
						nilLoad = ld
						f = k
					}
				}
				if nilLoad == nil {
					continue
				}
				// dereferences of the φ
				for _, r := range *phi.Referrers() {
					deref := false
					switch x := r.(type) {
					case ssa.CallInstruction:
						if cal := x.Common().StaticCallee(); cal != nil && cal.Signature.Recv() != nil && len(x.Common().Args) > 0 && x.Common().Args[0] == phi {
							deref = true
						}
					case *ssa.FieldAddr:
						deref = x.X == phi
					case *ssa.UnOp:
						deref = x.Op == token.MUL && x.X == phi
					}
					if !deref {
						continue
					}
					rc.Examined++
					guarded := false
					for _, cd := range controllingIfs(r.Block()) {
						if subj, nilOnTrue, ok := nilTest(cd.cond); ok && subj == phi && nilOnTrue != cd.val {
							guarded = true
						}
					}
					rc.verdict(guarded, fn, "deref of "+f.name+" fallback", r.Pos(), map[bool]string{
						true:  "nil is excluded before the dereference",
						false: "this value is " + f.owner + "." + f.name + " on a path on which that field was just found to be nil (the fallback did not apply), and it is dereferenced without a nil test: a nil-pointer panic"}[guarded], true)
					break
				}
			}
		}
	}
}

// knownNilViaSiblingLoad: the nil test was made on ANOTHER load of the same field in the same
// function (`d := s.f; if s.f == nil && …`), with no store to the field in between (not checked:
// the visitor callbacks are straight-line here).
func knownNilViaSiblingLoad(ld *ssa.UnOp, pred *ssa.BasicBlock, f sfield) bool {
	for _, cd := range controllingIfs(pred) {
		subj, nilOnTrue, ok := nilTest(cd.cond)
		if !ok || nilOnTrue != cd.val {
			continue
		}
		if k, ok := loadedField(subj); ok && k == f {
			return true
		}
	}
	return false
}

package main

import (
	"go/token"
	"strings"

	"golang.org/x/tools/go/ssa"
)

func init() {
	register(&Rule{
		Name:     "KEYSRC",
		Doc:      "every JSON member key that the binary->JSON converters write for a field (json.EncodeString whose string argument is a FieldDescriptor accessor) uses the declared-key accessor — thrift: Alias(), protobuf: JSONName() — — the declared key (api.key / go.tag / name-case mapping, equal to the name by default) that JSON->thrift looks fields up by",
		Configs:  "NP",
		Floor:    map[string]int{"N": 3, "P": 3},
		Controls: 1,
		Run:      runKeySrc,
	})
	register(&Rule{
		Name:    "CACHEKEY",
		Doc:     "every index of the protobuf descriptor compiling cache (map type proto.compilingCache) uses a key derived from MessageDescriptor.GetFullyQualifiedName(); the simple name is not injective across scopes/packages and would make distinct message types share one descriptor",
		Configs: "NP",
		Floor:   map[string]int{"N": 2, "P": 2},
		Run:     runCacheKey,
	})
	register(&Rule{
		Name:    "THRESHAGREE",
		Doc:     "every comparison of a field id against thrift/generic.StoreChildrenByIdShreshold partitions the ids identically (same operator after normalisation): the slot chosen at load time must be the slot consulted by Field/SetField",
		Configs: "NP",
		Floor:   map[string]int{"N": 3, "P": 3},
		Run:     runThreshAgree,
	})
}

func runKeySrc(rc *RuleCtx) {
	w := rc.W
	enc := w.Fn("internal/json.EncodeString")
	for _, fn := range w.Funcs {
		pr := pkgRel(fn)
		if pr != "conv/t2j" && pr != "conv/p2j" {
			continue
		}
		for _, b := range fn.Blocks {
			for _, ins := range b.Instrs {
				c, ok := ins.(*ssa.Call)
				if !ok || c.Call.StaticCallee() != enc || len(c.Call.Args) < 2 {
					continue
				}
				src, ok := c.Call.Args[1].(*ssa.Call)
				if !ok {
					continue
				}
				cal := src.Call.StaticCallee()
				if cal == nil || cal.Signature.Recv() == nil {
					continue
				}
				wantAcc := ""
				switch {
				case isNamed(cal.Signature.Recv().Type(), "thrift", "FieldDescriptor"):
					wantAcc = "Alias"
				case isNamed(cal.Signature.Recv().Type(), "proto", "FieldDescriptor"):
					wantAcc = "JSONName"
				default:
					continue
				}
				rc.Examined++
				rc.verdict(cal.Name() == wantAcc, fn, "member-key", c.Pos(), "member key taken from FieldDescriptor."+cal.Name()+"() (declared JSON key: "+wantAcc+"())", true)
			}
		}
	}
}

func sliceHasCall(v ssa.Value, name string, seen map[ssa.Value]bool, depth int) bool {
	if v == nil || seen[v] || depth > 8 {
		return false
	}
	seen[v] = true
	switch x := v.(type) {
	case *ssa.Call:
		if cal := x.Call.StaticCallee(); cal != nil && cal.Name() == name {
			return true
		}
		if x.Call.IsInvoke() && x.Call.Method.Name() == name {
			return true
		}
	case *ssa.Convert:
		return sliceHasCall(x.X, name, seen, depth+1)
	case *ssa.ChangeType:
		return sliceHasCall(x.X, name, seen, depth+1)
	case *ssa.Phi:
		for _, e := range x.Edges {
			if sliceHasCall(e, name, seen, depth+1) {
				return true
			}
		}
	case *ssa.UnOp:
		if x.Op == token.MUL {
			// load of a local cell or field: look at the stores into it within the function
			if refs := x.X.Referrers(); refs != nil {
				for _, r := range *refs {
					if st, ok := r.(*ssa.Store); ok && st.Addr == x.X && sliceHasCall(st.Val, name, seen, depth+1) {
						return true
					}
				}
			}
			if fa, ok := x.X.(*ssa.FieldAddr); ok {
				// field of a freshly built struct: find stores to the same field of the same base
				if refs := fa.X.Referrers(); refs != nil {
					for _, r := range *refs {
						if fa2, ok := r.(*ssa.FieldAddr); ok && fa2.Field == fa.Field {
							for _, rr := range *fa2.Referrers() {
								if st, ok := rr.(*ssa.Store); ok && sliceHasCall(st.Val, name, seen, depth+1) {
									return true
								}
							}
						}
					}
				}
			}
		}
	}
	return false
}

func runCacheKey(rc *RuleCtx) {
	w := rc.W
	for _, fn := range w.Funcs {
		if pkgRel(fn) != "proto" {
			continue
		}
		for _, b := range fn.Blocks {
			for _, ins := range b.Instrs {
				var m, key ssa.Value
				switch x := ins.(type) {
				case *ssa.Lookup:
					m, key = x.X, x.Index
				case *ssa.MapUpdate:
					m, key = x.Map, x.Key
				default:
					continue
				}
				if typeShort(m.Type()) != "proto.compilingCache" {
					continue
				}
				rc.Examined++
				good := sliceHasCall(key, "GetFullyQualifiedName", map[ssa.Value]bool{}, 0)
				rc.verdict(good, fn, "compilingCache-index", ins.Pos(), map[bool]string{true: "key derives from GetFullyQualifiedName()", false: "cache key does not derive from GetFullyQualifiedName(): message types with equal simple names would share a descriptor"}[good], true)
			}
		}
	}
}

func runThreshAgree(rc *RuleCtx) {
	w := rc.W
	pkg := w.Pkg("thrift/generic")
	var thresh *ssa.Global
	var constName string
	for _, sp := range w.Prog.AllPackages() {
		if sp.Pkg != pkg.Types {
			continue
		}
		if g, ok := sp.Members["StoreChildrenByIdShreshold"].(*ssa.Global); ok {
			thresh = g
		}
		if _, ok := sp.Members["StoreChildrenByIdShreshold"].(*ssa.NamedConst); ok {
			constName = "StoreChildrenByIdShreshold"
		}
	}
	if thresh == nil && constName == "" {
		broken("THRESHAGREE: thrift/generic.StoreChildrenByIdShreshold does not resolve")
	}
	type site struct {
		fn  *ssa.Function
		pos token.Pos
		op  string // normalised: id OP threshold
	}
	var sites []site
	for _, fn := range w.Funcs {
		if pkgRel(fn) != "thrift/generic" {
			continue
		}
		for _, b := range fn.Blocks {
			for _, ins := range b.Instrs {
				bo, ok := ins.(*ssa.BinOp)
				if !ok {
					continue
				}
				isT := func(v ssa.Value) bool {
					for i := 0; i < 3; i++ {
						switch x := v.(type) {
						case *ssa.Convert:
							v = x.X
							continue
						case *ssa.UnOp:
							if g, ok := x.X.(*ssa.Global); ok && g == thresh {
								return true
							}
						}
						break
					}
					return false
				}
				var op token.Token
				switch {
				case isT(bo.Y):
					op = bo.Op
				case isT(bo.X):
					switch bo.Op {
					case token.LSS:
						op = token.GTR
					case token.LEQ:
						op = token.GEQ
					case token.GTR:
						op = token.LSS
					case token.GEQ:
						op = token.LEQ
					default:
						op = bo.Op
					}
				default:
					continue
				}
				// normalise negations: `id >= T` is the complement of `id < T` (same partition)
				norm := op.String()
				switch op {
				case token.GEQ:
					norm = "<"
				case token.GTR:
					norm = "<="
				}
				sites = append(sites, site{fn, bo.Pos(), norm})
			}
		}
	}
	count := map[string]int{}
	for _, s := range sites {
		count[s.op]++
	}
	major := ""
	for op, n := range count {
		if n > count[major] || major == "" {
			major = op
		}
	}
	// the load-time site (scanChildren / handleChild) is the reference when present
	for _, s := range sites {
		if strings.Contains(s.fn.Name(), "scanChildren") || strings.Contains(s.fn.Name(), "handleChild") {
			major = s.op
		}
	}
	for _, s := range sites {
		rc.Examined++
		rc.verdict(s.op == major, s.fn, "threshold-compare", s.pos, "field id compared with StoreChildrenByIdShreshold as `id "+s.op+" T`; the load-time partition is `id "+major+" T`", true)
	}
}

package main

import (
	"go/token"

	"golang.org/x/tools/go/ssa"
)

func init() {
	register(&Rule{
		Name: "NATIVEQUOTE",
		Doc: "contract of native.Quote: a negative status is the bitwise complement of the number of input bytes consumed so far. In every caller the failure (< 0) path must decode it with ^ret, and that count must both decrease the remaining-input length and advance the input pointer before the native call is retried " +
			"(using -ret drops one byte per buffer growth; not advancing the pointer re-quotes from the start)",
		Configs: "N",
		Floor:   map[string]int{"N": 1},
		Run:     runNativeQuote,
	})
}

func runNativeQuote(rc *RuleCtx) {
	w := rc.W
	quote := w.Fn("internal/native.Quote")
	for _, fn := range w.Funcs {
		for _, b := range fn.Blocks {
			for _, ins := range b.Instrs {
				c, ok := ins.(*ssa.Call)
				if !ok || c.Call.StaticCallee() != quote {
					continue
				}
				rc.Examined++
				// the call sits in a retry loop: sp (arg 0) and nb (arg 1) are loop phis
				sp, nb := c.Call.Args[0], c.Call.Args[1]
				var compl ssa.Value
				for _, r := range *c.Referrers() {
					if u, ok := r.(*ssa.UnOp); ok && u.Op == token.XOR {
						compl = u
					}
				}
				problems := ""
				if compl == nil {
					problems = "the negative status is not decoded with ^ret"
				} else {
					usedNb, usedSp := false, false
					var follow func(v ssa.Value, d int)
					seen := map[ssa.Value]bool{}
					follow = func(v ssa.Value, d int) {
						if d > 6 || seen[v] {
							return
						}
						seen[v] = true
						for _, r := range *v.Referrers() {
							switch x := r.(type) {
							case *ssa.BinOp:
								// nb - consumed  feeding the nb phi ; sp + consumed feeding the sp phi
								if x.Op == token.SUB && feedsPhi(x, nb) {
									usedNb = true
								}
								if x.Op == token.ADD {
									follow(x, d+1)
								}
							case *ssa.Convert:
								follow(x, d+1)
								if feedsPhi(x, sp) {
									usedSp = true
								}
							case *ssa.Call:
								if feedsPhi(x, sp) {
									usedSp = true
								}
							}
						}
					}
					follow(compl, 0)
					if !usedNb {
						problems = "the consumed count (^ret) does not decrease the remaining input length before the retry"
					} else if !usedSp {
						problems = "the consumed count (^ret) does not advance the input pointer before the retry"
					}
				}
				rc.verdict(problems == "", fn, "native.Quote-retry", c.Pos(), map[bool]string{true: "status decoded with ^ret; both input length and input pointer advance by it", false: problems}[problems == ""], true)
			}
		}
	}
}

// feedsPhi: value v (possibly through conversions) is an incoming edge of the phi `phi`.
func feedsPhi(v ssa.Value, phi ssa.Value) bool {
	ph, ok := phi.(*ssa.Phi)
	if !ok {
		return false
	}
	seen := map[ssa.Value]bool{}
	var reach func(x ssa.Value, d int) bool
	reach = func(x ssa.Value, d int) bool {
		if d > 4 || seen[x] {
			return false
		}
		seen[x] = true
		for _, e := range ph.Edges {
			if e == x {
				return true
			}
		}
		for _, r := range *x.Referrers() {
			switch y := r.(type) {
			case *ssa.Convert:
				if reach(y, d+1) {
					return true
				}
			case *ssa.ChangeType:
				if reach(y, d+1) {
					return true
				}
			}
		}
		return false
	}
	return reach(v, 0)
}

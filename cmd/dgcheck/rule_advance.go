package main

import (
	"go/token"
	"go/types"
	"strings"

	"golang.org/x/tools/go/ssa"
)

func init() {
	register(&Rule{
		Name: "ADVANCEPOS",
		Doc: "a cursor advance whose width comes straight from the thrift fixed-width table (skipn/next_nopanic/next with an argument loaded from typeSize[...]) is executed only where that width is provably > 0: " +
			"the table holds 0 for bytes that are not thrift types and -1 for variable-width types, so `>= 0` would accept invalid types as zero-width values (no progress, no error)",
		Configs:  "NP",
		Floor:    map[string]int{"N": 3, "P": 3},
		Controls: 1,
		Run:      runAdvancePos,
	})
	register(&Rule{
		Name: "VARINTNARROW",
		Doc: "a 64-bit length decoded from a protobuf varint (result of protowire.ConsumeVarint, or of a Decode*/Read* wrapper returning it unchanged) is converted to a signed int only after an UNSIGNED comparison bounded it (m > uint64(len(...))) — or the converted value is range-checked (< 0 excluded) before it is used as a length/offset: " +
			"int(m) of a value >= 2^63 is negative and defeats signed bounds checks",
		Configs:  "NP",
		Floor:    map[string]int{"N": 2, "P": 2},
		Controls: 1,
		Run:      runVarintNarrow,
	})
}

func fromTypeSizeTable(v ssa.Value, d int) bool {
	if d > 4 {
		return false
	}
	switch x := v.(type) {
	case *ssa.Convert:
		return fromTypeSizeTable(x.X, d+1)
	case *ssa.UnOp:
		if ia, ok := x.X.(*ssa.IndexAddr); ok && x.Op == token.MUL {
			if g, ok := ia.X.(*ssa.Global); ok && g.Name() == "typeSize" {
				return true
			}
		}
	case *ssa.Call:
		if cal := x.Call.StaticCallee(); cal != nil && cal.Name() == "TypeSize" && pkgRel(cal) == "thrift" {
			return true
		}
	}
	return false
}

func runAdvancePos(rc *RuleCtx) {
	w := rc.W
	for _, fn := range w.Funcs {
		for _, b := range fn.Blocks {
			for _, ins := range b.Instrs {
				c, ok := ins.(*ssa.Call)
				if !ok {
					continue
				}
				cal := c.Call.StaticCallee()
				if cal == nil || cal.Signature.Recv() == nil || !isNamed(cal.Signature.Recv().Type(), "thrift", "BinaryProtocol") {
					continue
				}
				if n := cal.Name(); n != "skipn" && n != "next_nopanic" && n != "next" {
					continue
				}
				if len(c.Call.Args) < 2 || !fromTypeSizeTable(c.Call.Args[1], 0) {
					continue
				}
				rc.Examined++
				good, why := provablyPositive(fn, c.Call.Args[1], b, 0)
				if why == "" {
					why = "no dominating comparison establishes > 0"
				}
				rc.verdict(good, fn, cal.Name()+"(typeSize)", c.Pos(), map[bool]string{true: "width proven > 0: " + why, false: "the cursor is advanced by typeSize[t] without proving it > 0 (" + why + "): a zero width for an invalid type byte is accepted as a value"}[good], true)
			}
		}
	}
}

// varintValue: v is the uint64 value result of ConsumeVarint or of a wrapper that returns it unchanged.
func varintValue(v ssa.Value, d int) bool {
	if d > 3 {
		return false
	}
	ex, ok := v.(*ssa.Extract)
	if !ok || ex.Index != 0 {
		return false
	}
	c, ok := ex.Tuple.(*ssa.Call)
	if !ok {
		return false
	}
	cal := c.Call.StaticCallee()
	if cal == nil || pkgRel(cal) != "proto/protowire" {
		return false
	}
	if b, ok := ex.Type().Underlying().(*types.Basic); !ok || b.Kind() != types.Uint64 {
		return false
	}
	return cal.Name() == "ConsumeVarint" || cal.Name() == "DecodeUint64"
}

func runVarintNarrow(rc *RuleCtx) {
	w := rc.W
	for _, fn := range w.Funcs {
		pr := pkgRel(fn)
		if pr != "proto/protowire" && pr != "proto/binary" && pr != "proto/generic" && pr != "conv/p2j" && !w.isControlFn(fn) {
			continue
		}
		for _, b := range fn.Blocks {
			for _, ins := range b.Instrs {
				cv, ok := ins.(*ssa.Convert)
				if !ok || !varintValue(cv.X, 0) {
					continue
				}
				tb, ok := cv.Type().Underlying().(*types.Basic)
				if !ok || tb.Info()&types.IsInteger == 0 || tb.Info()&types.IsUnsigned != 0 || intWidth(tb) < 64 {
					continue // narrowing to 32 bits / unsigned targets: value semantics of the field, not a length
				}
				// is the converted value used as a length/offset? (arithmetic, slicing, make, comparison with len)
				usedAsLen := false
				for _, r := range *cv.Referrers() {
					switch r.(type) {
					case *ssa.BinOp, *ssa.Slice, *ssa.MakeSlice:
						usedAsLen = true
					case *ssa.Return:
						// a reader that hands the converted value out as a length (ReadLength …); per-kind value
						// readers (DecodeInt64 …) return field values, not lengths
						if strings.Contains(fn.Name(), "Len") {
							usedAsLen = true
						}
					}
				}
				if !usedAsLen {
					continue
				}
				rc.Examined++
				// (a) unsigned bound on the source dominating this block
				good := false
				why := ""
				for _, blk := range fn.Blocks {
					iff, ok := lastInstr(blk).(*ssa.If)
					if !ok {
						continue
					}
					k, neg := condKey(iff.Cond)
					bo, ok := k.(*ssa.BinOp)
					if !ok || bo.X != cv.X && bo.Y != cv.X {
						continue
					}
					var smallOnTrue bool
					switch {
					case bo.X == cv.X && (bo.Op == token.GTR || bo.Op == token.GEQ):
						smallOnTrue = false
					case bo.X == cv.X && (bo.Op == token.LSS || bo.Op == token.LEQ):
						smallOnTrue = true
					case bo.Y == cv.X && (bo.Op == token.GTR || bo.Op == token.GEQ):
						smallOnTrue = true
					case bo.Y == cv.X && (bo.Op == token.LSS || bo.Op == token.LEQ):
						smallOnTrue = false
					default:
						continue
					}
					if neg {
						smallOnTrue = !smallOnTrue
					}
					safe := blk.Succs[1]
					if smallOnTrue {
						safe = blk.Succs[0]
					}
					if edgeRegion(safe)[b] {
						good, why = true, "unsigned comparison bounds the varint before the conversion"
					}
				}
				// (b) the converted value is returned to a caller that must check it: accept when the function's
				// doc contract is a raw reader returning (int, error) and every caller range-checks — not decidable
				// locally, so only a local `< 0` exclusion of the converted value counts
				if !good {
					for _, r := range *cv.Referrers() {
						if bo, ok := r.(*ssa.BinOp); ok && (bo.Op == token.LSS || bo.Op == token.GEQ) {
							if z, ok := constInt(bo.Y); ok && z == 0 {
								good, why = true, "converted value is tested against 0"
							}
						}
					}
				}
				rc.verdict(good, fn, "int(varint)", cv.Pos(), map[bool]string{true: why, false: "a uint64 varint is converted to a signed int and used as a length/offset without an unsigned bound or a negative check: values >= 2^63 become negative lengths"}[good], true)
			}
		}
	}
}

package main

import (
	"sort"
	"strings"

	"golang.org/x/tools/go/ssa"
)

func init() {
	register(&Rule{
		Name:    "OPTAGREE",
		Doc:     "every conv.Option that j2t.toFlags hands to the native converter as a flag bit is also read by the portable Go converter (some function of conv/j2t other than toFlags loads that Options field in the !amd64 || go1.25 build): an option honoured only by one implementation makes native and portable outputs diverge",
		Configs: "P",
		Floor:   map[string]int{"P": 9},
		Run:     runOptAgree,
	})
}

func runOptAgree(rc *RuleCtx) {
	w := rc.W
	read := map[string]string{}
	for _, fn := range w.Funcs {
		if pkgRel(fn) != "conv/j2t" || fn.Name() == "toFlags" {
			continue
		}
		for _, b := range fn.Blocks {
			for _, ins := range b.Instrs {
				var t, n string
				switch x := ins.(type) {
				case *ssa.FieldAddr:
					if tt, nn, ok := fieldNameOf(x); ok {
						t, n = typeShort(tt), nn
					}
				case *ssa.Field:
					if tt, nn, ok := fieldNameOf(x); ok {
						t, n = typeShort(tt), nn
					}
				}
				if t == "conv.Options" {
					// a read: the address is loaded, or the field value extracted
					isRead := true
					if fa, ok := ins.(*ssa.FieldAddr); ok {
						isRead = false
						for _, r := range *fa.Referrers() {
							if _, ok := r.(*ssa.UnOp); ok {
								isRead = true
							}
						}
					}
					if isRead {
						if _, seen := read[n]; !seen {
							read[n] = shortName(fn)
						}
					}
				}
			}
		}
	}
	var names []string
	for n := range read {
		names = append(names, n)
	}
	sort.Strings(names)
	rc.Notes["options_read_by_portable_j2t"] = strings.Join(names, ",")
	toFlags := w.Fn("conv/j2t.toFlags")
	for _, row := range flagTable {
		rc.Examined++
		where, ok := read[row.opt]
		rc.verdict(ok, toFlags, "option "+row.opt, toFlags.Pos(), map[bool]string{true: "read by the portable converter in " + where, false: "option " + row.opt + " reaches the native converter as " + row.flag + " but no portable conv/j2t function reads it"}[ok], true)
	}
}

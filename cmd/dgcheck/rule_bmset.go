package main

import (
	"strings"

	"golang.org/x/tools/go/ssa"
)

// BMSET: while a struct is being converted its RequiresBitmap records which fields have been
// written; afterwards HandleRequires writes (or reports) every field that is still unset. A loop
// iteration that writes a field of the struct — WriteFieldBegin, or a helper that is handed the
// field's descriptor (value mapping, http mapping) — and returns to the loop head without
// bm.Set(field) makes HandleRequires write the same field a second time.
func init() {
	register(&Rule{
		Name:     "BMSET",
		Doc:      "in every converter function that maintains a thrift.RequiresBitmap, each loop iteration that writes a field (a call of WriteFieldBegin, or of a write*/handle* helper that receives the field's *FieldDescriptor) passes RequiresBitmap.Set in that iteration (before the write on every path from the loop head, or after it on every path back to the head): an unrecorded field is written again by HandleRequires",
		Configs:  "NP",
		Floor:    map[string]int{"N": 1, "P": 2},
		Controls: 1,
		Run:      runBmSet,
	})
}

func runBmSet(rc *RuleCtx) {
	w := rc.W
	isSet := func(ins ssa.Instruction) bool {
		c, ok := ins.(ssa.CallInstruction)
		if !ok {
			return false
		}
		cal := c.Common().StaticCallee()
		return cal != nil && cal.Name() == "Set" && cal.Signature.Recv() != nil && strings.HasSuffix(typeShort(cal.Signature.Recv().Type()), "thrift.RequiresBitmap")
	}
	isFieldWrite := func(ins ssa.Instruction) bool {
		c, ok := ins.(ssa.CallInstruction)
		if !ok {
			return false
		}
		cal := c.Common().StaticCallee()
		if cal == nil {
			return false
		}
		if cal.Name() == "WriteFieldBegin" {
			return true
		}
		n := strings.ToLower(cal.Name())
		if !(strings.HasPrefix(n, "write") || strings.HasPrefix(n, "handle")) {
			return false
		}
		for _, a := range c.Common().Args {
			if strings.HasSuffix(typeShort(a.Type()), "thrift.FieldDescriptor") {
				return true
			}
		}
		return false
	}
	for _, fn := range w.Funcs {
		if fn.Blocks == nil {
			continue
		}
		hasSet := false
		for _, b := range fn.Blocks {
			for _, ins := range b.Instrs {
				if isSet(ins) {
					hasSet = true
				}
			}
		}
		if !hasSet {
			continue
		}
		loops := naturalLoops(fn)
		for _, b := range fn.Blocks {
			for i, ins := range b.Instrs {
				if !isFieldWrite(ins) {
					continue
				}
				// innermost loop containing the call
				var lp *natLoop
				for _, l := range loops {
					if l.blocks[b] && (lp == nil || len(l.blocks) < len(lp.blocks)) {
						lp = l
					}
				}
				if lp == nil {
					continue
				}
				rc.Examined++
				seen := map[*ssa.BasicBlock]bool{}
				var dfs func(x *ssa.BasicBlock, from int) bool
				dfs = func(x *ssa.BasicBlock, from int) bool {
					for k := from; k < len(x.Instrs); k++ {
						if isSet(x.Instrs[k]) {
							return false
						}
					}
					for _, s := range x.Succs {
						if s == lp.head {
							return true
						}
						if !lp.blocks[s] || seen[s] {
							continue
						}
						seen[s] = true
						if dfs(s, 0) {
							return true
						}
					}
					return false
				}
				// Set-free path from the loop head to the write (the field may have been recorded first)
				seenB := map[*ssa.BasicBlock]bool{}
				var back func(x *ssa.BasicBlock, from int) bool
				back = func(x *ssa.BasicBlock, from int) bool {
					for k := from; k >= 0; k-- {
						if isSet(x.Instrs[k]) {
							return false
						}
					}
					if x == lp.head {
						return true
					}
					for _, pr := range x.Preds {
						if !lp.blocks[pr] || seenB[pr] {
							continue
						}
						seenB[pr] = true
						if back(pr, len(pr.Instrs)-1) {
							return true
						}
					}
					return false
				}
				callee := ins.(ssa.CallInstruction).Common().StaticCallee().Name()
				if back(b, i-1) && dfs(b, i+1) {
					rc.bad(fn, "field write "+callee, ins.Pos(), "an iteration can reach this field write and return to the loop head without RequiresBitmap.Set: HandleRequires will write the field again")
				} else {
					rc.ok(fn, "field write "+callee, ins.Pos(), "the written field is recorded in the bitmap in the same iteration", true)
				}
			}
		}
	}
}

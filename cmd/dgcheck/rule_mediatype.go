package main

import (
	"go/ast"
	"go/constant"
	"go/types"
	"strings"
)

// MEDIATYPE: a Content-Type header is a media type followed by optional parameters
// (`application/json; charset=utf-8`, RFC 9110 §8.3). Code that decides how to read a request
// body by comparing the raw header value with a bare media type treats every request that carries
// a parameter as "no body": api.body sources stay empty.
func init() {
	register(&Rule{
		Name:     "MEDIATYPE",
		Doc:      "no `switch`/`==` compares the raw value of `Header.Get(\"Content-Type\")` with media-type literals (strings containing '/'): the header value must first go through mime.ParseMediaType (or an explicit cut at ';') so that parameters such as `; charset=utf-8` do not defeat the match",
		Configs:  "NP",
		Floor:    map[string]int{"N": 1, "P": 1},
		Controls: 1,
		Run:      runMediaType,
	})
}

func runMediaType(rc *RuleCtx) {
	for _, p := range rc.W.Pkgs {
		rel := strings.TrimPrefix(strings.TrimPrefix(p.PkgPath, modPath), "/")
		info := p.TypesInfo
		isCTGet := func(e ast.Expr) bool {
			ce, ok := ast.Unparen(e).(*ast.CallExpr)
			if !ok || len(ce.Args) != 1 {
				return false
			}
			sel, ok := ce.Fun.(*ast.SelectorExpr)
			if !ok || sel.Sel.Name != "Get" {
				return false
			}
			fn, _ := info.Uses[sel.Sel].(*types.Func)
			if fn == nil || fn.Pkg() == nil || fn.Pkg().Path() != "net/http" {
				return false
			}
			tv, ok := info.Types[ce.Args[0]]
			return ok && tv.Value != nil && tv.Value.Kind() == constant.String && strings.EqualFold(constant.StringVal(tv.Value), "Content-Type")
		}
		isMedia := func(e ast.Expr) bool {
			tv, ok := info.Types[e]
			return ok && tv.Value != nil && tv.Value.Kind() == constant.String && strings.Contains(constant.StringVal(tv.Value), "/")
		}
		for _, f := range p.Syntax {
			for _, d := range f.Decls {
				fd, ok := d.(*ast.FuncDecl)
				if !ok || fd.Body == nil {
					continue
				}
				name := declName(rel, fd)
				defs := localDefs(fd.Body)
				rawCT := func(e ast.Expr) bool {
					if isCTGet(e) {
						return true
					}
					if id, ok := ast.Unparen(e).(*ast.Ident); ok {
						if d, ok := defs[id.Name]; ok && isCTGet(d) {
							return true
						}
					}
					return false
				}
				// every use of the header counts as a site
				ast.Inspect(fd.Body, func(n ast.Node) bool {
					switch x := n.(type) {
					case *ast.SwitchStmt:
						if x.Tag == nil || !rawCT(x.Tag) {
							return true
						}
						rc.Examined++
						bad := false
						for _, st := range x.Body.List {
							for _, l := range st.(*ast.CaseClause).List {
								if isMedia(l) {
									bad = true
								}
							}
						}
						rc.add(nil, name, "Content-Type dispatch", x.Pos(), map[bool]string{false: "discharged", true: "violated"}[bad],
							map[bool]string{false: "not compared with media-type literals", true: "the raw Content-Type header value is switched over bare media types: `application/json; charset=utf-8` matches no case and the body is not read"}[bad], false)
					case *ast.BinaryExpr:
						if x.Op.String() != "==" && x.Op.String() != "!=" {
							return true
						}
						if (rawCT(x.X) && isMedia(x.Y)) || (rawCT(x.Y) && isMedia(x.X)) {
							rc.Examined++
							rc.add(nil, name, "Content-Type comparison", x.Pos(), "violated", "the raw Content-Type header value is compared with a bare media type: parameters such as `; charset=utf-8` defeat the match", false)
						}
					case *ast.CallExpr:
						// mime.ParseMediaType(h.Get("Content-Type")) is the accepted form: count it as a site
						if sel, ok := x.Fun.(*ast.SelectorExpr); ok && sel.Sel.Name == "ParseMediaType" && len(x.Args) == 1 && rawCT(x.Args[0]) {
							rc.Examined++
							rc.add(nil, name, "Content-Type parse", x.Pos(), "discharged", "the header goes through mime.ParseMediaType", false)
						}
					}
					return true
				})
			}
		}
	}
}

package main

import (
	"go/token"
	"go/types"
	"sort"
	"strings"

	"golang.org/x/tools/go/ssa"
)

// FIELDNEVERSET: a descriptor accessor that returns a struct field which no code ever assigns
// always returns the zero value — the descriptor cannot "expose exactly the declared" name,
// alias, flag… for that attribute, whatever the schema says.
func init() {
	register(&Rule{
		Name:     "FIELDNEVERSET",
		Doc:      "every field of a descriptor struct (packages thrift, proto, http, meta) that an exported method returns (`return recv.field`, possibly converted) is assigned somewhere in the repository (a store through a field address, incl. composite literals): a getter over a never-assigned field is a constant",
		Configs:  "NP",
		Floor:    map[string]int{"N": 40, "P": 40},
		Controls: 1,
		Run:      runFieldNeverSet,
	})
}

func runFieldNeverSet(rc *RuleCtx) {
	w := rc.W
	type fk struct{ owner, name string }
	stored := map[fk]bool{}
	for _, fn := range w.Funcs {
		for _, b := range fn.Blocks {
			for _, ins := range b.Instrs {
				if st, ok := ins.(*ssa.Store); ok {
					if t, n, ok := fieldNameOf(st.Addr); ok {
						stored[fk{typeShort(t), n}] = true
					}
				}
			}
		}
	}
	type getter struct {
		fn *ssa.Function
		k  fk
	}
	var gs []getter
	for _, fn := range w.Funcs {
		if fn.Blocks == nil || fn.Signature.Recv() == nil || fn.Parent() != nil {
			continue
		}
		pr := pkgRel(fn)
		if pr != "thrift" && pr != "proto" && pr != "http" && pr != "meta" && !w.isControlFn(fn) {
			continue
		}
		obj, _ := fn.Object().(*types.Func)
		if obj == nil || !obj.Exported() || len(fn.Blocks) != 1 {
			continue
		}
		ret, ok := lastInstr(fn.Blocks[0]).(*ssa.Return)
		if !ok || len(ret.Results) != 1 {
			continue
		}
		v := ret.Results[0]
		for {
			if c, ok := v.(*ssa.Convert); ok {
				v = c.X
				continue
			}
			if c, ok := v.(*ssa.ChangeType); ok {
				v = c.X
				continue
			}
			break
		}
		var k fk
		switch x := v.(type) {
		case *ssa.UnOp:
			if x.Op != token.MUL {
				continue
			}
			t, n, ok := fieldNameOf(x.X)
			if !ok {
				continue
			}
			k = fk{typeShort(t), n}
		case *ssa.Field:
			t, n, ok := fieldNameOf(x)
			if !ok {
				continue
			}
			k = fk{typeShort(t), n}
		default:
			continue
		}
		// the field must belong to the receiver's type
		if !strings.HasSuffix(strings.TrimPrefix(typeShort(fn.Signature.Recv().Type()), "*"), k.owner) {
			continue
		}
		gs = append(gs, getter{fn, k})
	}
	sort.Slice(gs, func(i, j int) bool { return shortName(gs[i].fn) < shortName(gs[j].fn) })
	for _, g := range gs {
		rc.Examined++
		good := stored[g.k]
		rc.verdict(good, g.fn, "getter of "+g.k.name, g.fn.Pos(), map[bool]string{
			true:  "the field is assigned somewhere",
			false: "no code ever assigns " + g.k.owner + "." + g.k.name + ": this accessor always returns the zero value"}[good], false)
	}
}

package main

import (
	"fmt"
	"go/ast"
	"go/token"
	"go/types"
	"strings"

	"golang.org/x/tools/go/ssa"
)

// ---------------------------------------------------------------------------------------------
// B64STD
// ---------------------------------------------------------------------------------------------

func init() {
	register(&Rule{
		Name:     "B64STD",
		Doc:      "binary data travels through JSON and through HTTP text in ONE alphabet: the library refers to no base64 codec other than the padded standard one (StdEncoding of encoding/base64 and of base64x). The encoders write `+` and `/`; a decoder switched to URLEncoding (or a Raw* variant) accepts every payload whose base64 happens to consist of letters, digits and `=` — all the canned test data — and rejects the others (`++++`, `/////w==`). Expected count zero; the control keeps the matcher alive",
		Configs:  "NP",
		Floor:    map[string]int{"N": 0, "P": 0},
		Controls: 1,
		Run:      runB64Std,
	})
}

func runB64Std(rc *RuleCtx) {
	// by identifier: base64x declares its codecs as constants, encoding/base64 as variables
	for _, p := range rc.W.Pkgs {
		rel := strings.TrimPrefix(strings.TrimPrefix(p.PkgPath, modPath), "/")
		if strings.HasPrefix(rel, "testdata") {
			continue
		}
		for _, f := range p.Syntax {
			for _, d := range f.Decls {
				fd, ok := d.(*ast.FuncDecl)
				if !ok || fd.Body == nil {
					continue
				}
				name := declName(rel, fd)
				ast.Inspect(fd.Body, func(n ast.Node) bool {
					id, ok := n.(*ast.Ident)
					if !ok {
						return true
					}
					obj := p.TypesInfo.Uses[id]
					if obj == nil || obj.Pkg() == nil {
						return true
					}
					pp := obj.Pkg().Path()
					if pp != "encoding/base64" && !strings.HasSuffix(pp, "/base64x") {
						return true
					}
					switch obj.Name() {
					case "URLEncoding", "RawURLEncoding", "RawStdEncoding", "JSONStdEncoding":
						rc.Examined++
						rc.add(nil, name, pp[strings.LastIndex(pp, "/")+1:]+"."+obj.Name(), id.Pos(), "violated",
							"a base64 codec other than the padded standard alphabet: what the library's own encoders (and every JSON / thrift peer) write with `+`, `/` or `=` is rejected or decoded differently", true)
					}
					return true
				})
			}
		}
	}
}

// ---------------------------------------------------------------------------------------------
// NOCAPREAD
// ---------------------------------------------------------------------------------------------

func init() {
	register(&Rule{
		Name:     "NOCAPREAD",
		Doc:      "a reader knows its input by LENGTH: in a function that moves or consults the read cursor of a protocol object (loads or stores its `Read` field), cap() of that object's `Buf` is never taken. The bytes between len and cap of the caller's slice are not part of the message — a pooled or network buffer holds an older message there — so a bound `Read + n > cap(Buf)`, a remaining count `cap(Buf) - Read` or a restore `Buf = Buf[:cap(Buf)]` makes a truncated message read on into foreign bytes without an error",
		Configs:  "NP",
		Floor:    map[string]int{"N": 85, "P": 85},
		Controls: 1,
		Run:      runNoCapRead,
	})
}

func runNoCapRead(rc *RuleCtx) {
	isProto := func(t types.Type) bool {
		if p, ok := t.(*types.Pointer); ok {
			t = p.Elem()
		}
		n, ok := t.(*types.Named)
		return ok && n.Obj().Name() == "BinaryProtocol"
	}
	for _, fn := range rc.W.Funcs {
		if fn.Blocks == nil || strings.HasPrefix(pkgRel(fn), "testdata") {
			continue
		}
		// protocol objects whose cursor this function touches
		usesRead := map[ssa.Value]bool{}
		for _, b := range fn.Blocks {
			for _, ins := range b.Instrs {
				if fa, ok := ins.(*ssa.FieldAddr); ok && isProto(fa.X.Type()) {
					if _, n, ok := fieldNameOf(fa); ok && n == "Read" {
						usesRead[fa.X] = true
					}
				}
			}
		}
		if len(usesRead) == 0 {
			continue
		}
		rc.Examined++
		var bad ssa.Instruction
		for _, b := range fn.Blocks {
			for _, ins := range b.Instrs {
				c, ok := ins.(*ssa.Call)
				if !ok {
					continue
				}
				a, ok := builtinCallOf(c, "cap")
				if !ok {
					continue
				}
				u, ok := a.(*ssa.UnOp)
				if !ok || u.Op != token.MUL {
					continue
				}
				fa, ok := u.X.(*ssa.FieldAddr)
				if !ok || !usesRead[fa.X] {
					continue
				}
				if _, n, ok := fieldNameOf(fa); ok && n == "Buf" {
					bad = ins
				}
			}
		}
		good := bad == nil
		pos := fn.Pos()
		if bad != nil {
			pos = bad.Pos()
		}
		rc.verdict(good, fn, "reader vs cap(Buf)", pos, map[bool]string{
			true:  "the reader consults only len(Buf)",
			false: "this function moves the read cursor of a protocol and takes cap() of the same protocol's Buf: bytes beyond len are not input — a truncated message in a prefix of a larger array is read past its end without an error"}[good], !good)
	}
}

// ---------------------------------------------------------------------------------------------
// MULTICASEADDR
// ---------------------------------------------------------------------------------------------

func init() {
	register(&Rule{
		Name:     "MULTICASEADDR",
		Doc:      "in a type switch `switch x := v.(type)`, a clause that takes the address of x lists exactly ONE type: in a clause with several types x keeps the interface type of v, so `&x` is a *interface{} and not the pointer to the concrete value the single-type clauses produce. InterfaceMap boxes unhashable map keys as pointers (`*map[FieldID]interface{}`, `*[]byte`); folding two such arms into one changes the key's Go type for both",
		Configs:  "NP",
		Floor:    map[string]int{"N": 10, "P": 10},
		Controls: 1,
		Run:      runMultiCaseAddr,
	})
}

func runMultiCaseAddr(rc *RuleCtx) {
	for _, p := range rc.W.Pkgs {
		rel := strings.TrimPrefix(strings.TrimPrefix(p.PkgPath, modPath), "/")
		if strings.HasPrefix(rel, "testdata") {
			continue
		}
		for _, f := range p.Syntax {
			for _, d := range f.Decls {
				fd, ok := d.(*ast.FuncDecl)
				if !ok || fd.Body == nil {
					continue
				}
				name := declName(rel, fd)
				ast.Inspect(fd.Body, func(n ast.Node) bool {
					ts, ok := n.(*ast.TypeSwitchStmt)
					if !ok {
						return true
					}
					as, ok := ts.Assign.(*ast.AssignStmt)
					if !ok || len(as.Lhs) != 1 {
						return true
					}
					id, ok := as.Lhs[0].(*ast.Ident)
					if !ok {
						return true
					}
					for _, st := range ts.Body.List {
						cc := st.(*ast.CaseClause)
						takes := false
						for _, bs := range cc.Body {
							ast.Inspect(bs, func(m ast.Node) bool {
								if u, ok := m.(*ast.UnaryExpr); ok && u.Op == token.AND {
									if x, ok := u.X.(*ast.Ident); ok && x.Name == id.Name {
										if obj := p.TypesInfo.Uses[x]; obj != nil && p.TypesInfo.Implicits[cc] == obj {
											takes = true
										}
									}
								}
								return true
							})
						}
						if !takes {
							continue
						}
						rc.Examined++
						good := len(cc.List) == 1
						rc.add(nil, name, "&"+id.Name+" in a type-switch clause", cc.Pos(), map[bool]string{true: "discharged", false: "violated"}[good],
							map[bool]string{true: "the clause has one type: &" + id.Name + " points to the concrete value", false: fmt.Sprintf("the clause lists %d types, so %s has the switch operand's interface type there: &%s is a pointer to an interface, not to the concrete value as in the single-type clauses", len(cc.List), id.Name, id.Name)}[good], !good)
					}
					return true
				})
			}
		}
	}
}

// ---------------------------------------------------------------------------------------------
// RECYCLEFOREIGN
// ---------------------------------------------------------------------------------------------

func init() {
	register(&Rule{
		Name:     "RECYCLEFOREIGN",
		Doc:      "a pooled protocol object wrapped around bytes the library does not own never goes back into the pool with those bytes: the result of NewBinaryProtocol(b) / NewBinaryProtol(b), where b is not a slice freshly made in the same function, is not passed to Recycle / FreeBinaryProtocol / FreeBinaryProtocolBuffer. Recycle only truncates Buf; the pool then holds the caller's input array and hands it to the next writer, which overwrites the input (a read-side operation ends up modifying caller memory, after a particular history only). Expected count zero today (the library wraps its own buffers only); the control keeps the matcher alive",
		Configs:  "NP",
		Floor:    map[string]int{"N": 5, "P": 5},
		Controls: 1,
		Run:      runRecycleForeign,
	})
}

func runRecycleForeign(rc *RuleCtx) {
	for _, fn := range rc.W.Funcs {
		if fn.Blocks == nil || strings.HasPrefix(pkgRel(fn), "testdata") {
			continue
		}
		for _, b := range fn.Blocks {
			for _, ins := range b.Instrs {
				c, ok := ins.(*ssa.Call)
				if !ok || c.Call.StaticCallee() == nil {
					continue
				}
				n := c.Call.StaticCallee().Name()
				if (n != "NewBinaryProtocol" && n != "NewBinaryProtol") || len(c.Call.Args) != 1 {
					continue
				}
				rc.Examined++
				own := false
				switch a := c.Call.Args[0].(type) {
				case *ssa.MakeSlice:
					own = true
				case *ssa.Slice:
					if _, ok := a.X.(*ssa.Alloc); ok {
						own = true // a literal
					}
				case *ssa.Const:
					own = true
				}
				if own || c.Referrers() == nil {
					rc.ok(fn, n, c.Pos(), "the protocol wraps a buffer made here (or is not recycled here)", false)
					continue
				}
				var freed ssa.Instruction
				for _, r := range *c.Referrers() {
					ci, ok := r.(ssa.CallInstruction)
					if !ok {
						continue
					}
					cal := ci.Common().StaticCallee()
					if cal == nil {
						continue
					}
					switch cal.Name() {
					case "Recycle", "FreeBinaryProtocol", "FreeBinaryProtocolBuffer":
						freed = r
					}
				}
				good := freed == nil
				pos := c.Pos()
				if freed != nil {
					pos = freed.Pos()
				}
				rc.verdict(good, fn, n+" of foreign bytes", pos, map[bool]string{
					true:  "the protocol around foreign bytes is not put into the pool",
					false: "a protocol wrapped around bytes this function did not allocate is recycled: the pool keeps that array and the next pooled writer writes into it"}[good], !good)
			}
		}
	}
}

// ---------------------------------------------------------------------------------------------
// CLOSURERESULT
// ---------------------------------------------------------------------------------------------

func init() {
	register(&Rule{
		Name:     "CLOSURERESULT",
		Doc:      "a local helper closure that reports a number back is listened to at every call: when a function literal with an integer result is called several times in its enclosing function and at least one call uses the result, every call does. updateByteLen's `fixLen` re-writes one length prefix and returns by how much the prefix itself grew or shrank; the caller adds that to the running difference for the enclosing prefixes — a call whose result is dropped leaves every outer length wrong by that amount (only when a prefix crosses a varint size boundary, 127 → 128 bytes)",
		Configs:  "NP",
		Floor:    map[string]int{"N": 1, "P": 1},
		Controls: 1,
		Run:      runClosureResult,
	})
}

func runClosureResult(rc *RuleCtx) {
	for _, fn := range rc.W.Funcs {
		if fn.Blocks == nil || fn.Parent() == nil || strings.HasPrefix(pkgRel(fn), "testdata") {
			continue
		}
		res := fn.Signature.Results()
		if res.Len() != 1 {
			continue
		}
		if bt, ok := res.At(0).Type().Underlying().(*types.Basic); !ok || bt.Info()&types.IsInteger == 0 {
			continue
		}
		// call sites in the parent
		var calls []*ssa.Call
		for _, b := range fn.Parent().Blocks {
			for _, ins := range b.Instrs {
				c, ok := ins.(*ssa.Call)
				if !ok {
					continue
				}
				if c.Call.StaticCallee() == fn {
					calls = append(calls, c)
				}
			}
		}
		if len(calls) < 2 {
			continue
		}
		used := 0
		var dropped *ssa.Call
		for _, c := range calls {
			if c.Referrers() != nil && len(*c.Referrers()) > 0 {
				used++
			} else {
				dropped = c
			}
		}
		if used == 0 {
			continue
		}
		rc.Examined++
		good := dropped == nil
		pos := fn.Pos()
		if dropped != nil {
			pos = dropped.Pos()
		}
		rc.verdict(good, fn.Parent(), "result of "+fn.Name(), pos, map[bool]string{
			true:  fmt.Sprintf("all %d calls use the closure's result", len(calls)),
			false: "this call drops the closure's result although the other calls add it up: the amount it reports is lost for everything computed from the sum"}[good], true)
	}
}

// ---------------------------------------------------------------------------------------------
// PROBEMOD
// ---------------------------------------------------------------------------------------------

func init() {
	register(&Rule{
		Name:     "PROBEMOD",
		Doc:      "the writer and the reader of one open-addressed table step through it with the same modulus: within the methods of one receiver type, every wrapping step `p = (p + 1) % M` uses the same M (a load of the same field). Set stepping modulo N-1 while Get steps modulo N stores a colliding key in a slot that Get's probe sequence does not visit — for a few table sizes and one key in hundreds",
		Configs:  "NP",
		Floor:    map[string]int{"N": 1, "P": 1},
		Controls: 1,
		Run:      runProbeMod,
	})
}

func runProbeMod(rc *RuleCtx) {
	type site struct {
		fn  *ssa.Function
		mod string
		pos token.Pos
	}
	byRecv := map[string][]site{}
	var order []string
	for _, fn := range rc.W.Funcs {
		if fn.Blocks == nil || fn.Signature.Recv() == nil || strings.HasPrefix(pkgRel(fn), "testdata") {
			continue
		}
		recv := typeShort(fn.Signature.Recv().Type())
		for _, b := range fn.Blocks {
			for _, ins := range b.Instrs {
				rem, ok := ins.(*ssa.BinOp)
				if !ok || rem.Op != token.REM {
					continue
				}
				add, ok := rem.X.(*ssa.BinOp)
				if !ok || add.Op != token.ADD {
					continue
				}
				if k, isC := constInt(add.Y); !isC || k != 1 {
					continue
				}
				var key string
				switch m := rem.Y.(type) {
				case *ssa.UnOp:
					key = "load " + addrKey(m.X)
				case *ssa.Parameter:
					key = "param " + m.Name()
				default:
					key = fmt.Sprintf("expr %T@%s", m, m.String())
				}
				if _, ok := byRecv[recv]; !ok {
					order = append(order, recv)
				}
				byRecv[recv] = append(byRecv[recv], site{fn, key, rem.Pos()})
			}
		}
	}
	for _, recv := range order {
		ss := byRecv[recv]
		if len(ss) < 2 {
			continue
		}
		rc.Examined++
		count := map[string]int{}
		for _, s := range ss {
			count[s.mod]++
		}
		best := ""
		for k, n := range count {
			if n > count[best] {
				best = k
			}
		}
		var odd *site
		for i := range ss {
			if ss[i].mod != best {
				odd = &ss[i]
			}
		}
		good := odd == nil
		fn, pos := ss[0].fn, ss[0].pos
		if odd != nil {
			fn, pos = odd.fn, odd.pos
		}
		rc.verdict(good, fn, "probe modulus of "+recv, pos, map[bool]string{
			true:  fmt.Sprintf("all %d wrapping steps of the type use the same modulus", len(ss)),
			false: "this wrapping step uses another modulus than the type's other probe loops: a key stored along one sequence is looked for along another"}[good], true)
	}
}

// ---------------------------------------------------------------------------------------------
// ERRVALDESC
// ---------------------------------------------------------------------------------------------

func init() {
	register(&Rule{
		Name:     "ERRVALDESC",
		Doc:      "an error Value carries no descriptor (every getter of proto/generic returns `wrapValue(errNode, nil)`), and getters are chained (`v.Field(3).Field(8)`): a method with a proto/generic.Value receiver calls a method on `self.Desc` only where an error / nil test dominates — the false edge of an IsError() test (of the receiver or of a node just obtained from the receiver's Node), a should() / Check() / Error() test, `self.Desc != nil`, or a clause of the switch over the receiver's own kind (an error value has kind ERROR). On a truncated message the first lookup fails and the second one dereferenced the nil descriptor (1094 of the 1105 truncation points of the example message)",
		Configs:  "NP",
		Floor:    map[string]int{"N": 10, "P": 10},
		Controls: 1,
		Run:      runErrValDesc,
	})
}

func runErrValDesc(rc *RuleCtx) {
	for _, fn := range rc.W.Funcs {
		if fn.Blocks == nil || pkgRel(fn) != "proto/generic" || fn.Signature.Recv() == nil || fn.Parent() != nil {
			continue
		}
		rt := fn.Signature.Recv().Type()
		if p, ok := rt.(*types.Pointer); ok {
			rt = p.Elem()
		}
		if n, ok := rt.(*types.Named); !ok || n.Obj().Name() != "Value" {
			continue
		}
		isDescLoad := func(v ssa.Value) bool {
			switch x := v.(type) {
			case *ssa.UnOp:
				if x.Op == token.MUL {
					if _, n, ok := fieldNameOf(x.X); ok && n == "Desc" {
						return true
					}
				}
			case *ssa.Field:
				if _, n, ok := fieldNameOf(x); ok && n == "Desc" {
					return true
				}
			}
			return false
		}
		for _, b := range fn.Blocks {
			for _, ins := range b.Instrs {
				c, ok := ins.(*ssa.Call)
				if !ok || c.Call.StaticCallee() == nil || c.Call.StaticCallee().Signature.Recv() == nil || len(c.Call.Args) == 0 {
					continue
				}
				if !isDescLoad(c.Call.Args[0]) {
					continue
				}
				rc.Examined++
				good := false
				for _, cd := range controllingIfs(b) {
					k, _ := condKey(cd.cond)
					// x.IsError() / self.should(..) == "" / x.Check() == nil / self.Desc != nil
					var probe ssa.Value = k
					if bo, ok := k.(*ssa.BinOp); ok {
						probe = bo.X
						if _, isC := bo.X.(*ssa.Const); isC {
							probe = bo.Y
						}
						if isDescLoad(bo.X) || isDescLoad(bo.Y) {
							good = true
						}
						// a clause of the switch over the receiver's own kind (`case proto.LIST:`): an error value has kind ERROR
						for _, op := range []ssa.Value{bo.X, bo.Y} {
							if _, n, ok := fieldNameOf(op); ok && n == "t" {
								good = true
							}
							if u, ok := op.(*ssa.UnOp); ok && u.Op == token.MUL {
								if _, n, ok := fieldNameOf(u.X); ok && n == "t" {
									good = true
								}
							}
						}
					}
					if pc, ok := probe.(*ssa.Call); ok && pc.Call.StaticCallee() != nil {
						switch pc.Call.StaticCallee().Name() {
						case "IsError", "should", "Check", "Error", "IsErrNotFound", "IsEmpty":
							good = true
						}
					}
				}
				rc.verdict(good, fn, "self.Desc."+c.Call.StaticCallee().Name(), c.Pos(), map[bool]string{
					true:  "the descriptor is used under an error / nil test",
					false: "the receiver's descriptor is dereferenced with no preceding error test: the receiver may be the error Value (nil descriptor) returned by a previous getter of a chained lookup — nil pointer dereference on truncated input"}[good], true)
			}
		}
	}
}

// ---------------------------------------------------------------------------------------------
// FIELDLOOPEXIT
// ---------------------------------------------------------------------------------------------

func init() {
	register(&Rule{
		Name:     "FIELDLOOPEXIT",
		Doc:      "a thrift struct is read to its STOP byte: in every loop that reads field headers (a call of ReadFieldBegin inside the loop), the only ways out of the loop other than an error return are tests of the header just read (`type == STOP`; in a locator also `id == wanted`). A `break` where a `continue` was meant — after the response base was extracted into the context, after a field was mapped to a header — silently drops every field that follows on the wire (the one test message has the base as its last field)",
		Configs:  "NP",
		Floor:    map[string]int{"N": 10, "P": 10},
		Controls: 1,
		Run:      runFieldLoopExit,
	})
}

func runFieldLoopExit(rc *RuleCtx) {
	ec := rc.W.EC()
	for _, fn := range rc.W.Funcs {
		if fn.Blocks == nil || strings.HasPrefix(pkgRel(fn), "testdata") {
			continue
		}
		for _, lp := range naturalLoops(fn) {
			var hdr *ssa.Call
			for b := range lp.blocks {
				for _, ins := range b.Instrs {
					if c, ok := ins.(*ssa.Call); ok && c.Call.StaticCallee() != nil && c.Call.StaticCallee().Name() == "ReadFieldBegin" {
						hdr = c
					}
				}
			}
			if hdr == nil {
				continue
			}
			// innermost loop containing the call only
			inner := true
			for _, other := range naturalLoops(fn) {
				if other != lp && other.blocks[hdr.Block()] && len(other.blocks) < len(lp.blocks) {
					inner = false
				}
			}
			if !inner {
				continue
			}
			rc.Examined++
			// deterministic order
			var blocks []*ssa.BasicBlock
			for _, b := range fn.Blocks {
				if lp.blocks[b] {
					blocks = append(blocks, b)
				}
			}
			exits := 0
			for _, b := range blocks {
				for _, s := range b.Succs {
					if lp.blocks[s] {
						continue
					}
					// leaving through an ERROR return (or a panic) is fine
					if ret, isRet := lastInstr(s).(*ssa.Return); isRet {
						ei := errIndex(fn.Signature)
						if ei >= 0 && ei < len(ret.Results) {
							if ec.nonNil(ret.Results[ei], s, map[ssa.Value]bool{}) {
								continue
							}
							known := false
							for _, cd := range controllingIfs(s) {
								if subj, nilOnTrue, ok := nilTest(cd.cond); ok && subj == ret.Results[ei] && cd.val != nilOnTrue {
									known = true
								}
							}
							if known {
								continue
							}
						}
					}
					if _, isPanic := lastInstr(s).(*ssa.Panic); isPanic {
						continue
					}
					// `if err != nil { return <something built from err> }`
					if iff, ok := lastInstr(b).(*ssa.If); ok {
						if _, isRet := lastInstr(s).(*ssa.Return); isRet {
							if subj, nilOnTrue, ok := nilTest(iff.Cond); ok && types.Implements(subj.Type(), errorIface()) {
								if (b.Succs[0] == s) != nilOnTrue {
									continue
								}
							}
						}
					}
					exits++
					what, onHeader := "unconditional", false
					pos := hdr.Pos()
					if iff, ok := lastInstr(b).(*ssa.If); ok {
						k, _ := condKey(iff.Cond)
						what = "value"
						if ph, ok := k.(*ssa.Phi); ok && ph.Comment != "" {
							what = ph.Comment
						}
						if bo, ok := k.(*ssa.BinOp); ok {
							what = "comparison"
							pos = bo.Pos()
							if bo.Op == token.EQL || bo.Op == token.NEQ {
								for _, op := range []ssa.Value{bo.X, bo.Y} {
									v := op
									for {
										if cv, ok := v.(*ssa.Convert); ok {
											v = cv.X
											continue
										}
										if ct, ok := v.(*ssa.ChangeType); ok {
											v = ct.X
											continue
										}
										break
									}
									if ex, ok := v.(*ssa.Extract); ok && ex.Tuple == ssa.Value(hdr) {
										onHeader = true
										what = "the field header"
									}
								}
							}
						}
					}
					rc.verdict(onHeader, fn, "loop exit on "+what, pos, map[bool]string{
						true:  "the field loop is left on a test of the header just read (STOP, or the id looked for)",
						false: "the field loop is left (break) on a condition that is not a test of the field header: the fields after that point are never read"}[onHeader], true)
				}
			}
			if exits == 0 {
				rc.ok(fn, "loop exit", hdr.Pos(), "the field loop is left only by returning", false)
			}
		}
	}
}

func errorIface() *types.Interface {
	return types.Universe.Lookup("error").Type().Underlying().(*types.Interface)
}

// ---------------------------------------------------------------------------------------------
// LASTBYTEPATCH
// ---------------------------------------------------------------------------------------------

func init() {
	register(&Rule{
		Name:     "LASTBYTEPATCH",
		Doc:      "a JSON writer never closes a container by overwriting the last output byte unconditionally: a store to `out[len(out)-1]` in the JSON-producing packages (conv/t2j, conv/p2j, thrift/annotation, internal/json, thrift) is control-dependent on a test that an element (and thus a separator) was written — a comparison of the element count or of that very byte. `append(',')` after every element and `out[len(out)-1] = ']'` at the end turns the `[` of an EMPTY list into `]` (`{\"Ids\":],…}`: malformed, nil error). Expected count zero today (the writers emit the separator conditionally); the control keeps the matcher alive",
		Configs:  "NP",
		Floor:    map[string]int{"N": 0, "P": 0},
		Controls: 1,
		Run:      runLastBytePatch,
	})
}

func runLastBytePatch(rc *RuleCtx) {
	for _, fn := range rc.W.Funcs {
		if fn.Blocks == nil {
			continue
		}
		rel := pkgRel(fn)
		if !(strings.HasPrefix(rel, "conv/") || rel == "thrift/annotation" || rel == "internal/json" || rel == "thrift") {
			continue
		}
		for _, b := range fn.Blocks {
			for _, ins := range b.Instrs {
				st, ok := ins.(*ssa.Store)
				if !ok {
					continue
				}
				ia, ok := st.Addr.(*ssa.IndexAddr)
				if !ok {
					continue
				}
				sub, ok := ia.Index.(*ssa.BinOp)
				if !ok || sub.Op != token.SUB {
					continue
				}
				if k, isC := constInt(sub.Y); !isC || k != 1 {
					continue
				}
				if _, isLen := builtinCallOf(sub.X, "len"); !isLen {
					continue
				}
				if bt, ok := st.Val.Type().Underlying().(*types.Basic); !ok || bt.Kind() != types.Uint8 {
					continue
				}
				rc.Examined++
				good := false
				loops := naturalLoops(fn)
				for _, cd := range controllingIfs(b) {
					// the exit test of a loop that b lies behind is not a guard of the store
					exitTest := false
					for _, l := range loops {
						if l.blocks[cd.ifb] && !l.blocks[b] {
							exitTest = true
						}
					}
					if exitTest {
						continue
					}
					k, _ := condKey(cd.cond)
					if bo, ok := k.(*ssa.BinOp); ok {
						switch bo.Op {
						case token.GTR, token.GEQ, token.LSS, token.LEQ, token.NEQ, token.EQL:
							// a test of a count against 0 (something was written), or of an output byte
							for _, pair := range [][2]ssa.Value{{bo.X, bo.Y}, {bo.Y, bo.X}} {
								if z, isC := constInt(pair[1]); isC && z == 0 {
									if bt, ok := pair[0].Type().Underlying().(*types.Basic); ok && (bt.Kind() == types.Int || bt.Kind() == types.Int32 || bt.Kind() == types.Int64) {
										good = true
									}
								}
								if u, ok := pair[0].(*ssa.UnOp); ok && u.Op == token.MUL {
									if _, isIdx := u.X.(*ssa.IndexAddr); isIdx {
										good = true
									}
								}
							}
						}
					}
				}
				// a loop back-edge is not such a test: the store has to be guarded where it stands
				rc.verdict(good, fn, "patch of the last output byte", st.Pos(), map[bool]string{
					true:  "the last byte is overwritten only under a test",
					false: "the last output byte is overwritten unconditionally: when nothing was appended since the opening bracket, the bracket itself is overwritten"}[good], true)
			}
		}
	}
}

// ---------------------------------------------------------------------------------------------
// ROOTLEN
// ---------------------------------------------------------------------------------------------

func init() {
	register(&Rule{
		Name:     "ROOTLEN",
		Doc:      "a protobuf message value that was cut out of its parent starts with its length prefix, a root value does not: every method with a proto/generic.Value receiver that starts a walk over the fields of the receiver's own bytes (it calls marshalTo, iterFields or scanChildren) reads the receiver's IsRoot flag. Value.MarshalTo did not: cutting a sub-message obtained by GetByPath / Field parsed the length prefix as a field tag (`invalid data type`), so only root values could be cut",
		Configs:  "NP",
		Floor:    map[string]int{"N": 4, "P": 4},
		Controls: 1,
		Run:      runRootLen,
	})
}

func runRootLen(rc *RuleCtx) {
	for _, fn := range rc.W.Funcs {
		if fn.Blocks == nil || pkgRel(fn) != "proto/generic" || fn.Signature.Recv() == nil || fn.Parent() != nil {
			continue
		}
		rt := fn.Signature.Recv().Type()
		if p, ok := rt.(*types.Pointer); ok {
			rt = p.Elem()
		}
		if n, ok := rt.(*types.Named); !ok || n.Obj().Name() != "Value" {
			continue
		}
		var walk ssa.Instruction
		readsRoot := false
		for _, b := range fn.Blocks {
			for _, ins := range b.Instrs {
				if callsNamed(ins, "marshalTo") || callsNamed(ins, "iterFields") || callsNamed(ins, "scanChildren") {
					walk = ins
				}
				if v, ok := ins.(ssa.Value); ok {
					if _, n, ok := fieldNameOf(v); ok && n == "IsRoot" {
						readsRoot = true
					}
				}
			}
		}
		if walk == nil {
			continue
		}
		rc.Examined++
		rc.verdict(readsRoot, fn, "field walk over the receiver", walk.Pos(), map[bool]string{
			true:  "the walk takes the receiver's IsRoot flag into account",
			false: "the receiver's bytes are walked as a field sequence without looking at IsRoot: for a message value cut out of its parent the length prefix is taken for the first tag"}[readsRoot], true)
	}
}

// ---------------------------------------------------------------------------------------------
// HDRPEEK
// ---------------------------------------------------------------------------------------------

func init() {
	register(&Rule{
		Name:     "HDRPEEK",
		Doc:      "a thrift container's header is peeked at from the position of its first element with the offsets of the wire format (map: key type, value type, count:4 → key type at -6, value type at -5, count at -4; list/set: element type at -5, count at -4): in thrift/generic every `rt.SubPtr(v, K)` with a constant K reads the count (a 4-byte window) at K=4, a type byte assigned to a variable named kt/keyType at K=6 and one named et/vt/elemType at K=5. With the key type read at -5 the key of a pair inserted into a map<i32,string> is encoded by the VALUE type: no key bytes, count grown, the rest of the value no longer decodes",
		Configs:  "NP",
		Floor:    map[string]int{"N": 3, "P": 3},
		Controls: 1,
		Run:      runHdrPeek,
	})
}

func runHdrPeek(rc *RuleCtx) {
	p := rc.W.Pkg("thrift/generic")
	for _, f := range p.Syntax {
		for _, d := range f.Decls {
			fd, ok := d.(*ast.FuncDecl)
			if !ok || fd.Body == nil {
				continue
			}
			name := declName("thrift/generic", fd)
			var stack []ast.Node
			ast.Inspect(fd.Body, func(n ast.Node) bool {
				if n == nil {
					stack = stack[:len(stack)-1]
					return false
				}
				stack = append(stack, n)
				ce, ok := n.(*ast.CallExpr)
				if !ok || len(ce.Args) != 2 {
					return true
				}
				sel, ok := ce.Fun.(*ast.SelectorExpr)
				if !ok || sel.Sel.Name != "SubPtr" {
					return true
				}
				tv, ok := p.TypesInfo.Types[ce.Args[1]]
				if !ok || tv.Value == nil {
					return true
				}
				k := tv.Value.ExactString()
				// what is the peek used as?
				want, role := "", ""
				for i := len(stack) - 2; i >= 0 && want == ""; i-- {
					switch x := stack[i].(type) {
					case *ast.CallExpr:
						if s2, ok := x.Fun.(*ast.SelectorExpr); ok && s2.Sel.Name == "BytesFrom" {
							want, role = "4", "the 4-byte count"
						}
					case *ast.AssignStmt:
						if len(x.Lhs) == 1 {
							if id, ok := x.Lhs[0].(*ast.Ident); ok {
								switch id.Name {
								case "kt", "keyType", "kType":
									want, role = "6", "the key type ("+id.Name+")"
								case "et", "vt", "elemType", "valueType":
									want, role = "5", "the element type ("+id.Name+")"
								}
							}
						}
					}
				}
				if want == "" {
					return true
				}
				rc.Examined++
				good := k == want
				rc.add(nil, name, "header peek of "+role, ce.Pos(), map[bool]string{true: "discharged", false: "violated"}[good],
					map[bool]string{true: "the peek uses the offset of the wire format", false: "the header is peeked at offset -" + k + " where " + role + " lies at -" + want + ": another header byte is taken for it"}[good], true)
				return true
			})
		}
	}
}

// ---------------------------------------------------------------------------------------------
// BMSETCONST
// ---------------------------------------------------------------------------------------------

func init() {
	register(&Rule{
		Name:     "BMSETCONST",
		Doc:      "during a conversion the requires-bitmap is a to-do list, not a copy of the IDL: a converter (conv/*, thrift/generic) marks a field with a CONSTANT — OptionalRequireness for `seen, nothing left to do`, RequiredRequireness for `not found here, the fallback over the JSON body must still deliver it` — and never with the field's declared requiredness (`f.Required()`). In handleHttpMappings the fallback mark written as f.Required() leaves an optional or default field that has no HTTP value marked `seen`: with ReadHttpValueFallback the value present in the JSON body is never looked for",
		Configs:  "NP",
		Floor:    map[string]int{"N": 5, "P": 5},
		Controls: 1,
		Run:      runBMSetConst,
	})
}

func runBMSetConst(rc *RuleCtx) {
	for _, fn := range rc.W.Funcs {
		if fn.Blocks == nil {
			continue
		}
		rel := pkgRel(fn)
		if !strings.HasPrefix(rel, "conv/") && rel != "thrift/generic" {
			continue
		}
		for _, b := range fn.Blocks {
			for _, ins := range b.Instrs {
				c, ok := ins.(*ssa.Call)
				if !ok || c.Call.StaticCallee() == nil || c.Call.StaticCallee().Name() != "Set" || c.Call.StaticCallee().Signature.Recv() == nil {
					continue
				}
				if !strings.Contains(c.Call.StaticCallee().Signature.Recv().Type().String(), "RequiresBitmap") {
					continue
				}
				rc.Examined++
				_, isConst := c.Call.Args[len(c.Call.Args)-1].(*ssa.Const)
				rc.verdict(isConst, fn, "RequiresBitmap.Set", c.Pos(), map[bool]string{
					true:  "the field is marked with a constant bookkeeping state",
					false: "the field is marked with a computed requiredness (the field's own declaration): for an optional / default field the to-do mark becomes `seen` and the step that was to deliver the value later is skipped"}[isConst], true)
			}
		}
	}
}

// ---------------------------------------------------------------------------------------------
// FIELDLISTFIRST
// ---------------------------------------------------------------------------------------------

func init() {
	register(&Rule{
		Name:     "FIELDLISTFIRST",
		Doc:      "a declared list of fields is mirrored as a whole: the thrift descriptor builder (package thrift) does not pick element [0] of a `[]*parser.Field` of the IDL syntax tree (a function's Throws, its Arguments) — it ranges over the list. parseResponse built the response struct from `fn.Throws[0]` only: for `throws (1: E1 e1, 2: E2 e2)` field 2 was unknown to FieldById / FieldByKey, a response carrying e2 converted to `{}` with a nil error. (`….Arguments[0]` is accepted: a kitex method takes exactly one request struct and the parser rejects an empty list.)",
		Configs:  "NP",
		Floor:    map[string]int{"N": 1, "P": 1},
		Controls: 1,
		Run:      runFieldListFirst,
	})
}

func runFieldListFirst(rc *RuleCtx) {
	p := rc.W.Pkg("thrift")
	for _, f := range p.Syntax {
		for _, d := range f.Decls {
			fd, ok := d.(*ast.FuncDecl)
			if !ok || fd.Body == nil {
				continue
			}
			name := declName("thrift", fd)
			ast.Inspect(fd.Body, func(n ast.Node) bool {
				ix, ok := n.(*ast.IndexExpr)
				if !ok {
					return true
				}
				tv, ok := p.TypesInfo.Types[ix.Index]
				if !ok || tv.Value == nil || tv.Value.ExactString() != "0" {
					return true
				}
				t := p.TypesInfo.TypeOf(ix.X)
				if t == nil || !strings.HasSuffix(t.String(), "parser.Field") || !strings.HasPrefix(t.String(), "[]") {
					return true
				}
				if sel, ok := ix.X.(*ast.SelectorExpr); ok && sel.Sel.Name == "Arguments" {
					// by design: a method takes exactly one request struct (the parser rejects an empty list explicitly)
					rc.Examined++
					rc.add(nil, name, "first of "+types.ExprString(ix.X), ix.Pos(), "discharged", "the single request argument of a method (by design; further arguments are outside the supported IDL subset)", false)
					return true
				}
				rc.Examined++
				rc.add(nil, name, "first of "+types.ExprString(ix.X), ix.Pos(), "violated",
					"only the first element of the declared field list `"+types.ExprString(ix.X)+"` is used: the descriptor does not mirror the others (they cannot be looked up, values carried by them are dropped)", true)
				return true
			})
		}
	}
}

// ---------------------------------------------------------------------------------------------
// KEYMAPNONEMPTY
// ---------------------------------------------------------------------------------------------

func init() {
	register(&Rule{
		Name:     "KEYMAPNONEMPTY",
		Doc:      "a key mapping never renames a field to the empty string: every `Map(ctx, key string) string` method of the thrift annotation packages returns either its `key` parameter or a value that a controlling comparison has found different from \"\". `api.key = \"\"` and `go.tag = 'json:\",omitempty\"'` (Go's way of saying `keep the name`) reach apiKey.Map with an empty value; returned as it is, the field's alias becomes \"\": FieldByKey(\"Foo\") is nil, FieldByKey(\"\") finds the field, two such fields are written as `{\"\":…,\"\":…}` and j2t drops the member as unknown",
		Configs:  "NP",
		Floor:    map[string]int{"N": 1, "P": 1},
		Controls: 1,
		Run:      runKeyMapNonEmpty,
	})
}

func runKeyMapNonEmpty(rc *RuleCtx) {
	for _, fn := range rc.W.Funcs {
		if fn.Blocks == nil || fn.Parent() != nil || fn.Signature.Recv() == nil || !strings.HasPrefix(pkgRel(fn), "thrift") {
			continue
		}
		if n := fn.Name(); n != "Map" && n != "zzControlMap" {
			continue
		}
		sig := fn.Signature
		if sig.Params().Len() != 2 || sig.Results().Len() != 1 {
			continue
		}
		if bt, ok := sig.Results().At(0).Type().Underlying().(*types.Basic); !ok || bt.Kind() != types.String {
			continue
		}
		if bt, ok := sig.Params().At(1).Type().Underlying().(*types.Basic); !ok || bt.Kind() != types.String {
			continue
		}
		key := fn.Params[len(fn.Params)-1]
		for _, b := range fn.Blocks {
			ret, ok := lastInstr(b).(*ssa.Return)
			if !ok || len(ret.Results) != 1 {
				continue
			}
			rc.Examined++
			v := ret.Results[0]
			good := v == ssa.Value(key)
			if c, ok := v.(*ssa.Const); ok && c.Value != nil && c.Value.ExactString() != `""` {
				good = true
			}
			if !good {
				for _, cd := range controllingIfs(b) {
					k, _ := condKey(cd.cond)
					if bo, ok := k.(*ssa.BinOp); ok && (bo.Op == token.EQL || bo.Op == token.NEQ) {
						for _, pair := range [][2]ssa.Value{{bo.X, bo.Y}, {bo.Y, bo.X}} {
							if c, ok := pair[1].(*ssa.Const); ok && c.Value != nil && c.Value.ExactString() == `""` {
								same := pair[0] == v
								if f1, ok := pair[0].(*ssa.Field); ok {
									if f2, ok := v.(*ssa.Field); ok && f1.X == f2.X && f1.Field == f2.Field {
										same = true
									}
								}
								if u1, ok := pair[0].(*ssa.UnOp); ok {
									if u2, ok := v.(*ssa.UnOp); ok && addrKey(u1.X) == addrKey(u2.X) {
										same = true
									}
								}
								if same {
									good = true
								}
							}
						}
					}
				}
			}
			rc.verdict(good, fn, "returned key", ret.Pos(), map[bool]string{
				true:  "the mapping returns the key itself or a name known not to be empty",
				false: "the mapping returns a stored name without having compared it with \"\": an annotation with an empty value renames the field to the empty string"}[good], true)
		}
	}
}

package main

import (
	"fmt"
	"go/ast"
	"go/token"
	"go/types"
	"strings"
)

func init() {
	register(&Rule{
		Name:     "SWAPBOTH",
		Doc:      "(a) no assignment assigns an expression to itself (x[i], x[j] = x[i], x[j] is a no-op, not a swap); (b) every Swap(i, j) method of a struct that carries parallel slices exchanges elements i and j of EVERY slice field — a sort that permutes one array but not its twin pairs old nodes with the wrong new values",
		Configs:  "NP",
		Floor:    map[string]int{"N": 500, "P": 500},
		Controls: 1,
		Run:      runSwapBoth,
	})
	register(&Rule{
		Name:     "CONSTAFFINITY",
		Doc:      "a function whose name says which number kind it formats (…i64…/…int64… vs …f64…/…float64…) reserves space with the constant of the same kind (MaxInt64StringLen vs MaxFloat64StringLen): the float formatter needs up to 32 bytes, the integer bound is 21; and the two constants are at least as large as the longest text of their kind (20 bytes for \"-9223372036854775808\", 25 for \"-0.0000012345678901234567\": the native formatter prints 1e-6 <= |x| < 1e21 without an exponent, so 17 digits follow \"-0.00000\") — the native formatter writes without a bounds check",
		Configs:  "N",
		Floor:    map[string]int{"N": 2},
		Controls: 1,
		Run:      runConstAffinity,
	})
}

func runSwapBoth(rc *RuleCtx) {
	w := rc.W
	for _, p := range w.Pkgs {
		rel := strings.TrimPrefix(strings.TrimPrefix(p.PkgPath, modPath), "/")
		if strings.HasPrefix(rel, "internal/native/") {
			continue
		}
		for _, f := range p.Syntax {
			for _, d := range f.Decls {
				fd, ok := d.(*ast.FuncDecl)
				if !ok || fd.Body == nil {
					continue
				}
				name := declName(rel, fd)
				ast.Inspect(fd.Body, func(n ast.Node) bool {
					as, ok := n.(*ast.AssignStmt)
					if !ok || as.Tok != token.ASSIGN || len(as.Lhs) != len(as.Rhs) {
						return true
					}
					rc.Examined++
					for i := range as.Lhs {
						if id, ok := as.Lhs[i].(*ast.Ident); ok && id.Name == "_" {
							continue
						}
						if types.ExprString(as.Lhs[i]) == types.ExprString(as.Rhs[i]) {
							rc.add(nil, name, "self-assignment", as.Pos(), "violated", "`"+types.ExprString(as.Lhs[i])+"` is assigned to itself (no-op)", true)
						}
					}
					return true
				})
				// Swap methods
				if fd.Name.Name != "Swap" || fd.Recv == nil || len(fd.Recv.List) == 0 || fd.Type.Params.NumFields() != 2 {
					continue
				}
				rt := p.TypesInfo.TypeOf(fd.Recv.List[0].Type)
				st, ok := derefType(rt).Underlying().(*types.Struct)
				if !ok {
					continue
				}
				var pn []string
				for _, fl := range fd.Type.Params.List {
					for _, n := range fl.Names {
						pn = append(pn, n.Name)
					}
				}
				if len(pn) != 2 {
					continue
				}
				for i := 0; i < st.NumFields(); i++ {
					fld := st.Field(i)
					if _, isSlice := fld.Type().Underlying().(*types.Slice); !isSlice {
						continue
					}
					rc.Examined++
					swapped := false
					ast.Inspect(fd.Body, func(n ast.Node) bool {
						as, ok := n.(*ast.AssignStmt)
						if !ok || len(as.Lhs) != 2 || len(as.Rhs) != 2 {
							return true
						}
						l0, l1, r0, r1 := types.ExprString(as.Lhs[0]), types.ExprString(as.Lhs[1]), types.ExprString(as.Rhs[0]), types.ExprString(as.Rhs[1])
						if l0 == r1 && l1 == r0 && l0 != l1 && strings.Contains(l0, "."+fld.Name()+"[") &&
							strings.HasSuffix(l0, "["+pn[0]+"]") && strings.HasSuffix(l1, "["+pn[1]+"]") {
							swapped = true
						}
						return true
					})
					rc.add(nil, name, "swap field "+fld.Name(), fd.Pos(), map[bool]string{true: "discharged", false: "violated"}[swapped],
						map[bool]string{true: "elements i and j of " + fld.Name() + " are exchanged", false: "Swap does not exchange elements of the parallel slice `" + fld.Name() + "`"}[swapped], true)
				}
			}
		}
	}
}

func runConstAffinity(rc *RuleCtx) {
	w := rc.W
	// the reserved sizes themselves: the longest decimal int64 is "-9223372036854775808" (20 bytes), the
	// longest shortest-round-trip float64 is "-0.0000012345678901234567" (25 bytes: plain notation down to 1e-6;
	// the longest exponent form "-1.7976931348623157e+308" has 24)
	cv := w.constVals("internal/native/types", "MaxInt64StringLen", "MaxFloat64StringLen")
	for n, min := range map[string]int64{"MaxInt64StringLen": 20, "MaxFloat64StringLen": 25} {
		rc.Examined++
		good := cv[n] >= min
		rc.add(nil, "internal/native/types", "constant "+n, w.Pkg("internal/native/types").Syntax[0].Pos(), map[bool]string{true: "discharged", false: "violated"}[good],
			fmt.Sprintf("%s = %d; the longest text of that kind needs %d bytes", n, cv[n], min), false)
	}
	kindOf := func(s string) string {
		l := strings.ToLower(s)
		switch {
		case strings.Contains(l, "f64") || strings.Contains(l, "float64"):
			return "float64"
		case strings.Contains(l, "i64") || strings.Contains(l, "int64"):
			return "int64"
		}
		return ""
	}
	for _, p := range w.Pkgs {
		rel := strings.TrimPrefix(strings.TrimPrefix(p.PkgPath, modPath), "/")
		if strings.HasPrefix(rel, "internal/native/") && rel != "internal/native/types" {
			continue
		}
		for _, f := range p.Syntax {
			for _, d := range f.Decls {
				fd, ok := d.(*ast.FuncDecl)
				if !ok || fd.Body == nil {
					continue
				}
				fk := kindOf(fd.Name.Name)
				if fk == "" {
					continue
				}
				name := declName(rel, fd)
				ast.Inspect(fd.Body, func(n ast.Node) bool {
					var id *ast.Ident
					switch x := n.(type) {
					case *ast.SelectorExpr:
						id = x.Sel
					case *ast.Ident:
						id = x
					default:
						return true
					}
					if _, isConst := p.TypesInfo.Uses[id].(*types.Const); !isConst || !strings.HasSuffix(id.Name, "StringLen") {
						return true
					}
					ck := kindOf(id.Name)
					if ck == "" {
						return true
					}
					rc.Examined++
					rc.add(nil, name, "buffer bound "+id.Name, id.Pos(), map[bool]string{true: "discharged", false: "violated"}[ck == fk],
						map[bool]string{true: fk + " formatter reserves " + id.Name, false: "the " + fk + " formatter reserves space with " + id.Name + " (the bound of the other number kind)"}[ck == fk], true)
					if _, ok := n.(*ast.SelectorExpr); ok {
						return false
					}
					return true
				})
			}
		}
	}
}

package main

import (
	"strings"

	"golang.org/x/tools/go/ssa"
)

func init() {
	register(&Rule{
		Name:     "CASTUSED",
		Doc:      "the value result of a conversion helper (internal/primitive.ToString/ToInt64/ToFloat64/ToBool, resolved callee) flows — through conversions, phis and interface boxing — into a call argument, a return or a store; a converted value that is dead means the un-converted (zero) value gets written",
		Configs:  "NP",
		Floor:    map[string]int{"N": 15, "P": 15},
		Controls: 1,
		Run:      runCastUsed,
	})
}

func valueReachesUse(v ssa.Value, seen map[ssa.Value]bool) bool {
	if seen[v] {
		return false
	}
	seen[v] = true
	refs := v.Referrers()
	if refs == nil {
		return false
	}
	for _, r := range *refs {
		switch u := r.(type) {
		case *ssa.Call, *ssa.Return, *ssa.Store, *ssa.Defer, *ssa.Go, *ssa.MapUpdate, *ssa.Send, *ssa.If:
			return true
		case *ssa.BinOp:
			if valueReachesUse(u, seen) {
				return true
			}
		case *ssa.Convert:
			if valueReachesUse(u, seen) {
				return true
			}
		case *ssa.ChangeType:
			if valueReachesUse(u, seen) {
				return true
			}
		case *ssa.Phi:
			if valueReachesUse(u, seen) {
				return true
			}
		case *ssa.MakeInterface:
			if valueReachesUse(u, seen) {
				return true
			}
		case *ssa.Extract:
			if valueReachesUse(u, seen) {
				return true
			}
		case *ssa.UnOp:
			if valueReachesUse(u, seen) {
				return true
			}
		case *ssa.Slice:
			if valueReachesUse(u, seen) {
				return true
			}
		case *ssa.DebugRef:
		default:
			if val, ok := r.(ssa.Value); ok {
				if valueReachesUse(val, seen) {
					return true
				}
			} else {
				return true
			}
		}
	}
	return false
}

func runCastUsed(rc *RuleCtx) {
	w := rc.W
	for _, fn := range w.Funcs {
		for _, b := range fn.Blocks {
			for _, ins := range b.Instrs {
				c, ok := ins.(*ssa.Call)
				if !ok {
					continue
				}
				cal := c.Call.StaticCallee()
				if cal == nil || pkgRel(cal) != "internal/primitive" || !strings.HasPrefix(cal.Name(), "To") {
					continue
				}
				rc.Examined++
				// value result = index 0
				var val ssa.Value
				if cal.Signature.Results().Len() == 1 {
					val = c
				} else {
					for _, r := range *c.Referrers() {
						if ex, ok := r.(*ssa.Extract); ok && ex.Index == 0 {
							val = ex
						}
					}
				}
				good := val != nil && valueReachesUse(val, map[ssa.Value]bool{})
				rc.verdict(good, fn, cal.Name(), c.Pos(), map[bool]string{true: "converted value is used", false: "the converted value of " + cal.Name() + " is never used (shadowed or overwritten): the un-converted zero value is what gets written"}[good], true)
			}
		}
	}
}

package main

import (
	"go/ast"
	"go/token"
	"go/types"
	"strings"

	"golang.org/x/tools/go/ssa"
)

// ENTRYLEN: a protobuf map is a repeated field of entries `[entry tag][entry length][key][value]`.
// When SetByPath / UnsetByPath change the size of something inside a map VALUE, three kinds of
// length prefix enclose the change: those of the enclosing messages, that of a packed list — and
// that of the map entry itself. The routine that walks the path upwards and rewrites length
// prefixes dispatches on the kind of each step; its arm for a map-key step has to rewrite a length
// as well, or every edit that changes the size of a map value leaves the entry length stale and the
// message no longer parses.
func init() {
	register(&Rule{
		Name:     "ENTRYLEN",
		Doc:      "in proto/generic, the function that rewrites ancestor length prefixes after an edit (it walks `path` and re-encodes lengths with protowire.AppendVarint) rewrites a length on its map-key arm too: the if-arm selected by `PathStrKey` / `PathIntKey` contains a call that re-encodes a length (AppendVarint directly, or a local function literal that calls it) — a map entry carries its own length prefix around key and value",
		Configs:  "NP",
		Floor:    map[string]int{"N": 1, "P": 1},
		Controls: 1,
		Run:      runEntryLen,
	})
}

func runEntryLen(rc *RuleCtx) {
	for _, p := range rc.W.Pkgs {
		rel := strings.TrimPrefix(strings.TrimPrefix(p.PkgPath, modPath), "/")
		if rel != "proto/generic" {
			continue
		}
		for _, f := range p.Syntax {
			for _, d := range f.Decls {
				fd, ok := d.(*ast.FuncDecl)
				if !ok || fd.Body == nil {
					continue
				}
				// candidates: functions that re-encode a length and dispatch on map-key path steps
				mentions := func(n ast.Node, name string) bool {
					found := false
					ast.Inspect(n, func(m ast.Node) bool {
						switch x := m.(type) {
						case *ast.SelectorExpr:
							if x.Sel.Name == name {
								found = true
							}
						case *ast.Ident:
							if x.Name == name {
								found = true
							}
						}
						return !found
					})
					return found
				}
				if !mentions(fd.Body, "AppendVarint") || !(mentions(fd.Body, "PathStrKey") || mentions(fd.Body, "PathIntKey")) {
					continue
				}
				// local function literals that re-encode a length
				fixers := map[string]bool{}
				ast.Inspect(fd.Body, func(m ast.Node) bool {
					if as, ok := m.(*ast.AssignStmt); ok && len(as.Lhs) == 1 && len(as.Rhs) == 1 {
						if fl, ok := as.Rhs[0].(*ast.FuncLit); ok && mentions(fl.Body, "AppendVarint") {
							if id, ok := as.Lhs[0].(*ast.Ident); ok {
								fixers[id.Name] = true
							}
						}
					}
					return true
				})
				ast.Inspect(fd.Body, func(m ast.Node) bool {
					is, ok := m.(*ast.IfStmt)
					if !ok || !(mentions(is.Cond, "PathStrKey") || mentions(is.Cond, "PathIntKey")) {
						return true
					}
					rc.Examined++
					good := mentions(is.Body, "AppendVarint")
					for fx := range fixers {
						ast.Inspect(is.Body, func(c ast.Node) bool {
							if ce, ok := c.(*ast.CallExpr); ok {
								if id, ok := ce.Fun.(*ast.Ident); ok && id.Name == fx {
									good = true
								}
							}
							return true
						})
					}
					rc.add(nil, declName(rel, fd), "map-key arm", is.Pos(), map[bool]string{true: "discharged", false: "violated"}[good],
						map[bool]string{true: "the map-key arm rewrites the entry's length prefix",
							false: "the arm for PathStrKey / PathIntKey steps rewrites no length: an edit that changes the size of a map value leaves the length prefix of the enclosing map entry stale (the result no longer parses)"}[good], true)
					return true
				})
			}
		}
	}
}

// TAGPOS: the positions the path walker records per step (`address[i]`) are where updateByteLen
// later expects a `[tag][length]` header. A locator that peeks a tag (ConsumeTagWithoutMove) and
// returns `cursor + tagLength` hands out the position BEHIND the tag: the length fix-up then reads
// the length prefix as a tag and the first payload bytes as the length.
func init() {
	register(&Rule{
		Name:     "TAGPOS",
		Doc:      "in the search* locators of proto/generic, the position returned next to a nil / not-found error is never `cursor + n` with n the tag length reported by ConsumeTagWithoutMove: positions handed to the path walker are TAG positions (updateByteLen re-writes the `[tag][length]` header found there), as the function's own comment says",
		Configs:  "NP",
		Floor:    map[string]int{"N": 4, "P": 4},
		Controls: 1,
		Run:      runTagPos,
	})
}

func runTagPos(rc *RuleCtx) {
	for _, fn := range rc.W.Funcs {
		if fn.Blocks == nil || pkgRel(fn) != "proto/generic" || !(strings.HasPrefix(fn.Name(), "search") || strings.HasPrefix(fn.Name(), "zzControlSearch")) {
			continue
		}
		var behindTag func(v ssa.Value, d int, seen map[ssa.Value]bool) bool
		behindTag = func(v ssa.Value, d int, seen map[ssa.Value]bool) bool {
			if v == nil || d > 8 || seen[v] {
				return false
			}
			seen[v] = true
			switch x := v.(type) {
			case *ssa.Phi:
				for _, e := range x.Edges {
					if behindTag(e, d+1, seen) {
						return true
					}
				}
			case *ssa.BinOp:
				if x.Op == token.ADD {
					for _, o := range []ssa.Value{x.X, x.Y} {
						if ex, ok := o.(*ssa.Extract); ok {
							if c, ok := ex.Tuple.(*ssa.Call); ok && c.Call.StaticCallee() != nil && c.Call.StaticCallee().Name() == "ConsumeTagWithoutMove" && ex.Index == 2 {
								return true
							}
						}
					}
				}
			case *ssa.UnOp:
				if al, ok := x.X.(*ssa.Alloc); ok && al.Referrers() != nil {
					for _, r := range *al.Referrers() {
						if st, ok := r.(*ssa.Store); ok && behindTag(st.Val, d+1, seen) {
							return true
						}
					}
				}
			}
			return false
		}
		for _, b := range fn.Blocks {
			ret, ok := lastInstr(b).(*ssa.Return)
			if !ok || len(ret.Results) == 0 {
				continue
			}
			if bt, ok := ret.Results[0].Type().Underlying().(*types.Basic); !ok || bt.Kind() != types.Int {
				continue
			}
			if k, isC := constInt(ret.Results[0]); isC && k == 0 {
				continue // error exits return 0
			}
			rc.Examined++
			bad := behindTag(ret.Results[0], 0, map[ssa.Value]bool{})
			rc.verdict(!bad, fn, "returned position", ret.Pos(), map[bool]string{
				true:  "the returned position is not a tag position plus the tag's length",
				false: "the locator returns `cursor + tag length`: the position BEHIND the element's tag, where updateByteLen expects the tag — the length prefix of a message element is then re-written from the wrong bytes"}[!bad], true)
		}
	}
}

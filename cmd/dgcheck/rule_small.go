package main

import (
	"go/ast"
	"go/constant"
	"go/token"
	"go/types"
	"strings"
)

// Small sibling / table rules inspired by seeded changes that several independent agents produced.
func init() {
	register(&Rule{
		Name:     "SERVICEONLY",
		Doc:      "in every switch over meta.ParseServiceMode of the IDL parsers, each clause for a `…ServiceOnly` mode re-assigns the service list it will iterate over (`svcs = svcs[…]` or any other assignment to a slice-typed variable), as its sibling clause does: taking only the service NAME from the chosen service while iterating over all of them exposes the methods of every service",
		Configs:  "NP",
		Floor:    map[string]int{"N": 4, "P": 4},
		Controls: 1,
		Run:      runServiceOnly,
	})
	register(&Rule{
		Name:     "SKIPRESET",
		Doc:      "in the j2p visitor every value-terminating callback (OnNull/OnBool/OnString/OnInt64/OnFloat64/OnObjectEnd/OnArrayEnd) that returns early under `if self.inskip` clears the flag in that branch (`self.inskip = false`), as its siblings do: a skip flag left set swallows the NEXT member as well",
		Configs:  "NP",
		Floor:    map[string]int{"N": 5, "P": 5},
		Controls: 1,
		Run:      runSkipReset,
	})
	register(&Rule{
		Name:     "FORMSOURCE",
		Doc:      "the body map of an HTTP request (the source of api.body / api.form) is filled from net/http.Request.PostForm, never from Request.Form: Form is PostForm MERGED with the URL query, so keys that exist only in the query string would be found as body members; and an accessor named …PostForm… reads Request.PostFormValue/PostForm, never FormValue/Form",
		Configs:  "NP",
		Floor:    map[string]int{"N": 1, "P": 1},
		Controls: 1,
		Run:      runFormSource,
	})
	register(&Rule{
		Name:     "MSGMASK",
		Doc:      "thrift.ReadMessageBegin takes the message type from the version word with the mask 0xff (thrift binary protocol: `version | type`, type in the low byte) and the version with VERSION_MASK = 0xffff0000: every `&` of the size word with a constant uses one of these two values",
		Configs:  "NP",
		Floor:    map[string]int{"N": 2, "P": 2},
		Controls: 0,
		Run:      runMsgMask,
	})
	register(&Rule{
		Name:     "KEYBOTH",
		Doc:      "meta.MapFieldWay has three values — by alias, by name, and BOTH. In thrift.parseType the code that registers a field's lookup keys has, besides a branch that registers the alias and one that registers the name, a branch (one statement list) that registers both with two names.Set calls: otherwise MapFieldUseBoth degrades to one of the other two",
		Configs:  "NP",
		Floor:    map[string]int{"N": 1, "P": 1},
		Controls: 0,
		Run:      runKeyBoth,
	})
	register(&Rule{
		Name:     "TARGETAFFINITY",
		Doc:      "a call of thrift.parseType whose result is assigned to a variable named after a parse target (request…/response…/exception…) passes the ParseTarget constant of that name: parsing the exception type with target Response (a copy of the line above) mis-files the type in the per-target compile cache",
		Configs:  "NP",
		Floor:    map[string]int{"N": 2, "P": 2},
		Controls: 1,
		Run:      runTargetAffinity,
	})
}

func runServiceOnly(rc *RuleCtx) {
	for _, ks := range rc.W.kindSwitches(2) {
		if !strings.HasSuffix(ks.tagType, "meta.ParseServiceMode") {
			continue
		}
		for _, cl := range ks.clauses {
			only := false
			var names []string
			for _, l := range cl.labels {
				names = append(names, l.name)
				if strings.HasSuffix(l.name, "ServiceOnly") {
					only = true
				}
			}
			if !only {
				continue
			}
			rc.Examined++
			resliced := false
			for _, st := range cl.body {
				// any re-assignment of a slice-typed variable in the clause counts (re-slice, one-element literal, helper call)
				if as, ok := st.(*ast.AssignStmt); ok && as.Tok == token.ASSIGN && len(as.Lhs) >= 1 {
					if t := ks.pkg.TypesInfo.TypeOf(as.Lhs[0]); t != nil {
						if _, isSlice := t.Underlying().(*types.Slice); isSlice {
							resliced = true
						}
					}
				}
			}
			rc.add(nil, ks.fnName, "case "+strings.Join(names, ","), cl.pos, map[bool]string{true: "discharged", false: "violated"}[resliced],
				map[bool]string{true: "the service list is cut down to the chosen service", false: "the clause picks a service name but does not cut the service list down: the methods of ALL services are registered under that name"}[resliced], false)
		}
	}
}

func runSkipReset(rc *RuleCtx) {
	p := rc.W.Pkg("conv/j2p")
	for _, f := range p.Syntax {
		for _, d := range f.Decls {
			fd, ok := d.(*ast.FuncDecl)
			if !ok || fd.Body == nil || fd.Recv == nil {
				continue
			}
			n := fd.Name.Name
			if !(strings.HasPrefix(n, "zzControlOn") || n == "OnNull" || n == "OnBool" || n == "OnString" || n == "OnInt64" || n == "OnFloat64" || n == "OnObjectEnd" || n == "OnArrayEnd") {
				continue
			}
			for _, st := range fd.Body.List {
				is, ok := st.(*ast.IfStmt)
				if !ok {
					continue
				}
				sel, ok := ast.Unparen(is.Cond).(*ast.SelectorExpr)
				if !ok || sel.Sel.Name != "inskip" {
					continue
				}
				rc.Examined++
				reset := false
				for _, b := range is.Body.List {
					if as, ok := b.(*ast.AssignStmt); ok && len(as.Lhs) == 1 {
						if l, ok := as.Lhs[0].(*ast.SelectorExpr); ok && l.Sel.Name == "inskip" {
							if tv, ok := p.TypesInfo.Types[as.Rhs[0]]; ok && tv.Value != nil && tv.Value.Kind() == constant.Bool && !constant.BoolVal(tv.Value) {
								reset = true
							}
						}
					}
				}
				rc.add(nil, declName("conv/j2p", fd), "if inskip", is.Pos(), map[bool]string{true: "discharged", false: "violated"}[reset],
					map[bool]string{true: "the skip flag is cleared when the skipped value ends", false: "the callback leaves under `inskip` without clearing the flag: the member that FOLLOWS the skipped value is skipped as well"}[reset], false)
			}
		}
	}
}

func runFormSource(rc *RuleCtx) {
	for _, p := range rc.W.Pkgs {
		rel := strings.TrimPrefix(strings.TrimPrefix(p.PkgPath, modPath), "/")
		for _, f := range p.Syntax {
			for _, d := range f.Decls {
				fd, ok := d.(*ast.FuncDecl)
				if !ok || fd.Body == nil {
					continue
				}
				// clause (b): an accessor that is named after the POST form reads the POST form
				if strings.Contains(fd.Name.Name, "PostForm") {
					ast.Inspect(fd.Body, func(n ast.Node) bool {
						sel, ok := n.(*ast.SelectorExpr)
						if !ok {
							return true
						}
						t := p.TypesInfo.TypeOf(sel.X)
						if t == nil || !strings.HasSuffix(strings.TrimPrefix(t.String(), "*"), "net/http.Request") {
							return true
						}
						switch sel.Sel.Name {
						case "PostFormValue", "PostForm", "FormValue", "Form":
						default:
							return true
						}
						rc.Examined++
						good := strings.HasPrefix(sel.Sel.Name, "PostForm")
						rc.add(nil, declName(rel, fd), "Request."+sel.Sel.Name, sel.Pos(), map[bool]string{true: "discharged", false: "violated"}[good],
							map[bool]string{true: "the api.form accessor reads the POST form only", false: "the api.form accessor reads Request." + sel.Sel.Name + ", which falls back to the URL query: a same-named query parameter is taken for a form value"}[good], false)
						return true
					})
				}
				ast.Inspect(fd.Body, func(n ast.Node) bool {
					as, ok := n.(*ast.AssignStmt)
					if !ok || len(as.Lhs) != 1 || len(as.Rhs) != 1 {
						return true
					}
					l, ok := as.Lhs[0].(*ast.SelectorExpr)
					if !ok || l.Sel.Name != "BodyMap" {
						return true
					}
					r, ok := ast.Unparen(as.Rhs[0]).(*ast.SelectorExpr)
					if !ok {
						return true
					}
					t := p.TypesInfo.TypeOf(r.X)
					if t == nil || !strings.HasSuffix(strings.TrimPrefix(t.String(), "*"), "net/http.Request") {
						return true
					}
					rc.Examined++
					good := r.Sel.Name == "PostForm"
					rc.add(nil, declName(rel, fd), "BodyMap = Request."+r.Sel.Name, as.Pos(), map[bool]string{true: "discharged", false: "violated"}[good],
						map[bool]string{true: "the body map holds the body parameters only", false: "the body map is filled from Request." + r.Sel.Name + ", which also contains the URL query parameters: api.body finds values that are not in the body"}[good], false)
					return true
				})
			}
		}
	}
}

func runMsgMask(rc *RuleCtx) {
	p, fd := rc.W.findDecl("(*thrift.BinaryProtocol).ReadMessageBegin")
	vm := rc.W.constVals("thrift", "VERSION_MASK")["VERSION_MASK"]
	ast.Inspect(fd.Body, func(n ast.Node) bool {
		be, ok := n.(*ast.BinaryExpr)
		if !ok || be.Op != token.AND {
			return true
		}
		tv, ok := p.TypesInfo.Types[be.Y]
		if !ok || tv.Value == nil || tv.Value.Kind() != constant.Int {
			return true
		}
		rc.Examined++
		v, _ := constant.Int64Val(tv.Value)
		u, _ := constant.Uint64Val(tv.Value)
		good := v == 0xff || v == vm || u == uint64(uint32(vm)) || uint64(v)&0xffffffff == 0xffff0000
		rc.add(nil, "(*thrift.BinaryProtocol).ReadMessageBegin", "mask "+types.ExprString(be.Y), be.Pos(), map[bool]string{true: "discharged", false: "violated"}[good],
			map[bool]string{true: "the mask is the protocol's type mask (0xff) or version mask", false: "the version word is masked with " + tv.Value.ExactString() + ": the message type is the low BYTE (0xff), the version the high half (0xffff0000)"}[good], false)
		return true
	})
}

func runTargetAffinity(rc *RuleCtx) {
	targets := []string{"request", "response", "exception"}
	p := rc.W.Pkg("thrift")
	for _, f := range p.Syntax {
		for _, d := range f.Decls {
			fd, ok := d.(*ast.FuncDecl)
			if !ok || fd.Body == nil {
				continue
			}
			ast.Inspect(fd.Body, func(n ast.Node) bool {
				as, ok := n.(*ast.AssignStmt)
				if !ok || len(as.Rhs) != 1 || len(as.Lhs) == 0 {
					return true
				}
				ce, ok := as.Rhs[0].(*ast.CallExpr)
				if !ok {
					return true
				}
				id, ok := ce.Fun.(*ast.Ident)
				if !ok || (id.Name != "parseType" && id.Name != "zzControlParseType") || len(ce.Args) == 0 {
					return true
				}
				lhs, ok := as.Lhs[0].(*ast.Ident)
				if !ok {
					return true
				}
				last, ok := ce.Args[len(ce.Args)-1].(*ast.Ident)
				if !ok {
					return true
				}
				if tv, ok := p.TypesInfo.Types[last]; !ok || tv.Value == nil || !strings.HasSuffix(typeShort(tv.Type), "ParseTarget") {
					return true
				}
				ln := strings.ToLower(lhs.Name)
				want := ""
				for _, t := range targets {
					if strings.HasPrefix(ln, t) || strings.HasPrefix(ln, t[:3]+"t") && false {
						want = t
					}
				}
				if strings.HasPrefix(ln, "req") {
					want = "request"
				} else if strings.HasPrefix(ln, "resp") {
					want = "response"
				} else if strings.HasPrefix(ln, "exception") || strings.HasPrefix(ln, "exp") {
					want = "exception"
				}
				if want == "" {
					return true
				}
				rc.Examined++
				good := strings.ToLower(last.Name) == want
				rc.add(nil, declName("thrift", fd), lhs.Name+" := parseType(…, "+last.Name+")", as.Pos(), map[bool]string{true: "discharged", false: "violated"}[good],
					map[bool]string{true: "the parse target matches what is being parsed", false: "`" + lhs.Name + "` is parsed with target " + last.Name + ": the type is compiled and cached for the wrong target"}[good], false)
				return true
			})
		}
	}
}

func runKeyBoth(rc *RuleCtx) {
	p, fd := rc.W.findDecl("thrift.parseType")
	_ = p
	lists := 0
	both := false
	ast.Inspect(fd.Body, func(n ast.Node) bool {
		var list []ast.Stmt
		switch x := n.(type) {
		case *ast.BlockStmt:
			list = x.List
		case *ast.CaseClause:
			list = x.Body
		default:
			return true
		}
		args := map[string]bool{}
		for _, st := range list {
			es, ok := st.(*ast.ExprStmt)
			if !ok {
				continue
			}
			ce, ok := es.X.(*ast.CallExpr)
			if !ok || len(ce.Args) != 2 {
				continue
			}
			sel, ok := ce.Fun.(*ast.SelectorExpr)
			if !ok || sel.Sel.Name != "Set" || !strings.HasSuffix(types.ExprString(sel.X), "names") {
				continue
			}
			args[types.ExprString(ce.Args[0])] = true
		}
		if len(args) > 0 {
			lists++
		}
		if len(args) >= 2 {
			both = true
		}
		return true
	})
	if lists == 0 {
		broken("KEYBOTH: no names.Set call found in thrift.parseType")
	}
	rc.Examined++
	rc.add(nil, "thrift.parseType", "MapFieldUseBoth", fd.Pos(), map[bool]string{true: "discharged", false: "violated"}[both],
		map[bool]string{true: "one branch registers both the alias and the name", false: "no branch registers two different keys: under MapFieldUseBoth a field is reachable by only one of its alias and its name"}[both], false)
}

package main

import (
	"golang.org/x/tools/go/ssa"
)

func init() {
	register(&Rule{
		Name: "GROWCOPY",
		Doc: "when a byte buffer is re-allocated (fresh make, copy, and the new slice then REPLACES the old one — they meet in a φ or the old variable is overwritten), the copy into the new slice takes the whole old slice, not a prefix old[:k]: " +
			"bytes beyond the prefix that later code still reads (e.g. the payload that is shifted afterwards) would be zeros",
		Configs:  "NP",
		Floor:    map[string]int{"N": 5, "P": 5},
		Controls: 1,
		Run:      runGrowCopy,
	})
}

func sliceBase(v ssa.Value) ssa.Value {
	for i := 0; i < 6; i++ {
		switch x := v.(type) {
		case *ssa.Slice:
			v = x.X
		case *ssa.Phi:
			return x
		default:
			return v
		}
	}
	return v
}

func runGrowCopy(rc *RuleCtx) {
	w := rc.W
	for _, fn := range w.Funcs {
		for _, b := range fn.Blocks {
			for _, ins := range b.Instrs {
				c, ok := ins.(*ssa.Call)
				if !ok {
					continue
				}
				bi, ok := c.Call.Value.(*ssa.Builtin)
				if !ok || bi.Name() != "copy" || len(c.Call.Args) != 2 {
					continue
				}
				dst, src := c.Call.Args[0], c.Call.Args[1]
				mk, ok := dst.(*ssa.MakeSlice)
				if !ok {
					continue
				}
				rc.Examined++
				// does the fresh slice replace the source's base? (φ with a value derived from the same base)
				base := sliceBase(src)
				replaces := false
				for _, r := range *mk.Referrers() {
					if ph, ok := r.(*ssa.Phi); ok {
						for _, e := range ph.Edges {
							if e != ssa.Value(mk) && sliceBase(e) == base {
								replaces = true
							}
						}
					}
				}
				if !replaces {
					rc.ok(fn, "copy(make, …)", c.Pos(), "fresh slice does not replace its source (a private copy)", false)
					continue
				}
				sl, isSlice := src.(*ssa.Slice)
				prefix := isSlice && sl.High != nil
				rc.verdict(!prefix, fn, "grow-copy", c.Pos(), map[bool]string{true: "the whole old buffer is copied into its replacement", false: "the replacement buffer receives only a prefix of the old buffer (old[:k]); the rest of the old contents is lost although later code still reads it through the new slice"}[!prefix], true)
			}
		}
	}
}

package main

import (
	"fmt"
	"go/token"
	"go/types"

	"golang.org/x/tools/go/ssa"
)

// STACKCAP: the explicit stacks of the converters are slices allocated ONCE with a constant length
// (`make([]frame, defaultStkDepth)`) and indexed by a small unsigned stack pointer whose overflow
// test relies on the relation between that constant and the pointer's type (`sp++; if sp == 0`
// needs exactly 2^8 slots for a uint8). The relation is visible in the code: the only stores to
// the field, the type of the index and the constant.
func init() {
	register(&Rule{
		Name:     "STACKCAP",
		Doc:      "for every slice-typed struct field all of whose stores are `make([]T, K)` with one constant K (a fixed-capacity stack): each index expression `f[i]` whose index is (a widening of) a uint8/uint16 value not compared with len(f) in the function has K > max(type of i) — otherwise the deepest legal value of the stack pointer indexes past the stack and the depth limit turns into a runtime panic; and (through DEADCMP) `len(f)` counts as the constant K in limit guards",
		Configs:  "NP",
		Floor:    map[string]int{"N": 4, "P": 4},
		Controls: 1,
		Run:      runStackCap,
	})
}

var fixedLenMemo = map[*World]map[sfield]int64{}

// fixedLenFields: slice fields whose every store in the program is a MakeSlice with one constant length.
func fixedLenFields(w *World) map[sfield]int64 {
	if m, ok := fixedLenMemo[w]; ok {
		return m
	}
	val := map[sfield]int64{}
	dirty := map[sfield]bool{}
	for _, fn := range w.Funcs {
		for _, b := range fn.Blocks {
			for _, ins := range b.Instrs {
				st, ok := ins.(*ssa.Store)
				if !ok {
					continue
				}
				t, n, ok := fieldNameOf(st.Addr)
				if !ok {
					continue
				}
				if _, isSlice := st.Val.Type().Underlying().(*types.Slice); !isSlice {
					continue
				}
				f := sfield{typeShort(t), n}
				k, isC := constMakeLen(st.Val)
				if !isC {
					dirty[f] = true
					continue
				}
				if old, seen := val[f]; seen && old != k {
					dirty[f] = true
				}
				val[f] = k
			}
		}
	}
	for f := range dirty {
		delete(val, f)
	}
	fixedLenMemo[w] = val
	return val
}

// constMakeLen: the length of `make([]T, K)` with constant K. go/ssa lowers a constant-size make to
// `new [K]T` + `slice t[:K]`; a non-constant one stays a MakeSlice.
func constMakeLen(v ssa.Value) (int64, bool) {
	switch x := v.(type) {
	case *ssa.MakeSlice:
		return constInt(x.Len)
	case *ssa.Slice:
		al, ok := x.X.(*ssa.Alloc)
		if !ok || x.Low != nil {
			return 0, false
		}
		pt, ok := al.Type().Underlying().(*types.Pointer)
		if !ok {
			return 0, false
		}
		arr, ok := pt.Elem().Underlying().(*types.Array)
		if !ok {
			return 0, false
		}
		if x.High == nil {
			return arr.Len(), true
		}
		return constInt(x.High)
	}
	return 0, false
}

// lenOfFixedField: `len(x.f)` of a fixed-length field -> K.
func lenOfFixedField(w *World, v ssa.Value) (int64, bool) {
	c, ok := v.(*ssa.Call)
	if !ok {
		return 0, false
	}
	b, ok := c.Call.Value.(*ssa.Builtin)
	if !ok || b.Name() != "len" || len(c.Call.Args) != 1 {
		return 0, false
	}
	f, ok := loadedField(c.Call.Args[0])
	if !ok {
		return 0, false
	}
	k, ok := fixedLenFields(w)[f]
	return k, ok
}

func runStackCap(rc *RuleCtx) {
	w := rc.W
	fixed := fixedLenFields(w)
	for _, fn := range w.Funcs {
		if fn.Blocks == nil {
			continue
		}
		// does the function compare anything with len(field)? then it guards the index itself
		guards := map[sfield]bool{}
		for _, b := range fn.Blocks {
			for _, ins := range b.Instrs {
				bo, ok := ins.(*ssa.BinOp)
				if !ok {
					continue
				}
				for _, o := range []ssa.Value{bo.X, bo.Y} {
					if c, ok := o.(*ssa.Call); ok {
						if bi, ok := c.Call.Value.(*ssa.Builtin); ok && bi.Name() == "len" && len(c.Call.Args) == 1 {
							if f, ok := loadedField(c.Call.Args[0]); ok {
								guards[f] = true
							}
						}
					}
				}
			}
		}
		seen := map[sfield]bool{}
		for _, b := range fn.Blocks {
			for _, ins := range b.Instrs {
				ia, ok := ins.(*ssa.IndexAddr)
				if !ok {
					continue
				}
				f, ok := loadedField(ia.X)
				if !ok {
					continue
				}
				k, ok := fixed[f]
				if !ok || guards[f] || seen[f] {
					continue
				}
				idx := ia.Index
				var from *types.Basic
				if fb, ok := widenedFrom(idx); ok {
					from = fb
				} else if bt, ok := idx.Type().Underlying().(*types.Basic); ok {
					from = bt
				}
				if from == nil {
					continue
				}
				_, hi, ok := basicRange(from)
				if !ok || from.Info()&types.IsUnsigned == 0 || hi > 70000 {
					continue
				}
				seen[f] = true
				rc.Examined++
				good := float64(k) > hi
				rc.verdict(good, fn, "index "+f.name+"["+from.Name()+"]", ia.Pos(), map[bool]string{
					true:  fmt.Sprintf("the stack %s.%s always has %d slots, more than the largest %s", f.owner, f.name, k, from.Name()),
					false: fmt.Sprintf("the stack %s.%s always has %d slots but is indexed by an unguarded %s (up to %.0f): the deepest value of the stack pointer indexes past the stack, so the depth limit surfaces as a runtime panic", f.owner, f.name, k, from.Name(), hi)}[good], true)
			}
		}
	}
	_ = token.NoPos
}

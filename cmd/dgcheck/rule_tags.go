package main

import (
	"fmt"
	"go/ast"
	"go/constant"
	"go/token"
	"go/types"
	"strings"

	"golang.org/x/tools/go/ssa"
)

func init() {
	register(&Rule{
		Name:     "TAGTYPE",
		Doc:      "in every raw protobuf tag construction `(n << 3) | w` the wire-type operand w converts from an expression whose static type is proto.WireType — not proto.Type / ProtoKind, whose numbering is different (STRING = 9 would yield wire type 1 and corrupt the field number)",
		Configs:  "NP",
		Floor:    map[string]int{"N": 5, "P": 5},
		Controls: 1,
		Run:      runTagType,
	})
	register(&Rule{
		Name: "MAPTAG",
		Doc: "in every map-entry tag (raw `(n<<3)|w` or BinaryProtocol.AppendTag(n, w) with constant n) whose wire type derives from the map's key descriptor (TypeDescriptor.Key()) the field number is 1, and 2 when it derives from the value descriptor (Elem()): " +
			"protobuf map entries are messages with key = 1, value = 2",
		Configs:  "NP",
		Floor:    map[string]int{"N": 6, "P": 6},
		Controls: 1,
		Run:      runMapTag,
	})
}

func runTagType(rc *RuleCtx) {
	w := rc.W
	for _, p := range w.Pkgs {
		rel := strings.TrimPrefix(strings.TrimPrefix(p.PkgPath, modPath), "/")
		if strings.HasPrefix(rel, "internal/native") {
			continue
		}
		for _, f := range p.Syntax {
			for _, d := range f.Decls {
				fd, ok := d.(*ast.FuncDecl)
				if !ok || fd.Body == nil {
					continue
				}
				name := declName(rel, fd)
				ast.Inspect(fd.Body, func(nd ast.Node) bool {
					be, ok := nd.(*ast.BinaryExpr)
					if !ok || be.Op != token.OR {
						return true
					}
					sh, ok := ast.Unparen(be.X).(*ast.BinaryExpr)
					if !ok || sh.Op != token.SHL {
						return true
					}
					if tv := p.TypesInfo.Types[sh.Y]; tv.Value == nil || constant.Compare(tv.Value, token.NEQ, constant.MakeInt64(3)) {
						return true
					}
					rc.Examined++
					inner := ast.Unparen(be.Y)
					for {
						ce, ok := inner.(*ast.CallExpr)
						if !ok || len(ce.Args) != 1 {
							break
						}
						if tv := p.TypesInfo.Types[ce.Fun]; !tv.IsType() {
							break
						}
						inner = ast.Unparen(ce.Args[0])
					}
					// strip `& 7`
					if b2, ok := inner.(*ast.BinaryExpr); ok && b2.Op == token.AND {
						inner = ast.Unparen(b2.X)
					}
					it := p.TypesInfo.TypeOf(inner)
					good := it != nil && typeShort(it) == "proto.WireType"
					ts := "?"
					if it != nil {
						ts = typeShort(it)
					}
					rc.add(nil, name, "tag-construction", be.Pos(), map[bool]string{true: "discharged", false: "violated"}[good],
						fmt.Sprintf("wire-type operand `%s` has static type %s", types.ExprString(be.Y), ts), true)
					return true
				})
			}
		}
	}
}

// keyOrElem: does the backward slice of v contain a TypeDescriptor.Key() / Elem() call?
func keyOrElem(v ssa.Value, seen map[ssa.Value]bool, depth int) (key, elem bool) {
	if v == nil || seen[v] || depth > 10 {
		return
	}
	seen[v] = true
	merge := func(k, e bool) {
		key = key || k
		elem = elem || e
	}
	switch x := v.(type) {
	case *ssa.Call:
		if cal := x.Call.StaticCallee(); cal != nil && cal.Signature.Recv() != nil && isNamed(cal.Signature.Recv().Type(), "proto", "TypeDescriptor") {
			switch cal.Name() {
			case "Key":
				return true, false
			case "Elem":
				return false, true
			}
		}
		for _, a := range x.Call.Args {
			merge(keyOrElem(a, seen, depth+1))
		}
	case *ssa.Convert:
		merge(keyOrElem(x.X, seen, depth+1))
	case *ssa.ChangeType:
		merge(keyOrElem(x.X, seen, depth+1))
	case *ssa.BinOp:
		merge(keyOrElem(x.X, seen, depth+1))
		merge(keyOrElem(x.Y, seen, depth+1))
	case *ssa.Lookup:
		merge(keyOrElem(x.Index, seen, depth+1))
	case *ssa.Phi:
		for _, e := range x.Edges {
			merge(keyOrElem(e, seen, depth+1))
		}
	case *ssa.UnOp:
		merge(keyOrElem(x.X, seen, depth+1))
	case *ssa.FieldAddr:
		merge(keyOrElem(x.X, seen, depth+1))
	case *ssa.Extract:
		merge(keyOrElem(x.Tuple, seen, depth+1))
	}
	return
}

func runMapTag(rc *RuleCtx) {
	w := rc.W
	appendTag := w.Fn("(*proto/binary.BinaryProtocol).AppendTag")
	check := func(fn *ssa.Function, num int64, wv ssa.Value, pos token.Pos) {
		key, elem := keyOrElem(wv, map[ssa.Value]bool{}, 0)
		if key == elem { // neither, or ambiguous
			return
		}
		rc.Examined++
		want := int64(1)
		role := "key"
		if elem {
			want, role = 2, "value"
		}
		rc.verdict(num == want, fn, "map-entry-tag("+role+")", pos, fmt.Sprintf("wire type comes from the map's %s descriptor, field number is %d (must be %d)", role, num, want), true)
	}
	for _, fn := range w.Funcs {
		for _, b := range fn.Blocks {
			for _, ins := range b.Instrs {
				switch x := ins.(type) {
				case *ssa.BinOp:
					if x.Op != token.OR {
						continue
					}
					for _, pair := range [][2]ssa.Value{{x.X, x.Y}, {x.Y, x.X}} {
						var num int64
						okNum := false
						if sh, ok := pair[0].(*ssa.BinOp); ok && sh.Op == token.SHL {
							if s, ok := constInt(sh.Y); ok && s == 3 {
								if n, ok := constInt(sh.X); ok {
									num, okNum = n, true
								}
							}
						} else if c, ok := constInt(pair[0]); ok && c%8 == 0 && c > 0 && c <= 16 {
							// constant-folded (1<<3) / (2<<3)
							num, okNum = c/8, true
						}
						if okNum {
							check(fn, num, pair[1], x.Pos())
							break
						}
					}
				case *ssa.Call:
					if x.Call.StaticCallee() == appendTag && len(x.Call.Args) == 3 {
						if n, ok := constInt(x.Call.Args[1]); ok {
							check(fn, n, x.Call.Args[2], x.Pos())
						}
					}
				}
			}
		}
	}
}

package main

import (
	"go/token"
	"strings"

	"golang.org/x/tools/go/ssa"
)

// COUNTFACTOR: the byte length of `count` fixed-width elements is count × width, and of `count`
// key/value pairs count × (kwidth + vwidth). In the expanded sum of products every term therefore
// contains the count. A term without it — `count*ksz + vsz`, the parentheses lost — is right for
// exactly one element and moves the cursor to the wrong place for every other count.
func init() {
	register(&Rule{
		Name:     "COUNTFACTOR",
		Doc:      "for every cursor advance (skipn / next / next_nopanic) whose byte count is computed from a container's element count (a value decoded from the header: big-endian Uint32/Uint16 of the input, or the size result of Read{List,Set,Map}Begin): after expanding the expression into a sum of products, every term has the count as a factor",
		Configs:  "NP",
		Floor:    map[string]int{"N": 2, "P": 2},
		Controls: 1,
		Run:      runCountFactor,
	})
}

func isCountValue(v ssa.Value, d int) bool {
	if v == nil || d > 5 {
		return false
	}
	switch x := v.(type) {
	case *ssa.Convert:
		return isCountValue(x.X, d+1)
	case *ssa.Call:
		if cal := x.Call.StaticCallee(); cal != nil && cal.Pkg != nil && cal.Pkg.Pkg.Path() == "encoding/binary" && (cal.Name() == "Uint32" || cal.Name() == "Uint16") {
			return true
		}
	case *ssa.Extract:
		return headerCount(x, 0)
	}
	return headerCount(v, 0)
}

// terms expands v into a sum of products; each term is the list of its factors.
func sumOfProducts(v ssa.Value, d int) [][]ssa.Value {
	if d > 6 {
		return [][]ssa.Value{{v}}
	}
	switch x := v.(type) {
	case *ssa.Convert:
		return sumOfProducts(x.X, d+1)
	case *ssa.BinOp:
		switch x.Op {
		case token.ADD:
			return append(sumOfProducts(x.X, d+1), sumOfProducts(x.Y, d+1)...)
		case token.MUL:
			var out [][]ssa.Value
			for _, a := range sumOfProducts(x.X, d+1) {
				for _, b := range sumOfProducts(x.Y, d+1) {
					t := append(append([]ssa.Value{}, a...), b...)
					out = append(out, t)
				}
			}
			return out
		}
	}
	return [][]ssa.Value{{v}}
}

func runCountFactor(rc *RuleCtx) {
	for _, fn := range rc.W.Funcs {
		if fn.Blocks == nil {
			continue
		}
		for _, b := range fn.Blocks {
			for _, ins := range b.Instrs {
				c, ok := ins.(ssa.CallInstruction)
				if !ok {
					continue
				}
				cal := c.Common().StaticCallee()
				if cal == nil || !(cal.Name() == "skipn" || cal.Name() == "next" || cal.Name() == "next_nopanic" || strings.HasPrefix(cal.Name(), "zzControlSkipN")) {
					continue
				}
				args := c.Common().Args
				if len(args) < 2 {
					continue
				}
				ts := sumOfProducts(args[len(args)-1], 0)
				with, without := 0, 0
				for _, t := range ts {
					has := false
					for _, f := range t {
						if isCountValue(f, 0) {
							has = true
						}
					}
					if has {
						with++
					} else {
						without++
					}
				}
				if with == 0 {
					continue
				}
				rc.Examined++
				good := without == 0
				rc.verdict(good, fn, cal.Name()+"(count × width)", ins.Pos(), map[bool]string{
					true:  "every term of the byte count carries the element count",
					false: "the byte count mixes terms with and without the element count (a sum like count*k + v instead of count*(k+v)): right for one element only"}[good], true)
			}
		}
	}
}

package main

import (
	"go/token"
	"go/types"
	"strings"

	"golang.org/x/tools/go/ssa"
)

// COUNTFACTOR: the byte length of `count` fixed-width elements is count × width, and of `count`
// key/value pairs count × (kwidth + vwidth). In the expanded sum of products every term therefore
// contains the count. A term without it — `count*ksz + vsz`, the parentheses lost — is right for
// exactly one element and moves the cursor to the wrong place for every other count.
func init() {
	register(&Rule{
		Name:     "COUNTFACTOR",
		Doc:      "for every cursor advance (skipn / next / next_nopanic) whose byte count is computed from a container's element count (a value decoded from the header: big-endian Uint32/Uint16 of the input, or the size result of Read{List,Set,Map}Begin): after expanding the expression into a sum of products, every term has the count as a factor",
		Configs:  "NP",
		Floor:    map[string]int{"N": 2, "P": 2},
		Controls: 1,
		Run:      runCountFactor,
	})
}

func isCountValue(v ssa.Value, d int) bool {
	if v == nil || d > 5 {
		return false
	}
	switch x := v.(type) {
	case *ssa.Convert:
		return isCountValue(x.X, d+1)
	case *ssa.Call:
		if cal := x.Call.StaticCallee(); cal != nil && cal.Pkg != nil && cal.Pkg.Pkg.Path() == "encoding/binary" && (cal.Name() == "Uint32" || cal.Name() == "Uint16") {
			return true
		}
	case *ssa.Extract:
		return headerCount(x, 0)
	}
	return headerCount(v, 0)
}

// terms expands v into a sum of products; each term is the list of its factors.
func sumOfProducts(v ssa.Value, d int) [][]ssa.Value {
	if d > 6 {
		return [][]ssa.Value{{v}}
	}
	switch x := v.(type) {
	case *ssa.Convert:
		return sumOfProducts(x.X, d+1)
	case *ssa.BinOp:
		switch x.Op {
		case token.ADD:
			return append(sumOfProducts(x.X, d+1), sumOfProducts(x.Y, d+1)...)
		case token.MUL:
			var out [][]ssa.Value
			for _, a := range sumOfProducts(x.X, d+1) {
				for _, b := range sumOfProducts(x.Y, d+1) {
					t := append(append([]ssa.Value{}, a...), b...)
					out = append(out, t)
				}
			}
			return out
		}
	}
	return [][]ssa.Value{{v}}
}

func runCountFactor(rc *RuleCtx) {
	for _, fn := range rc.W.Funcs {
		if fn.Blocks == nil {
			continue
		}
		for _, b := range fn.Blocks {
			for _, ins := range b.Instrs {
				c, ok := ins.(ssa.CallInstruction)
				if !ok {
					continue
				}
				cal := c.Common().StaticCallee()
				if cal == nil || !(cal.Name() == "skipn" || cal.Name() == "next" || cal.Name() == "next_nopanic" || strings.HasPrefix(cal.Name(), "zzControlSkipN")) {
					continue
				}
				args := c.Common().Args
				if len(args) < 2 {
					continue
				}
				ts := sumOfProducts(args[len(args)-1], 0)
				with, without := 0, 0
				for _, t := range ts {
					has := false
					for _, f := range t {
						if isCountValue(f, 0) {
							has = true
						}
					}
					if has {
						with++
					} else {
						without++
					}
				}
				if with == 0 {
					continue
				}
				rc.Examined++
				good := without == 0
				rc.verdict(good, fn, cal.Name()+"(count × width)", ins.Pos(), map[bool]string{
					true:  "every term of the byte count carries the element count",
					false: "the byte count mixes terms with and without the element count (a sum like count*k + v instead of count*(k+v)): right for one element only"}[good], true)
			}
		}
	}
}

// COUNTSIGN: the same advances, looked at for the sign of the count.
func init() {
	register(&Rule{
		Name:     "COUNTSIGN",
		Doc:      "an element count decoded in place from the input (big-endian Uint32 converted to a signed integer) is tested for being negative BEFORE it is multiplied into a cursor advance: every skipn / next whose byte count has such a count as a factor is control-dependent on the `count < 0` test (false edge) of that very value. skipn(n) only checks n against the bytes left, which a negative n passes: the cursor moves backwards (count -1: the same list is skipped forever; count -2^31: the cursor goes negative and the next slice expression panics)",
		Configs:  "NP",
		Floor:    map[string]int{"N": 3, "P": 3},
		Controls: 1,
		Run:      runCountSign,
	})
}

func runCountSign(rc *RuleCtx) {
	for _, fn := range rc.W.Funcs {
		if fn.Blocks == nil {
			continue
		}
		for _, b := range fn.Blocks {
			for _, ins := range b.Instrs {
				c, ok := ins.(ssa.CallInstruction)
				if !ok {
					continue
				}
				cal := c.Common().StaticCallee()
				if cal == nil || !(cal.Name() == "skipn" || cal.Name() == "next" || cal.Name() == "next_nopanic" || strings.HasPrefix(cal.Name(), "zzControlSkipN")) {
					continue
				}
				args := c.Common().Args
				if len(args) < 2 {
					continue
				}
				for _, t := range sumOfProducts(args[len(args)-1], 0) {
					if len(t) < 2 {
						continue
					}
					for _, f := range t {
						// the chain of conversions from the factor down to the decoding call
						var chain []ssa.Value
						v := f
						decoded := false
						for i := 0; i < 5; i++ {
							chain = append(chain, v)
							cv, ok := v.(*ssa.Convert)
							if !ok {
								if call, ok := v.(*ssa.Call); ok {
									if k := call.Call.StaticCallee(); k != nil && k.Pkg != nil && k.Pkg.Pkg.Path() == "encoding/binary" && k.Name() == "Uint32" {
										decoded = true
									}
								}
								break
							}
							v = cv.X
						}
						if !decoded {
							continue
						}
						rc.Examined++
						good := false
						for _, cd := range controllingIfs(b) {
							k, neg := condKey(cd.cond)
							bo, ok := k.(*ssa.BinOp)
							if !ok {
								continue
							}
							zero, isC := constInt(bo.Y)
							if !isC || zero != 0 {
								continue
							}
							onChain := false
							x := bo.X
							for {
								cvx, ok := x.(*ssa.Convert)
								if !ok {
									break
								}
								x = cvx.X
							}
							for _, cv := range chain {
								if bo.X == cv || x == cv {
									onChain = true
								}
							}
							// the test has to look at a SIGNED view of the count
							if bt, ok := bo.X.Type().Underlying().(*types.Basic); !ok || bt.Info()&types.IsUnsigned != 0 {
								onChain = false
							}
							if !onChain {
								continue
							}
							truth := cd.val != neg
							if (bo.Op == token.LSS && !truth) || (bo.Op == token.GEQ && truth) {
								good = true
							}
						}
						rc.verdict(good, fn, cal.Name()+"(count × width) sign", ins.Pos(), map[bool]string{
							true:  "the advance runs only after the count was found non-negative",
							false: "the count decoded from the input is multiplied into the advance without a preceding `count < 0` test: a negative count moves the cursor backwards (endless loop) or below zero (panic)"}[good], true)
					}
				}
			}
		}
	}
}

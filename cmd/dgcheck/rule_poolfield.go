package main

import (
	"go/token"
	"sort"

	"golang.org/x/tools/go/ssa"
)

// POOLFIELD: ownership of a pooled object that lives in a struct field. If some function hands the
// object's buffer to its caller (`return self.p.RawBuf()`), the object has been given away with
// it: nobody may return that field's object to its pool any more, or the bytes the caller holds
// are overwritten by whoever gets the object next. (POOLESCAPE decides the same for pooled objects
// held in local variables; this is the field-level counterpart across functions.)
func init() {
	register(&Rule{
		Name:     "POOLFIELD",
		Doc:      "for every struct field that holds a pooled object (an argument type of a discovered pool putter) and whose buffer some function returns to its caller (a result derived from a load of the field through RawBuf/Bytes/field/slice steps), no function passes a load of that same field — or a local object it has stored into that field — to a pool putter",
		Configs:  "NP",
		Floor:    map[string]int{"N": 1, "P": 1},
		Controls: 1,
		Run:      runPoolField,
	})
}

func runPoolField(rc *RuleCtx) {
	w := rc.W
	_, putters := poolSummaries(w)
	pooledTypes := map[string]bool{}
	for f, idx := range putters {
		var ps []*ssa.Parameter = f.Params
		if idx < len(ps) {
			pooledTypes[typeShort(ps[idx].Type())] = true
		}
	}
	rc.Stats["pooled_types"] = len(pooledTypes)
	type fkey struct{ owner, field string }
	fieldLoad := func(v ssa.Value) (fkey, bool) {
		u, ok := v.(*ssa.UnOp)
		if !ok || u.Op != token.MUL {
			return fkey{}, false
		}
		t, n, ok := fieldNameOf(u.X)
		if !ok || !pooledTypes[typeShort(u.Type())] {
			return fkey{}, false
		}
		return fkey{typeShort(t), n}, true
	}
	// storedIntoField: the field (of a pooled type) this function stores v into, if any
	storedIntoField := func(fn *ssa.Function, v ssa.Value) (fkey, bool) {
		if v.Referrers() == nil || !pooledTypes[typeShort(v.Type())] {
			return fkey{}, false
		}
		for _, r := range *v.Referrers() {
			if st, ok := r.(*ssa.Store); ok && st.Val == v {
				if t, n, ok := fieldNameOf(st.Addr); ok {
					return fkey{typeShort(t), n}, true
				}
			}
		}
		return fkey{}, false
	}
	handed := map[fkey]ssa.Instruction{}
	put := map[fkey][]ssa.Instruction{}
	putFn := map[ssa.Instruction]*ssa.Function{}
	for _, fn := range w.Funcs {
		if fn.Blocks == nil {
			continue
		}
		for _, b := range fn.Blocks {
			for _, ins := range b.Instrs {
				// putter(self.f)
				if c, ok := ins.(ssa.CallInstruction); ok {
					if cal := c.Common().StaticCallee(); cal != nil {
						if idx, ok := putters[cal]; ok && idx < len(c.Common().Args) {
							if k, ok := fieldLoad(c.Common().Args[idx]); ok {
								put[k] = append(put[k], ins)
								putFn[ins] = fn
							} else if k, ok := storedIntoField(fn, c.Common().Args[idx]); ok {
								// the same object under its local name: `p := get(); x.f = p; …; put(p)`
								put[k] = append(put[k], ins)
								putFn[ins] = fn
							}
						}
					}
				}
				// results derived from a field load
				ld, ok := ins.(*ssa.UnOp)
				if !ok {
					continue
				}
				k, ok := fieldLoad(ld)
				if !ok {
					continue
				}
				derived := map[ssa.Value]bool{ld: true}
				work := []ssa.Value{ld}
				for len(work) > 0 {
					v := work[len(work)-1]
					work = work[:len(work)-1]
					if v.Referrers() == nil {
						continue
					}
					for _, r := range *v.Referrers() {
						var nv ssa.Value
						switch u := r.(type) {
						case *ssa.FieldAddr:
							nv = u
						case *ssa.Field:
							nv = u
						case *ssa.UnOp:
							nv = u
						case *ssa.Slice:
							nv = u
						case *ssa.Phi:
							nv = u
						case *ssa.Call:
							if cal := u.Call.StaticCallee(); cal != nil && len(u.Call.Args) > 0 && u.Call.Args[0] == v && (cal.Name() == "RawBuf" || cal.Name() == "Bytes") {
								nv = u
							}
						case *ssa.Return:
							if v != ld && aliasType(v.Type()) {
								if _, seen := handed[k]; !seen {
									handed[k] = r
								}
							}
						}
						if nv != nil && !derived[nv] {
							derived[nv] = true
							work = append(work, nv)
						}
					}
				}
			}
		}
	}
	var keys []fkey
	for k := range handed {
		keys = append(keys, k)
	}
	sort.Slice(keys, func(i, j int) bool { return keys[i].owner+keys[i].field < keys[j].owner+keys[j].field })
	for _, k := range keys {
		// only fields whose type is an argument type of a putter are pooled objects
		rc.Examined++
		h := handed[k]
		hfn := h.Parent()
		if len(put[k]) == 0 {
			rc.ok(hfn, "field "+k.owner+"."+k.field, h.Pos(), "the field's buffer is handed to the caller and the field's object is never returned to a pool", true)
			continue
		}
		for _, p := range put[k] {
			rc.bad(putFn[p], "field "+k.owner+"."+k.field, p.Pos(), "the object in "+k.owner+"."+k.field+" is returned to its pool here although "+shortName(hfn)+" hands its buffer to the caller ("+w.relPos(h.Pos())+"): the caller's bytes are overwritten by the next user of the pooled object")
		}
	}
}

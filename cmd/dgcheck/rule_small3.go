package main

import (
	"go/ast"
	"go/printer"
	"go/token"
	"go/types"
	"strings"

	"golang.org/x/tools/go/ssa"
)

func init() {
	register(&Rule{
		Name:     "COPYZERO",
		Doc:      "the destination of a `copy(dst, src)` is never a slice that was just made with length 0 (`make([]T, 0, n)`): copy transfers min(len(dst), len(src)) elements, so nothing is copied and the following code works on an empty slice (index out of range, or silently no data)",
		Configs:  "NP",
		Floor:    map[string]int{"N": 10, "P": 10},
		Controls: 1,
		Run:      runCopyZero,
	})
	register(&Rule{
		Name:     "RESULTUSED",
		Doc:      "the result of a function that returns the (possibly re-allocated) buffer it was given — a function with a []byte first parameter and a []byte result that reaches an append / make in its body (binary.FinishSpeculativeLength, protowire Append*/BinaryEncoder.Encode*) — is never discarded: when the buffer had to grow, the caller's slice header is stale and the written bytes are lost",
		Configs:  "NP",
		Floor:    map[string]int{"N": 30, "P": 30},
		Controls: 1,
		Run:      runResultUsed,
	})
	register(&Rule{
		Name:     "DEPTHBUDGET",
		Doc:      "a recursion budget — an int parameter that a function passes to its own recursive calls as `param - 1` — is passed as exactly that at EVERY recursive call: it is not decremented in place (`maxDepth--` inside an element loop charges one level per element, so a flat list of 1023 structs exceeds the depth limit)",
		Configs:  "NP",
		Floor:    map[string]int{"N": 3, "P": 3},
		Controls: 1,
		Run:      runDepthBudget,
	})
}

func runCopyZero(rc *RuleCtx) {
	for _, fn := range rc.W.Funcs {
		for _, b := range fn.Blocks {
			for _, ins := range b.Instrs {
				c, ok := ins.(*ssa.Call)
				if !ok {
					continue
				}
				bi, ok := c.Call.Value.(*ssa.Builtin)
				if !ok || bi.Name() != "copy" || len(c.Call.Args) != 2 {
					continue
				}
				rc.Examined++
				dst := c.Call.Args[0]
				bad := false
				if ms, ok := dst.(*ssa.MakeSlice); ok {
					if k, isC := constInt(ms.Len); isC && k == 0 {
						bad = true
					}
				}
				if sl, ok := dst.(*ssa.Slice); ok {
					// make with constant cap lowers to new [N]T + slice [:0]
					if _, isAlloc := sl.X.(*ssa.Alloc); isAlloc && sl.Low == nil {
						if k, isC := constInt(sl.High); isC && k == 0 {
							bad = true
						}
					}
				}
				// the destination is loaded from a field that a reaching store has just set to a zero-length make
				if f, ok := loadedField(dst); ok && !bad {
					isZeroMake := func(v ssa.Value) bool {
						if ms, ok := v.(*ssa.MakeSlice); ok {
							k, isC := constInt(ms.Len)
							return isC && k == 0
						}
						return false
					}
					stores := map[*ssa.BasicBlock][]*ssa.Store{}
					for _, ob := range fn.Blocks {
						for _, oi := range ob.Instrs {
							if st, ok := oi.(*ssa.Store); ok {
								if t, n, ok := fieldNameOf(st.Addr); ok && (sfield{typeShort(t), n}) == f {
									stores[ob] = append(stores[ob], st)
								}
							}
						}
					}
					for ob, sts := range stores {
						last := sts[len(sts)-1]
						if !isZeroMake(last.Val) || ob == b {
							continue
						}
						// does the store reach the copy without another store to the field?
						seen := map[*ssa.BasicBlock]bool{}
						var reach func(x *ssa.BasicBlock) bool
						reach = func(x *ssa.BasicBlock) bool {
							if x == b {
								return true
							}
							if seen[x] || (x != ob && len(stores[x]) > 0) {
								return false
							}
							seen[x] = true
							for _, sx := range x.Succs {
								if reach(sx) {
									return true
								}
							}
							return false
						}
						if reach(ob) {
							bad = true
						}
					}
				}
				rc.verdict(!bad, fn, "copy destination", c.Pos(), map[bool]string{
					true:  "the destination is not a freshly made zero-length slice",
					false: "copy into a slice just made with length 0: nothing is copied (copy moves min(len(dst), len(src)) elements)"}[!bad], false)
			}
		}
	}
}

var bufferReturnerMemo = map[*ssa.Function]int{}

// returnsGivenBuffer: []byte first (non-receiver) parameter, []byte result, body reaches append/make.
func returnsGivenBuffer(fn *ssa.Function, depth int) bool {
	if fn == nil || fn.Blocks == nil {
		return false
	}
	if v, ok := bufferReturnerMemo[fn]; ok {
		return v == 1
	}
	bufferReturnerMemo[fn] = 0
	isBytes := func(t types.Type) bool {
		s, ok := t.Underlying().(*types.Slice)
		if !ok {
			return false
		}
		b, ok := s.Elem().Underlying().(*types.Basic)
		return ok && b.Kind() == types.Byte
	}
	sig := fn.Signature
	if sig.Results().Len() != 1 || !isBytes(sig.Results().At(0).Type()) || sig.Params().Len() == 0 || !isBytes(sig.Params().At(0).Type()) {
		return false
	}
	grows := false
	for _, b := range fn.Blocks {
		for _, ins := range b.Instrs {
			switch x := ins.(type) {
			case *ssa.MakeSlice:
				grows = true
			case *ssa.Call:
				if bi, ok := x.Call.Value.(*ssa.Builtin); ok && bi.Name() == "append" {
					grows = true
				} else if depth < 2 && returnsGivenBuffer(x.Call.StaticCallee(), depth+1) {
					grows = true
				}
			}
		}
	}
	if grows {
		bufferReturnerMemo[fn] = 1
	}
	return grows
}

func runResultUsed(rc *RuleCtx) {
	for _, fn := range rc.W.Funcs {
		for _, b := range fn.Blocks {
			for _, ins := range b.Instrs {
				c, ok := ins.(*ssa.Call)
				if !ok {
					continue
				}
				cal := c.Call.StaticCallee()
				if cal == nil || pkgRel(cal) == "" || !returnsGivenBuffer(cal, 0) {
					continue
				}
				rc.Examined++
				used := c.Referrers() != nil && len(*c.Referrers()) > 0
				if used {
					// only debug references do not count
					used = false
					for _, r := range *c.Referrers() {
						if _, isDbg := r.(*ssa.DebugRef); !isDbg {
							used = true
						}
					}
				}
				rc.verdict(used, fn, "result of "+cal.Name(), c.Pos(), map[bool]string{
					true:  "the returned buffer is used",
					false: cal.Name() + " returns the buffer it may have re-allocated, and the result is dropped: when the buffer had to grow (or was shifted into a new one) the caller keeps the stale slice and the bytes are lost"}[used], false)
			}
		}
	}
}

func runDepthBudget(rc *RuleCtx) {
	for _, fn := range rc.W.Funcs {
		if fn.Blocks == nil || pkgRel(fn) == "" {
			continue
		}
		// recursive calls
		type rec struct {
			call *ssa.Call
		}
		var recs []*ssa.Call
		for _, b := range fn.Blocks {
			for _, ins := range b.Instrs {
				if c, ok := ins.(*ssa.Call); ok && c.Call.StaticCallee() == fn {
					recs = append(recs, c)
				}
			}
		}
		if len(recs) == 0 {
			continue
		}
		// budget parameters: some recursive call passes param-1 at the parameter's own position
		for pi, p := range fn.Params {
			bt, ok := p.Type().Underlying().(*types.Basic)
			if !ok || bt.Info()&types.IsInteger == 0 {
				continue
			}
			isBudget := false
			for _, c := range recs {
				if pi < len(c.Call.Args) {
					if bo, ok := c.Call.Args[pi].(*ssa.BinOp); ok && bo.Op == token.SUB && bo.X == ssa.Value(p) {
						if k, isC := constInt(bo.Y); isC && k == 1 {
							isBudget = true
						}
					}
				}
			}
			if !isBudget {
				continue
			}
			for _, c := range recs {
				if pi >= len(c.Call.Args) {
					continue
				}
				rc.Examined++
				good := false
				if bo, ok := c.Call.Args[pi].(*ssa.BinOp); ok && bo.Op == token.SUB && bo.X == ssa.Value(p) {
					if k, isC := constInt(bo.Y); isC && k >= 1 {
						good = true
					}
				}
				rc.verdict(good, fn, "recursive call passes "+p.Name(), c.Pos(), map[bool]string{
					true:  "the recursive call receives the caller's budget minus one",
					false: "the recursive call does not receive `" + p.Name() + " - 1` of the function's own parameter (the budget is modified in place or passed on unchanged): the depth limit no longer counts nesting levels"}[good], true)
			}
		}
	}
}

func init() {
	register(&Rule{
		Name:     "NEXTSTOREBACK",
		Doc:      "a method that refills its receiver's children in a working copy taken as `con := self.Next[:0]` stores the copy back (`self.Next = con`) on EVERY path to a successful return: an early `return nil` (an `empty container` shortcut) leaves the receiver with the children of whatever it held before",
		Configs:  "NP",
		Floor:    map[string]int{"N": 2, "P": 2},
		Controls: 1,
		Run:      runNextStoreBack,
	})
	register(&Rule{
		Name:     "TRUNCALLPATHS",
		Doc:      "a function that empties a cache held in a struct field by re-slicing it to zero (`x.F = x.F[:0]`) does so on every path to a successful return that reads the cache (loads x.F): a success exit that skips the truncation leaves the ids of this round in the cache, and the next round replays them",
		Configs:  "NP",
		Floor:    map[string]int{"N": 1, "P": 1},
		Controls: 1,
		Run:      runTruncAllPaths,
	})
}

// nilErrorReturn: a return whose error result (last result of type error) is the nil constant.
func nilErrorReturn(fn *ssa.Function, ret *ssa.Return) bool {
	ei := errIndex(fn.Signature)
	if ei < 0 || ei >= len(ret.Results) {
		return fn.Signature.Results().Len() == 0
	}
	return isNilConst(ret.Results[ei])
}

// reachesAvoiding: is some block satisfying `goal` reachable from `from` without entering a block in `avoid`?
func reachesAvoiding(from *ssa.BasicBlock, avoid map[*ssa.BasicBlock]bool, goal func(*ssa.BasicBlock) bool) *ssa.BasicBlock {
	seen := map[*ssa.BasicBlock]bool{}
	var found *ssa.BasicBlock
	var dfs func(b *ssa.BasicBlock)
	dfs = func(b *ssa.BasicBlock) {
		if found != nil || seen[b] || avoid[b] {
			return
		}
		seen[b] = true
		if goal(b) {
			found = b
			return
		}
		for _, s := range b.Succs {
			dfs(s)
		}
	}
	dfs(from)
	return found
}

func runNextStoreBack(rc *RuleCtx) {
	for _, fn := range rc.W.Funcs {
		pr := pkgRel(fn)
		if fn.Blocks == nil || fn.Signature.Recv() == nil || len(fn.Params) == 0 || (pr != "thrift/generic" && pr != "proto/generic") {
			continue
		}
		recv := fn.Params[0]
		takes := false
		stores := map[*ssa.BasicBlock]bool{}
		for _, b := range fn.Blocks {
			for _, ins := range b.Instrs {
				switch x := ins.(type) {
				case *ssa.Slice:
					if ld, ok := x.X.(*ssa.UnOp); ok {
						if fa, ok := ld.X.(*ssa.FieldAddr); ok && fa.X == ssa.Value(recv) {
							if _, n, ok := fieldNameOf(fa); ok && n == "Next" {
								if k, isC := constInt(x.High); isC && k == 0 {
									takes = true
								}
							}
						}
					}
				case *ssa.Store:
					if fa, ok := x.Addr.(*ssa.FieldAddr); ok && fa.X == ssa.Value(recv) {
						if _, n, ok := fieldNameOf(fa); ok && n == "Next" {
							stores[b] = true
						}
					}
				}
			}
		}
		if !takes || len(stores) == 0 {
			continue
		}
		rc.Examined++
		leak := reachesAvoiding(fn.Blocks[0], stores, func(b *ssa.BasicBlock) bool {
			ret, ok := lastInstr(b).(*ssa.Return)
			return ok && nilErrorReturn(fn, ret)
		})
		if leak != nil {
			rc.bad(fn, "self.Next stored back", lastInstr(leak).Pos(), "a successful return is reachable without `self.Next = con`: the receiver keeps the children it held before the refill")
		} else {
			rc.ok(fn, "self.Next stored back", fn.Pos(), "every successful return passes the store of the refilled children", true)
		}
	}
}

func runTruncAllPaths(rc *RuleCtx) {
	for _, fn := range rc.W.Funcs {
		if fn.Blocks == nil || pkgRel(fn) == "" {
			continue
		}
		// truncations x.F = x.F[:0] per field
		trunc := map[sfield]map[*ssa.BasicBlock]bool{}
		var truncPos = map[sfield]token.Pos{}
		for _, b := range fn.Blocks {
			for _, ins := range b.Instrs {
				st, ok := ins.(*ssa.Store)
				if !ok {
					continue
				}
				t, n, ok := fieldNameOf(st.Addr)
				if !ok {
					continue
				}
				sl, ok := st.Val.(*ssa.Slice)
				if !ok || sl.Low != nil {
					continue
				}
				if k, isC := constInt(sl.High); !isC || k != 0 {
					continue
				}
				f := sfield{typeShort(t), n}
				if lf, ok := loadedField(sl.X); !ok || lf != f {
					continue
				}
				if trunc[f] == nil {
					trunc[f] = map[*ssa.BasicBlock]bool{}
				}
				trunc[f][b] = true
				truncPos[f] = st.Pos()
			}
		}
		for f, blocks := range trunc {
			// the function must also READ the cache (other than in the truncation itself)
			reads := false
			for _, b := range fn.Blocks {
				for _, ins := range b.Instrs {
					if v, ok := ins.(ssa.Value); ok {
						if lf, ok := loadedField(v); ok && lf == f && v.Referrers() != nil {
							for _, r := range *v.Referrers() {
								if sl, ok := r.(*ssa.Slice); ok {
									if k, isC := constInt(sl.High); isC && k == 0 {
										continue
									}
								}
								if c, ok := r.(*ssa.Call); ok {
									if bi, ok := c.Call.Value.(*ssa.Builtin); ok && (bi.Name() == "len" || bi.Name() == "cap") {
										continue // asking for the size is not replaying the contents
									}
								}
								if _, isDbg := r.(*ssa.DebugRef); !isDbg {
									reads = true
								}
							}
						}
					}
				}
			}
			if !reads {
				continue
			}
			rc.Examined++
			leak := reachesAvoiding(fn.Blocks[0], blocks, func(b *ssa.BasicBlock) bool {
				ret, ok := lastInstr(b).(*ssa.Return)
				return ok && nilErrorReturn(fn, ret)
			})
			if leak != nil {
				rc.bad(fn, "truncate "+f.name, lastInstr(leak).Pos(), "a successful return is reachable without `"+f.name+" = "+f.name+"[:0]`: what this round put into the cache is replayed by the next round")
			} else {
				rc.ok(fn, "truncate "+f.name, truncPos[f], "every successful return passes the truncation of the cache", true)
			}
		}
	}
}

func init() {
	register(&Rule{
		Name:     "SLOTID",
		Doc:      "in thrift/generic, a by-id fast path — `&self.Next[id]` with the index taken from a thrift.FieldID parameter — uses the slot (returns it, replaces its value) only where the slot is known to be empty (`Path.t == 0`) or to hold that very id (a controlling comparison of the slot's `Path.id()` with the parameter): a tree that was not loaded by id, or that had a child appended, has other fields sitting at those indexes, and an unchecked fast path reads or overwrites the wrong field",
		Configs:  "NP",
		Floor:    map[string]int{"N": 2, "P": 2},
		Controls: 1,
		Run:      runSlotID,
	})
}

func runSlotID(rc *RuleCtx) {
	setters := slotSetters(rc.W)
	for _, fn := range rc.W.Funcs {
		if fn.Blocks == nil || pkgRel(fn) != "thrift/generic" || fn.Signature.Recv() == nil {
			continue
		}
		for _, b := range fn.Blocks {
			for _, ins := range b.Instrs {
				ia, ok := ins.(*ssa.IndexAddr)
				if !ok {
					continue
				}
				f, ok := loadedField(ia.X)
				if !ok || f.name != "Next" {
					continue
				}
				p := paramRoot(ia.Index, 0)
				if p == nil || !strings.HasSuffix(typeShort(p.Type()), "thrift.FieldID") {
					continue
				}
				// uses of the slot
				var uses []ssa.Instruction
				if ia.Referrers() != nil {
					for _, r := range *ia.Referrers() {
						switch x := r.(type) {
						case *ssa.Return:
							uses = append(uses, x)
						case *ssa.Call:
							if cal := x.Call.StaticCallee(); cal != nil && setters[cal] {
								uses = append(uses, x)
							}
						case *ssa.FieldAddr:
							if _, n, ok := fieldNameOf(x); ok && n == "Node" && x.Referrers() != nil {
								for _, rr := range *x.Referrers() {
									if st, ok := rr.(*ssa.Store); ok {
										uses = append(uses, st)
									}
								}
							}
						}
					}
				}
				for _, u := range uses {
					rc.Examined++
					good := false
					for _, cd := range controllingIfs(u.Block()) {
						k, neg := condKey(cd.cond)
						bo, ok := k.(*ssa.BinOp)
						if !ok {
							continue
						}
						truth := cd.val != neg
						isIDCall := func(v ssa.Value) bool {
							for {
								if cv, ok := v.(*ssa.Convert); ok {
									v = cv.X
									continue
								}
								break
							}
							c, ok := v.(*ssa.Call)
							return ok && c.Call.StaticCallee() != nil && c.Call.StaticCallee().Name() == "id"
						}
						if (isIDCall(bo.X) || isIDCall(bo.Y)) && ((bo.Op == token.EQL && truth) || (bo.Op == token.NEQ && !truth)) {
							good = true
						}
						// the empty-slot side of `Path.t != 0`
						if k0, isC := constInt(bo.Y); isC && k0 == 0 {
							if ld, ok := bo.X.(*ssa.UnOp); ok {
								if _, n, ok := fieldNameOf(ld.X); ok && n == "t" {
									if (bo.Op == token.EQL && truth) || (bo.Op == token.NEQ && !truth) {
										good = true
									}
								}
							}
						}
					}
					rc.verdict(good, fn, "by-id slot used", u.Pos(), map[bool]string{
						true:  "the slot is used only where it is empty or holds the requested id",
						false: "the slot at index `id` is used without comparing the id it holds with the requested one: on a tree not loaded by id, or after a child was appended, another field sits there and is returned / overwritten"}[good], true)
				}
			}
		}
	}
}

func init() {
	register(&Rule{
		Name:     "HDRKEEP",
		Doc:      "a *PathNode method of thrift/generic that reads a container header for its own node (ReadListBegin / ReadSetBegin / ReadMapBegin on the node's bytes) records the element (and key) type it read in the node (`self.et`, `self.kt`): under NotScanParentNode the parent node is built bare, and Marshal writes the header from these fields — a list loaded without its element type is marshalled with element type 0",
		Configs:  "NP",
		Floor:    map[string]int{"N": 2, "P": 2},
		Controls: 1,
		Run:      runHdrKeep,
	})
	register(&Rule{
		Name:     "BYTEOPT",
		Doc:      "in conv/t2j, every clause for thrift.I08/BYTE that renders the byte as a JSON number (json.EncodeInt64) consults the ByteAsUint8 option: the value renderer and the map-key renderer must agree on the sign of a byte, or a map<byte,…> key -1 becomes \"255\" next to a value -1",
		Configs:  "NP",
		Floor:    map[string]int{"N": 2, "P": 2},
		Controls: 0,
		Run:      runByteOpt,
	})
}

func runHdrKeep(rc *RuleCtx) {
	for _, fn := range rc.W.Funcs {
		if fn.Blocks == nil || pkgRel(fn) != "thrift/generic" || fn.Signature.Recv() == nil || len(fn.Params) == 0 {
			continue
		}
		if typeShort(derefType(fn.Params[0].Type())) != "thrift/generic.PathNode" {
			continue
		}
		recv := fn.Params[0]
		rootedAtRecv := func(addr ssa.Value) bool {
			for d := 0; d < 4; d++ {
				fa, ok := addr.(*ssa.FieldAddr)
				if !ok {
					return false
				}
				if fa.X == ssa.Value(recv) {
					return true
				}
				addr = fa.X
			}
			return false
		}
		for _, b := range fn.Blocks {
			for _, ins := range b.Instrs {
				c, ok := ins.(*ssa.Call)
				if !ok || c.Call.StaticCallee() == nil || c.Referrers() == nil {
					continue
				}
				var typeIdx []int
				switch c.Call.StaticCallee().Name() {
				case "ReadListBegin", "ReadSetBegin":
					typeIdx = []int{0}
				case "ReadMapBegin":
					typeIdx = []int{0, 1}
				default:
					continue
				}
				for _, ti := range typeIdx {
					rc.Examined++
					kept := false
					for _, r := range *c.Referrers() {
						ex, ok := r.(*ssa.Extract)
						if !ok || ex.Index != ti || ex.Referrers() == nil {
							continue
						}
						for _, rr := range *ex.Referrers() {
							if st, ok := rr.(*ssa.Store); ok && st.Val == ssa.Value(ex) && rootedAtRecv(st.Addr) {
								kept = true
							}
						}
					}
					rc.verdict(kept, fn, c.Call.StaticCallee().Name()+" type #"+string(rune('0'+ti)), c.Pos(), map[bool]string{
						true:  "the header type is recorded in the node",
						false: "the type read from the container header is not stored into the node (self.et / self.kt): a parent built bare (NotScanParentNode) is marshalled with type 0 in its header"}[kept], true)
				}
			}
		}
	}
}

func runByteOpt(rc *RuleCtx) {
	for _, ks := range rc.W.kindSwitches(1) {
		if !strings.HasSuffix(ks.tagType, "thrift.Type") || !strings.Contains(ks.fnName, "conv/t2j") {
			continue
		}
		for _, cl := range ks.clauses {
			isByte := false
			for _, l := range cl.labels {
				if l.name == "I08" || l.name == "BYTE" {
					isByte = true
				}
			}
			if !isByte || len(cl.labels) != 1 {
				continue
			}
			text := ""
			for _, st := range cl.body {
				text += " " + nodeText(ks.pkg.Fset, st)
			}
			if !strings.Contains(text, "EncodeInt64") {
				continue
			}
			rc.Examined++
			good := strings.Contains(text, "ByteAsUint8") || strings.Contains(text, "byteAsUint8")
			rc.add(nil, ks.fnName, "case "+cl.labels[0].name+" renders a number", cl.pos, map[bool]string{true: "discharged", false: "violated"}[good],
				map[bool]string{true: "the byte renderer consults ByteAsUint8",
					false: "this clause renders a thrift byte as a JSON number without consulting ByteAsUint8: its siblings do, so the same byte is printed signed in one place and unsigned in another"}[good], false)
		}
	}
}

// nodeText prints a syntax node (used for clause-level "mentions" tests on resolved clauses).
func nodeText(fset *token.FileSet, n ast.Node) string {
	var sb strings.Builder
	_ = printer.Fprint(&sb, fset, n)
	return sb.String()
}

func init() {
	register(&Rule{
		Name:     "ARGAGREE",
		Doc:      "call sites of one function agree on the accessor that produces an argument: when at least two call sites of a function F pass `x.M()` (a method of a descriptor type T) for parameter i, no other call site passes a different string accessor `x.M2()` of the same T for that parameter — e.g. every HTTP look-up of an un-annotated field uses `f.Alias()`; one site using `f.Name()` looks the value up under the wrong key. Majority instances were confirmed by reading (tryGetValueFromHttp: Alias).",
		Configs:  "NP",
		Floor:    map[string]int{"N": 3, "P": 2},
		Controls: 1,
		Run:      runArgAgree,
	})
}

func runArgAgree(rc *RuleCtx) {
	type site struct {
		call *ssa.Call
		fn   *ssa.Function
		m    string
	}
	type slot struct {
		callee *ssa.Function
		idx    int
		recv   string
	}
	sites := map[slot][]site{}
	for _, fn := range rc.W.Funcs {
		if pkgRel(fn) == "" {
			continue
		}
		for _, b := range fn.Blocks {
			for _, ins := range b.Instrs {
				c, ok := ins.(*ssa.Call)
				if !ok {
					continue
				}
				cal := c.Call.StaticCallee()
				if cal == nil || pkgRel(cal) == "" {
					continue
				}
				for i, a := range c.Call.Args {
					ac, ok := a.(*ssa.Call)
					if !ok || len(ac.Call.Args) != 1 {
						continue
					}
					am := ac.Call.StaticCallee()
					if am == nil || am.Signature.Recv() == nil || pkgRel(am) == "" {
						continue
					}
					// string-valued accessors of descriptor types only
					if bt, ok := am.Signature.Results().At(0).Type().Underlying().(*types.Basic); !ok || bt.Kind() != types.String || am.Signature.Results().Len() != 1 {
						continue
					}
					rt := typeShort(derefType(am.Signature.Recv().Type()))
					if !strings.HasSuffix(rt, "Descriptor") {
						continue
					}
					k := slot{cal, i, rt}
					sites[k] = append(sites[k], site{c, fn, am.Name()})
				}
			}
		}
	}
	for k, ss := range sites {
		count := map[string]int{}
		for _, s := range ss {
			count[s.m]++
		}
		if len(ss) < 3 {
			continue
		}
		major, mc := "", 0
		for m, c := range count {
			if c > mc {
				major, mc = m, c
			}
		}
		if mc < 2 {
			continue
		}
		for _, s := range ss {
			rc.Examined++
			good := s.m == major || count[s.m] >= 2
			rc.verdict(good, s.fn, k.callee.Name()+" arg "+string(rune('0'+k.idx))+" via "+s.m, s.call.Pos(), map[bool]string{
				true:  "the call site uses the same accessor as its siblings",
				false: "this call of " + k.callee.Name() + " passes " + k.recv + "." + s.m + "() where the other " + string(rune('0'+mc)) + " call sites pass " + major + "(): the value is looked up / written under a different name"}[good], true)
		}
	}
}

func init() {
	register(&Rule{
		Name:     "CACHERET",
		Doc:      "a memoising accessor — a function that looks a key up in a map held in a struct field (fast path) and, on a miss, stores a computed value into that same map — returns, after the store, exactly the value it stored: if the value is refined AFTER it was cached (unquoting a JSON string), the first call returns the refined value and every later call the raw one",
		Configs:  "NP",
		Floor:    map[string]int{"N": 1, "P": 1},
		Controls: 1,
		Run:      runCacheRet,
	})
}

func runCacheRet(rc *RuleCtx) {
	mapField := func(v ssa.Value) (sfield, bool) {
		return loadedField(v)
	}
	for _, fn := range rc.W.Funcs {
		if fn.Blocks == nil || pkgRel(fn) == "" || fn.Signature.Results().Len() == 0 {
			continue
		}
		lookups := map[sfield]bool{}
		var updates []*ssa.MapUpdate
		for _, b := range fn.Blocks {
			for _, ins := range b.Instrs {
				switch x := ins.(type) {
				case *ssa.Lookup:
					if f, ok := mapField(x.X); ok {
						lookups[f] = true
					}
				case *ssa.MapUpdate:
					updates = append(updates, x)
				}
			}
		}
		for _, mu := range updates {
			f, ok := mapField(mu.Map)
			if !ok || !lookups[f] {
				continue
			}
			// same value type as the function's first result
			if !types.Identical(mu.Value.Type(), fn.Signature.Results().At(0).Type()) {
				continue
			}
			rc.Examined++
			var badRet *ssa.Return
			seen := map[*ssa.BasicBlock]bool{}
			var dfs func(b *ssa.BasicBlock, first bool)
			dfs = func(b *ssa.BasicBlock, first bool) {
				if seen[b] && !first {
					return
				}
				seen[b] = true
				if ret, ok := lastInstr(b).(*ssa.Return); ok {
					if ret.Results[0] != mu.Value {
						if _, isLookup := ret.Results[0].(*ssa.Lookup); !isLookup {
							badRet = ret
						}
					}
					return
				}
				for _, s := range b.Succs {
					dfs(s, false)
				}
			}
			dfs(mu.Block(), true)
			if badRet != nil {
				rc.bad(fn, "cached value of "+f.name, badRet.Pos(), "after `"+f.name+"[key] = v` the function returns a different value than the one it cached (the value is refined after the store): the first call and the later (cached) calls disagree")
			} else {
				rc.ok(fn, "cached value of "+f.name, mu.Pos(), "the value returned after the store is the value that was cached", true)
			}
		}
	}
}

func init() {
	register(&Rule{
		Name:     "KNOWNNILARG",
		Doc:      "no call passes, as a pointer-typed argument, a value that is known to be nil at the call (the call is only reachable through the edge on which that very value was tested `== nil`): `o := m.Get(k); if o == nil { m.Set(k, o) }` stores the nil probe result instead of the value — every key is registered with a nil descriptor",
		Configs:  "NP",
		Floor:    map[string]int{"N": 50, "P": 50},
		Controls: 1,
		Run:      runKnownNilArg,
	})
}

func runKnownNilArg(rc *RuleCtx) {
	for _, fn := range rc.W.Funcs {
		if fn.Blocks == nil || pkgRel(fn) == "" {
			continue
		}
		for _, b := range fn.Blocks {
			// values known nil in this block
			var nils []ssa.Value
			for _, cd := range controllingIfs(b) {
				if subj, nilOnTrue, ok := nilTest(cd.cond); ok && nilOnTrue == cd.val {
					nils = append(nils, subj)
					continue
				}
				// unsafe.Pointer compared with nil (not a "nillable reference type" for ssa.Const.IsNil)
				k, neg := condKey(cd.cond)
				if bo, ok := k.(*ssa.BinOp); ok && (bo.Op == token.EQL || bo.Op == token.NEQ) {
					if c, ok := bo.Y.(*ssa.Const); ok && c.Value == nil {
						if bt, ok := c.Type().Underlying().(*types.Basic); ok && bt.Kind() == types.UnsafePointer {
							isNilHere := (bo.Op == token.EQL) == (cd.val != neg)
							if isNilHere {
								nils = append(nils, bo.X)
							}
						}
					}
				}
			}
			if len(nils) == 0 {
				continue
			}
			for _, ins := range b.Instrs {
				c, ok := ins.(ssa.CallInstruction)
				if !ok {
					continue
				}
				for ai, a := range c.Common().Args {
					switch a.Type().Underlying().(type) {
					case *types.Pointer:
					default:
						if bt, ok := a.Type().Underlying().(*types.Basic); !ok || bt.Kind() != types.UnsafePointer {
							continue
						}
					}
					known := false
					for _, n := range nils {
						if n == a {
							known = true
						}
					}
					rc.Examined++
					if !known {
						rc.ok(fn, "pointer argument", ins.Pos(), "not a value known to be nil here", false)
						continue
					}
					// the receiver position of a nil-safe method call is not a stored value
					if ai == 0 && c.Common().StaticCallee() != nil && c.Common().StaticCallee().Signature.Recv() != nil {
						rc.ok(fn, "pointer argument", ins.Pos(), "a method called on a nil receiver (nil-safe accessor)", false)
						continue
					}
					rc.bad(fn, "pointer argument", ins.Pos(), "the argument was just tested to be nil on the only edge reaching this call: the nil probe result is passed where a value is expected")
				}
			}
		}
	}
}

func init() {
	register(&Rule{
		Name:     "DEFAULTARM",
		Doc:      "in the methods of thrift.RequiresBitmap (the requiredness truth table applied to unset fields), `f.DefaultValue()` is consulted only on the edge where `f.Required() == OptionalRequireness` holds: an IDL default turns an OPTIONAL field into one that is written; hoisting the test in front of the other arms makes a required field with a default stop being an error, or a default-requireness field with a default ignore WriteDefault",
		Configs:  "NP",
		Floor:    map[string]int{"N": 1, "P": 1},
		Controls: 1,
		Run:      runDefaultArm,
	})
}

func runDefaultArm(rc *RuleCtx) {
	opt := rc.W.constVals("thrift", "OptionalRequireness")["OptionalRequireness"]
	for _, fn := range rc.W.Funcs {
		if fn.Blocks == nil || fn.Signature.Recv() == nil || !strings.HasSuffix(typeShort(derefType(fn.Signature.Recv().Type())), "thrift.RequiresBitmap") {
			continue
		}
		for _, b := range fn.Blocks {
			for _, ins := range b.Instrs {
				c, ok := ins.(*ssa.Call)
				if !ok || c.Call.StaticCallee() == nil || c.Call.StaticCallee().Name() != "DefaultValue" {
					continue
				}
				rc.Examined++
				good := false
				for _, cd := range controllingIfs(b) {
					k, neg := condKey(cd.cond)
					bo, ok := k.(*ssa.BinOp)
					if !ok || (bo.Op != token.EQL && bo.Op != token.NEQ) {
						continue
					}
					isReq := func(v ssa.Value) bool {
						cc, ok := v.(*ssa.Call)
						return ok && cc.Call.StaticCallee() != nil && cc.Call.StaticCallee().Name() == "Required"
					}
					var kc int64
					var isC bool
					if isReq(bo.X) {
						kc, isC = constInt(bo.Y)
					} else if isReq(bo.Y) {
						kc, isC = constInt(bo.X)
					}
					if !isC || kc != opt {
						continue
					}
					if (bo.Op == token.EQL) == (cd.val != neg) {
						good = true
					}
				}
				rc.verdict(good, fn, "DefaultValue() consulted", c.Pos(), map[bool]string{
					true:  "the IDL default is looked at for optional fields only",
					false: "DefaultValue() is consulted outside the arm for optional fields: the default now also changes what happens to required / default-requireness fields (a missing required field with a default is no longer an error, or WriteDefault is ignored)"}[good], true)
			}
		}
	}
}

func init() {
	register(&Rule{
		Name:     "BOUNDAGREE",
		Doc:      "inside one function, the bound checks that compare an end position with `len(p.Buf)` and return an error on the failing edge all use the same comparison (after normalising operand order): `end > len(Buf)` twice — not `>=` for the length prefix and `>` for the payload, which rejects a value that ends exactly at the end of the buffer (an empty string as the last element)",
		Configs:  "NP",
		Floor:    map[string]int{"N": 1, "P": 1},
		Controls: 1,
		Run:      runBoundAgree,
	})
}

func runBoundAgree(rc *RuleCtx) {
	ec := rc.W.EC()
	for _, fn := range rc.W.Funcs {
		if fn.Blocks == nil || pkgRel(fn) == "" {
			continue
		}
		type cmp struct {
			op  token.Token
			pos token.Pos
		}
		var cmps []cmp
		for _, b := range fn.Blocks {
			iff, ok := lastInstr(b).(*ssa.If)
			if !ok {
				continue
			}
			k, neg := condKey(iff.Cond)
			bo, ok := k.(*ssa.BinOp)
			if !ok {
				continue
			}
			isLenBuf := func(v ssa.Value) bool {
				c, ok := v.(*ssa.Call)
				if !ok {
					return false
				}
				bi, ok := c.Call.Value.(*ssa.Builtin)
				if !ok || bi.Name() != "len" || len(c.Call.Args) != 1 {
					return false
				}
				f, ok := loadedField(c.Call.Args[0])
				return ok && f.name == "Buf"
			}
			op := bo.Op
			var other ssa.Value
			switch {
			case isLenBuf(bo.Y):
				other = bo.X
			case isLenBuf(bo.X):
				other = bo.Y
				op = map[token.Token]token.Token{token.LSS: token.GTR, token.LEQ: token.GEQ, token.GTR: token.LSS, token.GEQ: token.LEQ}[op]
			default:
				continue
			}
			if op != token.GTR && op != token.GEQ {
				continue // only "past the end" checks
			}
			if _, isConst := other.(*ssa.Const); isConst {
				continue
			}
			// the failing edge returns an error
			ti := 0
			if neg {
				ti = 1
			}
			tb := b.Succs[ti]
			ret, ok := lastInstr(tb).(*ssa.Return)
			if !ok {
				continue
			}
			ei := errIndex(fn.Signature)
			if ei < 0 || ei >= len(ret.Results) || !ec.nonNil(ret.Results[ei], b, map[ssa.Value]bool{}) {
				continue
			}
			cmps = append(cmps, cmp{op, bo.Pos()})
		}
		if len(cmps) < 2 {
			continue
		}
		rc.Examined++
		agree := true
		for _, c := range cmps[1:] {
			if c.op != cmps[0].op {
				agree = false
			}
		}
		if agree {
			rc.ok(fn, "end-of-buffer checks", cmps[0].pos, "all past-the-end checks of the function use `"+cmps[0].op.String()+"`", true)
		} else {
			rc.bad(fn, "end-of-buffer checks", cmps[0].pos, "the function's past-the-end checks against len(Buf) mix `>` and `>=`: one of them rejects a value that ends exactly at the end of the buffer (or admits one that ends one byte past it)")
		}
	}
}

func init() {
	register(&Rule{
		Name:     "REGIONEXACT",
		Doc:      "in the protobuf stream readers (proto/binary, conv/p2j), a walk over a length-delimited region — a loop `for cursor < start + L` with L decoded by ReadLength — either runs on a buffer that was cut at the region's end before the loop (`p.Buf = buf[:start+L]`, so an element that straddles the end fails inside its own read), or is followed by a test of the cursor against that same bound (`cursor != start+L` / `>`): otherwise the last element of a packed list or embedded message may run past its length prefix into the following fields and the message is silently mis-parsed where the reference decoder reports truncated data",
		Configs:  "NP",
		Floor:    map[string]int{"N": 4, "P": 4},
		Controls: 1,
		Run:      runRegionExact,
	})
}

func runRegionExact(rc *RuleCtx) {
	fromReadLength := func(v ssa.Value) bool {
		seen := map[ssa.Value]bool{}
		var walk func(x ssa.Value, d int) bool
		walk = func(x ssa.Value, d int) bool {
			if x == nil || seen[x] || d > 6 {
				return false
			}
			seen[x] = true
			switch y := x.(type) {
			case *ssa.Extract:
				if c, ok := y.Tuple.(*ssa.Call); ok && c.Call.StaticCallee() != nil && c.Call.StaticCallee().Name() == "ReadLength" && y.Index == 0 {
					return true
				}
			case *ssa.Convert:
				return walk(y.X, d+1)
			case *ssa.BinOp:
				return walk(y.X, d+1) || walk(y.Y, d+1)
			case *ssa.Phi:
				for _, e := range y.Edges {
					if walk(e, d+1) {
						return true
					}
				}
			}
			return false
		}
		return walk(v, 0)
	}
	isReadLoad := func(v ssa.Value) bool {
		f, ok := loadedField(v)
		return ok && f.name == "Read"
	}
	for _, fn := range rc.W.Funcs {
		// the stream readers: in proto/generic a walk runs over the bytes of ONE node, whose extent was fixed
		// when the node was cut out of its parent (handleChild / getByPath re-slice the buffer), so the end of
		// the region is the end of the buffer there
		if fn.Blocks == nil || !(pkgRel(fn) == "proto/binary" || pkgRel(fn) == "conv/p2j") {
			continue
		}
		for _, lp := range naturalLoops(fn) {
			iff, ok := lastInstr(lp.head).(*ssa.If)
			if !ok {
				continue
			}
			// the region test may be the first conjunct of `A && B`
			k, _ := condKey(iff.Cond)
			bo, ok := k.(*ssa.BinOp)
			if !ok {
				continue
			}
			// `cursor < bound`, or the same test written `bound > cursor`
			cur, bnd := bo.X, bo.Y
			switch {
			case bo.Op == token.LSS && isReadLoad(bo.X):
			case bo.Op == token.GTR && isReadLoad(bo.Y):
				cur, bnd = bo.Y, bo.X
			default:
				continue
			}
			_ = cur
			bound, ok := bnd.(*ssa.BinOp)
			if !ok || bound.Op != token.ADD || !(fromReadLength(bound.X) || fromReadLength(bound.Y)) {
				continue
			}
			rc.Examined++
			good, why := false, ""
			// (a) the buffer was cut at the region end
			for _, b := range fn.Blocks {
				for _, ins := range b.Instrs {
					st, ok := ins.(*ssa.Store)
					if !ok {
						continue
					}
					if _, n, ok := fieldNameOf(st.Addr); !ok || n != "Buf" {
						continue
					}
					if sl, ok := st.Val.(*ssa.Slice); ok && sl.High != nil && fromReadLength(sl.High) && b.Dominates(lp.head) {
						good, why = true, "the buffer is cut at the end of the region before the walk"
					}
				}
			}
			// (b) the cursor is compared with the same bound outside the loop header
			for _, b := range fn.Blocks {
				for _, ins := range b.Instrs {
					o, ok := ins.(*ssa.BinOp)
					if !ok || o == bo {
						continue
					}
					switch o.Op {
					case token.NEQ, token.GTR, token.EQL, token.LEQ, token.GEQ:
					default:
						continue
					}
					sameBound := func(v ssa.Value) bool {
						if v == ssa.Value(bound) {
							return true
						}
						ob, ok := v.(*ssa.BinOp)
						return ok && ob.Op == token.ADD && ob.X == bound.X && ob.Y == bound.Y
					}
					if (isReadLoad(o.X) && sameBound(o.Y)) || (isReadLoad(o.Y) && sameBound(o.X)) {
						if !lp.blocks[b] {
							good, why = true, "the cursor is compared with the region end after the walk"
						} else if b != lp.head && o.Referrers() != nil {
							// inside the loop: only a test that leaves through a return (an element that ran past
							// the end is an error), not one that merely decides about a separator
							for _, r := range *o.Referrers() {
								if iff, ok := r.(*ssa.If); ok {
									for _, s := range iff.Block().Succs {
										if _, isRet := lastInstr(s).(*ssa.Return); isRet {
											good, why = true, "inside the walk the cursor is compared with the region end and the overrun returns"
										}
									}
								}
							}
						}
					}
				}
			}
			rc.verdict(good, fn, "walk over a length-delimited region", bo.Pos(), map[bool]string{
				true:  why,
				false: "the loop runs while the cursor is before `start + length`, but nothing makes an element that straddles the region end fail: the buffer is not cut at the end and the cursor is never compared with the bound after the loop — the last element may run into the following fields"}[good], true)
		}
	}
}

func init() {
	register(&Rule{
		Name:     "COUNTERRESET",
		Doc:      "a struct field that a function assigns as an absolute count in one arm and counts up inside a loop (`x.f++` per element) in another is assigned before that loop as well: a scan that increments the node's element count without resetting it first adds this scan's elements to whatever the node carried (a node obtained from GetByPath already has its count — Load then doubles Len())",
		Configs:  "NP",
		Floor:    map[string]int{"N": 1, "P": 1},
		Controls: 1,
		Run:      runCounterReset,
	})
}

func runCounterReset(rc *RuleCtx) {
	for _, fn := range rc.W.Funcs {
		if fn.Blocks == nil || pkgRel(fn) == "" {
			continue
		}
		loops := naturalLoops(fn)
		if len(loops) == 0 {
			continue
		}
		for _, b := range fn.Blocks {
			for _, ins := range b.Instrs {
				st, ok := ins.(*ssa.Store)
				if !ok {
					continue
				}
				t, n, ok := fieldNameOf(st.Addr)
				if !ok {
					continue
				}
				bo, ok := st.Val.(*ssa.BinOp)
				if !ok || bo.Op != token.ADD {
					continue
				}
				if k, isC := constInt(bo.Y); !isC || k != 1 {
					continue
				}
				f := sfield{typeShort(t), n}
				if lf, ok := loadedField(bo.X); !ok || lf != f {
					continue
				}
				// innermost loop containing the increment
				var in *natLoop
				for _, lp := range loops {
					if lp.blocks[b] && (in == nil || len(lp.blocks) < len(in.blocks)) {
						in = lp
					}
				}
				if in == nil {
					continue
				}
				// the base object must be loop-invariant (a field of the receiver / a parameter), not a per-iteration element
				base := st.Addr.(*ssa.FieldAddr).X
				if _, isParam := base.(*ssa.Parameter); !isParam {
					if fa, ok := base.(*ssa.FieldAddr); !ok {
						continue
					} else if _, isParam := fa.X.(*ssa.Parameter); !isParam {
						continue
					}
				}
				// the function treats the field as an absolute count elsewhere (a sibling arm assigns it);
				// a function that only ever adds to it (SetMany: one more per inserted element) keeps a running total on purpose
				absolute := false
				for _, ob := range fn.Blocks {
					for _, oi := range ob.Instrs {
						if os, ok := oi.(*ssa.Store); ok && os != st {
							if ot, on, ok := fieldNameOf(os.Addr); ok && (sfield{typeShort(ot), on}) == f {
								if ob2, ok := os.Val.(*ssa.BinOp); !ok || ob2.Op != token.ADD {
									absolute = true
								}
							}
						}
					}
				}
				if !absolute {
					continue
				}
				rc.Examined++
				reset := false
				for _, ob := range fn.Blocks {
					if in.blocks[ob] || !ob.Dominates(in.head) {
						continue
					}
					for _, oi := range ob.Instrs {
						if os, ok := oi.(*ssa.Store); ok && os != st {
							if ot, on, ok := fieldNameOf(os.Addr); ok && (sfield{typeShort(ot), on}) == f {
								reset = true
							}
						}
					}
				}
				rc.verdict(reset, fn, "counter "+f.name, st.Pos(), map[bool]string{
					true:  "the counter is assigned before the loop that counts it up",
					false: "`" + f.name + "++` inside the loop with no assignment of " + f.name + " before it: the count of this scan is added to what the object already carried (a second Load, or a node that came with its size, doubles it)"}[reset], true)
			}
		}
	}
}

func init() {
	register(&Rule{
		Name:     "WIREDISPATCH",
		Doc:      "no scalar is ENCODED (a Write<Kind> / Encode<Kind> primitive of proto/binary or proto/protowire) in a branch that is selected by the value's WIRE TYPE alone (`wt == proto.VarintType`, `case proto.VarintType:`): the varint wire type covers int, uint, sint (zig-zag) and bool, which need different encoders — a map<sint32,…> key written with the plain varint encoder decodes as another key. (Skipping by wire type is fine: it does not interpret the value.)",
		Configs:  "NP",
		Floor:    map[string]int{"N": 1, "P": 1},
		Controls: 1,
		Run:      runWireDispatch,
	})
}

func runWireDispatch(rc *RuleCtx) {
	for _, p := range rc.W.Pkgs {
		rel := strings.TrimPrefix(strings.TrimPrefix(p.PkgPath, modPath), "/")
		info := p.TypesInfo
		for _, f := range p.Syntax {
			for _, d := range f.Decls {
				fd, ok := d.(*ast.FuncDecl)
				if !ok || fd.Body == nil {
					continue
				}
				name := declName(rel, fd)
				encodes := func(body ast.Node) (string, token.Pos) {
					found, pos := "", token.NoPos
					ast.Inspect(body, func(n ast.Node) bool {
						ce, ok := n.(*ast.CallExpr)
						if !ok || found != "" {
							return found == ""
						}
						sel, ok := ce.Fun.(*ast.SelectorExpr)
						if !ok {
							return true
						}
						fn, _ := info.Uses[sel.Sel].(*types.Func)
						if fn == nil || fn.Pkg() == nil || !(strings.HasSuffix(fn.Pkg().Path(), "/proto/binary") || strings.HasSuffix(fn.Pkg().Path(), "/proto/protowire")) {
							return true
						}
						if strings.HasPrefix(sel.Sel.Name, "Write") || strings.HasPrefix(sel.Sel.Name, "Encode") || strings.HasPrefix(sel.Sel.Name, "Append") {
							if _, ok := primKind(sel.Sel.Name); ok {
								found, pos = sel.Sel.Name, ce.Pos()
							}
						}
						return true
					})
					return found, pos
				}
				isWire := func(e ast.Expr) bool {
					tv, ok := info.Types[e]
					return ok && strings.HasSuffix(typeShort(tv.Type), "proto.WireType")
				}
				ast.Inspect(fd.Body, func(n ast.Node) bool {
					switch x := n.(type) {
					case *ast.IfStmt:
						be, ok := ast.Unparen(x.Cond).(*ast.BinaryExpr)
						if !ok || be.Op != token.EQL || !(isWire(be.X) && isWire(be.Y)) {
							return true
						}
						rc.Examined++
						enc, pos := encodes(x.Body)
						good := enc == ""
						if pos == token.NoPos {
							pos = x.Pos()
						}
						rc.add(nil, name, "branch on "+types.ExprString(x.Cond), pos, map[bool]string{true: "discharged", false: "violated"}[good],
							map[bool]string{true: "the wire-type branch does not encode a value", false: "the branch selected by `" + types.ExprString(x.Cond) + "` encodes with " + enc + ": the wire type does not say whether the value is signed, unsigned or zig-zag encoded"}[good], true)
					case *ast.SwitchStmt:
						if x.Tag == nil || !isWire(x.Tag) {
							return true
						}
						for _, cc := range x.Body.List {
							cl := cc.(*ast.CaseClause)
							if len(cl.List) == 0 {
								continue
							}
							rc.Examined++
							enc, pos := "", token.NoPos
							for _, st := range cl.Body {
								if e, p2 := encodes(st); e != "" && enc == "" {
									enc, pos = e, p2
								}
							}
							good := enc == ""
							if pos == token.NoPos {
								pos = cl.Pos()
							}
							rc.add(nil, name, "case "+types.ExprString(cl.List[0]), pos, map[bool]string{true: "discharged", false: "violated"}[good],
								map[bool]string{true: "the wire-type clause does not encode a value", false: "the clause selected by the wire type encodes with " + enc + ": the wire type does not say whether the value is signed, unsigned or zig-zag encoded"}[good], true)
						}
					}
					return true
				})
			}
		}
	}
}

func init() {
	register(&Rule{
		Name:     "LAZYSIZE",
		Doc:      "in proto/generic, where an element index is compared with the `size` of a list iterator to reject it (`k >= it.size`), the comparison is conjoined with `it.size > 0`: a protobuf list node only knows its element count once it has been counted (a node from Field/FieldByName or a lazy Load has size 0), and the sibling lookups treat 0 as `unknown` — without the conjunct every index is rejected on such a node",
		Configs:  "NP",
		Floor:    map[string]int{"N": 2, "P": 2},
		Controls: 1,
		Run:      runLazySize,
	})
}

func runLazySize(rc *RuleCtx) {
	isSize := func(v ssa.Value) (ssa.Value, bool) {
		for {
			if c, ok := v.(*ssa.Convert); ok {
				v = c.X
				continue
			}
			break
		}
		switch x := v.(type) {
		case *ssa.UnOp:
			if x.Op == token.MUL {
				if owner, n, ok := fieldNameOf(x.X); ok && n == "size" && strings.HasSuffix(typeShort(owner), "Iterator") {
					return x.X.(*ssa.FieldAddr).X, true
				}
			}
		case *ssa.Field:
			if owner, n, ok := fieldNameOf(x); ok && n == "size" && strings.HasSuffix(typeShort(owner), "Iterator") {
				return x.X, true
			}
		}
		return nil, false
	}
	for _, fn := range rc.W.Funcs {
		if fn.Blocks == nil || pkgRel(fn) != "proto/generic" {
			continue
		}
		for _, b := range fn.Blocks {
			for _, ins := range b.Instrs {
				bo, ok := ins.(*ssa.BinOp)
				if !ok || (bo.Op != token.GEQ && bo.Op != token.GTR && bo.Op != token.LSS && bo.Op != token.LEQ) {
					continue
				}
				var other ssa.Value
				var base ssa.Value
				if bs, ok := isSize(bo.Y); ok {
					other, base = bo.X, bs
				} else if bs, ok := isSize(bo.X); ok {
					other, base = bo.Y, bs
				} else {
					continue
				}
				if k, isC := constInt(other); isC && k == 0 {
					continue // the `size > 0` conjunct itself
				}
				_ = base
				rc.Examined++
				good := false
				for _, cd := range controllingIfs(b) {
					k, neg := condKey(cd.cond)
					o, ok := k.(*ssa.BinOp)
					if !ok {
						continue
					}
					truth := cd.val != neg
					if _, ok := isSize(o.X); ok {
						if kc, isC := constInt(o.Y); isC && kc == 0 && ((o.Op == token.GTR && truth) || (o.Op == token.LEQ && !truth) || (o.Op == token.NEQ && truth) || (o.Op == token.EQL && !truth)) {
							good = true
						}
					}
				}
				rc.verdict(good, fn, "index vs iterator size", bo.Pos(), map[bool]string{
					true:  "the comparison with the element count is made only where the count is known (size > 0)",
					false: "the index is compared with the iterator's size without `size > 0`: on a list node that has not been counted yet (size 0) every index is rejected"}[good], true)
			}
		}
	}
}

func init() {
	register(&Rule{
		Name:     "ONESHOTFLAG",
		Doc:      "a bool parameter that a loop both tests and clears (`if … && flag { …; flag = false }`) is cleared on EVERY path through the branch it guards: the flag marks a one-time condition (the innermost list of the path is packed), and a path that leaves it set makes the next iteration apply the one-time action again (the length prefix of an outer list element is re-written twice)",
		Configs:  "NP",
		Floor:    map[string]int{"N": 1, "P": 1},
		Controls: 1,
		Run:      runOneShotFlag,
	})
}

func runOneShotFlag(rc *RuleCtx) {
	for _, fn := range rc.W.Funcs {
		if fn.Blocks == nil || pkgRel(fn) == "" {
			continue
		}
		for _, lp := range naturalLoops(fn) {
			for _, ins := range lp.head.Instrs {
				ph, ok := ins.(*ssa.Phi)
				if !ok {
					break
				}
				if bt, ok := ph.Type().Underlying().(*types.Basic); !ok || bt.Kind() != types.Bool {
					continue
				}
				// enters the loop as a parameter, and is assigned false somewhere inside
				fromParam, cleared := false, false
				for i, e := range ph.Edges {
					if !lp.blocks[lp.head.Preds[i]] {
						if _, isP := e.(*ssa.Parameter); isP {
							fromParam = true
						}
					}
				}
				var walk func(v ssa.Value, d int)
				seen := map[ssa.Value]bool{}
				walk = func(v ssa.Value, d int) {
					if seen[v] || d > 6 {
						return
					}
					seen[v] = true
					if b, isC := constBool(v); isC && !b {
						cleared = true
					}
					if p2, ok := v.(*ssa.Phi); ok {
						for _, e := range p2.Edges {
							walk(e, d+1)
						}
					}
				}
				for i, e := range ph.Edges {
					if lp.blocks[lp.head.Preds[i]] {
						walk(e, 0)
					}
				}
				if !fromParam || !cleared {
					continue
				}
				// the branch guarded by the flag
				for b := range lp.blocks {
					iff, ok := lastInstr(b).(*ssa.If)
					if !ok || iff.Cond != ssa.Value(ph) {
						continue
					}
					// the guarded branch: everything dominated by the true successor (it may be shared with the other
					// disjuncts of `a || (b && flag)`, so it can have several predecessors)
					region := map[*ssa.BasicBlock]bool{}
					if b.Succs[0] == lp.head {
						continue
					}
					for ob := range lp.blocks {
						if b.Succs[0].Dominates(ob) {
							region[ob] = true
						}
					}
					if len(region) == 0 {
						continue
					}
					rc.Examined++
					var leak *ssa.Phi
					for ob := range lp.blocks {
						for _, oi := range ob.Instrs {
							p2, ok := oi.(*ssa.Phi)
							if !ok {
								break
							}
							for i, e := range p2.Edges {
								if e == ssa.Value(ph) && region[ob.Preds[i]] {
									leak = p2
								}
							}
						}
					}
					if leak != nil {
						rc.bad(fn, "one-shot flag "+ph.Comment, firstPos(b.Succs[0]), "the flag `"+ph.Comment+"` is still set on a path that went through the branch it guards: the one-time action is repeated in a later iteration")
					} else {
						rc.ok(fn, "one-shot flag "+ph.Comment, firstPos(b.Succs[0]), "every path through the guarded branch clears the flag", true)
					}
				}
			}
		}
	}
}

func init() {
	register(&Rule{
		Name:     "KINDCHECKED",
		Doc:      "in the JSON→protobuf visitor (conv/j2p), every handler of a JSON scalar (OnBool, OnString, OnInt64, OnFloat64 …) writes a protobuf scalar (a Write<Kind> primitive) only under a test of the target field's kind (a comparison / switch over fieldDesc.Kind() or Type()): a handler that writes whatever the JSON token is produces bytes that do not match the tag it has just written (`{\"str\":true}` → tag of a string followed by one bool byte: malformed, nil error)",
		Configs:  "NP",
		Floor:    map[string]int{"N": 10, "P": 10},
		Controls: 1,
		Run:      runKindChecked,
	})
}

func runKindChecked(rc *RuleCtx) {
	isKindCall := func(v ssa.Value) bool {
		for {
			if c, ok := v.(*ssa.Convert); ok {
				v = c.X
				continue
			}
			break
		}
		c, ok := v.(*ssa.Call)
		if !ok || c.Call.StaticCallee() == nil {
			return false
		}
		switch c.Call.StaticCallee().Name() {
		case "Kind", "Type":
			return true
		}
		return false
	}
	for _, fn := range rc.W.Funcs {
		if fn.Blocks == nil || pkgRel(fn) != "conv/j2p" || !(strings.HasPrefix(fn.Name(), "On") || strings.HasPrefix(fn.Name(), "zzControlOn")) {
			continue
		}
		for _, b := range fn.Blocks {
			for _, ins := range b.Instrs {
				c, ok := ins.(*ssa.Call)
				if !ok || c.Call.StaticCallee() == nil || pkgRel(c.Call.StaticCallee()) != "proto/binary" {
					continue
				}
				n := c.Call.StaticCallee().Name()
				if !strings.HasPrefix(n, "Write") {
					continue
				}
				if _, ok := primKind(n); !ok {
					continue
				}
				rc.Examined++
				good := false
				for _, cd := range controllingIfs(b) {
					k, _ := condKey(cd.cond)
					if bo, ok := k.(*ssa.BinOp); ok && (bo.Op == token.EQL || bo.Op == token.NEQ) && (isKindCall(bo.X) || isKindCall(bo.Y)) {
						good = true
					}
				}
				rc.verdict(good, fn, n, c.Pos(), map[bool]string{
					true:  "the value is written under a test of the field's kind",
					false: n + " is called whatever the kind of the target field: for a field of another kind the bytes do not match the tag written before them (malformed output with a nil error)"}[good], true)
			}
		}
	}
}

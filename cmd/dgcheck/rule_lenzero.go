package main

import (
	"go/token"
	"go/types"

	"golang.org/x/tools/go/ssa"
)

// LENZERO: a zero length prefix is a valid protobuf payload (empty string/bytes, empty embedded
// message, empty packed list). A reader that rejects `length <= 0` together with the decoding
// error refuses messages every conforming decoder accepts.
func init() {
	register(&Rule{
		Name:     "LENZERO",
		Doc:      "a length decoded by BinaryProtocol.ReadLength() is never rejected for being zero: an If condition `len <= 0`, `len < 1` or `len == 0` on (a conversion of) that result whose true edge returns a certainly non-nil error is a violation (`len < 0` is fine), nor answered with an early `return nil, nil` of an interface-typed result: empty embedded messages, strings and packed lists are valid wire data and an empty message is a present value",
		Configs:  "NP",
		Floor:    map[string]int{"N": 8, "P": 8},
		Controls: 1,
		Run:      runLenZero,
	})
}

func runLenZero(rc *RuleCtx) {
	ec := rc.W.EC()
	for _, fn := range rc.W.Funcs {
		if fn.Blocks == nil {
			continue
		}
		for _, b := range fn.Blocks {
			for _, ins := range b.Instrs {
				// every ReadLength call is a site; its zero tests are looked up among the referrers
				ex, ok := ins.(*ssa.Extract)
				if !ok || ex.Index != 0 {
					continue
				}
				c, ok := ex.Tuple.(*ssa.Call)
				if !ok {
					continue
				}
				cal := c.Call.StaticCallee()
				if cal == nil || cal.Name() != "ReadLength" {
					continue
				}
				rc.Examined++
				bad := false
				var visit func(v ssa.Value, d int)
				visit = func(v ssa.Value, d int) {
					if d > 3 || v.Referrers() == nil {
						return
					}
					for _, r := range *v.Referrers() {
						switch x := r.(type) {
						case *ssa.Convert:
							visit(x, d+1)
						case *ssa.BinOp:
							k, isC := constInt(x.Y)
							if !isC || x.X != v {
								continue
							}
							zeroRejected := (x.Op == token.LEQ && k == 0) || (x.Op == token.LSS && k == 1) || (x.Op == token.EQL && k == 0)
							if !zeroRejected {
								continue
							}
							// the comparison feeds an If whose true edge is an error exit
							for _, rr := range *x.Referrers() {
								iff, ok := rr.(*ssa.If)
								if !ok {
									continue
								}
								t := iff.Block().Succs[0]
								if ret, ok := lastInstr(t).(*ssa.Return); ok {
									ei := errIndex(fn.Signature)
									if ei >= 0 && len(ret.Results) > ei && ec.nonNil(ret.Results[ei], iff.Block(), map[ssa.Value]bool{}) {
										bad = true
										rc.bad(fn, "ReadLength zero test", x.Pos(), "a zero length is rejected with an error: empty embedded messages / strings / packed lists are valid wire data")
									} else if ei > 0 && len(ret.Results) > ei && isNilConst(ret.Results[ei]) && isNilConst(ret.Results[0]) && types.IsInterface(ret.Results[0].Type()) {
										// (nil, nil): a present-but-empty message is reported as absent
										bad = true
										rc.bad(fn, "ReadLength zero test", x.Pos(), "a zero length returns (nil, nil): an empty embedded message that IS present in the input is reported as a nil value — the reader loses the presence the reference decoder keeps (an empty message), and writing the value back fails")
									}
								}
							}
						}
					}
				}
				visit(ex, 0)
				if !bad {
					rc.ok(fn, "ReadLength", c.Pos(), "the decoded length is not rejected for being zero", false)
				}
			}
		}
	}
}

package main

import (
	"go/ast"
	"go/constant"
	"go/token"
	"go/types"
	"strings"
)

// EXPCASE: JSON numbers may write the exponent marker in either case (RFC 8259: `e` / `E`).
// Every place of the hand-written number scanner that classifies a byte against the lower-case
// marker has to accept the upper-case one too (and vice versa), otherwise `2E3` is cut at the
// `E` and decoded as the integer 2.
func init() {
	register(&Rule{
		Name:     "EXPCASE",
		Doc:      "in internal/json, every chain of comparisons (`||` of `==`, `&&` of `!=`, or a case list) of ONE byte expression against character constants that contains the exponent marker 'e' also contains 'E', and vice versa",
		Configs:  "NP",
		Floor:    map[string]int{"N": 3, "P": 3},
		Controls: 1,
		Run:      runExpCase,
	})
}

func runExpCase(rc *RuleCtx) {
	w := rc.W
	for _, p := range w.Pkgs {
		rel := strings.TrimPrefix(strings.TrimPrefix(p.PkgPath, modPath), "/")
		if rel != "internal/json" {
			continue
		}
		info := p.TypesInfo
		charOf := func(e ast.Expr) (rune, bool) {
			tv, ok := info.Types[e]
			if !ok || tv.Value == nil || tv.Value.Kind() != constant.Int {
				return 0, false
			}
			if bl, ok := ast.Unparen(e).(*ast.BasicLit); !ok || bl.Kind != token.CHAR {
				return 0, false
			}
			v, _ := constant.Int64Val(tv.Value)
			return rune(v), true
		}
		for _, f := range p.Syntax {
			for _, d := range f.Decls {
				fd, ok := d.(*ast.FuncDecl)
				if !ok || fd.Body == nil {
					continue
				}
				name := declName(rel, fd)
				visited := map[ast.Node]bool{}
				verdict := func(pos ast.Node, set map[rune]bool) {
					if !set['e'] && !set['E'] {
						return
					}
					rc.Examined++
					good := set['e'] && set['E']
					rc.add(nil, name, "exponent marker", pos.Pos(), map[bool]string{true: "discharged", false: "violated"}[good],
						map[bool]string{true: "both 'e' and 'E' are accepted", false: "only one case of the exponent marker is tested: a number written with the other one is cut at the marker"}[good], false)
				}
				ast.Inspect(fd.Body, func(n ast.Node) bool {
					switch x := n.(type) {
					case *ast.BinaryExpr:
						if visited[x] || (x.Op != token.LOR && x.Op != token.LAND) {
							return true
						}
						// flatten the chain of the same operator
						var leaves []ast.Expr
						var flat func(e ast.Expr)
						flat = func(e ast.Expr) {
							e = ast.Unparen(e)
							if b, ok := e.(*ast.BinaryExpr); ok && b.Op == x.Op {
								visited[b] = true
								flat(b.X)
								flat(b.Y)
								return
							}
							leaves = append(leaves, e)
						}
						flat(x)
						want := token.EQL
						if x.Op == token.LAND {
							want = token.NEQ
						}
						bySubj := map[string]map[rune]bool{}
						for _, l := range leaves {
							b, ok := l.(*ast.BinaryExpr)
							if !ok || b.Op != want {
								continue
							}
							// `c == 'e'`, written either way round
							subj, lit := b.X, b.Y
							if _, ok := charOf(lit); !ok {
								subj, lit = b.Y, b.X
							}
							if c, ok := charOf(lit); ok {
								k := types.ExprString(subj)
								if bySubj[k] == nil {
									bySubj[k] = map[rune]bool{}
								}
								bySubj[k][c] = true
							}
						}
						for _, set := range bySubj {
							verdict(x, set)
						}
					case *ast.CaseClause:
						set := map[rune]bool{}
						for _, e := range x.List {
							if c, ok := charOf(e); ok {
								set[c] = true
							}
						}
						verdict(x, set)
					}
					return true
				})
			}
		}
	}
}

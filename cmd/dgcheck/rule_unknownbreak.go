package main

import (
	"go/ast"
	"go/token"
	"go/types"
	"strings"
)

// UNKNOWNBREAK: the field loops of readers, iterators and converters look every wire field up in
// the descriptor; a field the descriptor does not know is skipped (or rejected under the Disallow…
// option) and the loop goes on with the NEXT field. Leaving the loop there (`break`) silently
// drops every field that follows the first unknown one — with a nil error.
func init() {
	register(&Rule{
		Name:     "UNKNOWNBREAK",
		Doc:      "inside a loop, the branch taken when a descriptor lookup (FieldById/FieldByKey/ByNumber/ByName/ByJSONName/Get…) returned nil does not `break` out of that loop: an unknown field is skipped or rejected, the fields after it are still processed",
		Configs:  "NP",
		Floor:    map[string]int{"N": 8, "P": 8},
		Controls: 1,
		Run:      runUnknownBreak,
	})
}

func isDescLookup(info *types.Info, e ast.Expr) bool {
	ce, ok := ast.Unparen(e).(*ast.CallExpr)
	if !ok {
		return false
	}
	sel, ok := ce.Fun.(*ast.SelectorExpr)
	if !ok {
		return false
	}
	switch sel.Sel.Name {
	case "FieldById", "FieldByKey", "ByNumber", "ByName", "ByJSONName", "ByJSONName2", "GetByName", "GetById":
	default:
		return false
	}
	t := info.TypeOf(ce)
	if t == nil {
		return false
	}
	_, isPtr := t.Underlying().(*types.Pointer)
	return isPtr
}

func runUnknownBreak(rc *RuleCtx) {
	for _, p := range rc.W.Pkgs {
		rel := strings.TrimPrefix(strings.TrimPrefix(p.PkgPath, modPath), "/")
		info := p.TypesInfo
		for _, f := range p.Syntax {
			for _, d := range f.Decls {
				fd, ok := d.(*ast.FuncDecl)
				if !ok || fd.Body == nil {
					continue
				}
				name := declName(rel, fd)
				defs := localDefs(fd.Body)
				var inLoop func(n ast.Node, loop bool)
				checkIf := func(is *ast.IfStmt) {
					be, ok := ast.Unparen(is.Cond).(*ast.BinaryExpr)
					if !ok || be.Op != token.EQL {
						return
					}
					var subj ast.Expr
					if id, ok := be.Y.(*ast.Ident); ok && id.Name == "nil" {
						subj = be.X
					} else if id, ok := be.X.(*ast.Ident); ok && id.Name == "nil" {
						subj = be.Y
					} else {
						return
					}
					lookup := isDescLookup(info, subj)
					if id, ok := ast.Unparen(subj).(*ast.Ident); ok && !lookup {
						if d, ok := defs[id.Name]; ok && isDescLookup(info, d) {
							lookup = true
						}
					}
					if !lookup {
						return
					}
					rc.Examined++
					// an unlabelled break that targets the enclosing loop (not a nested for/switch/select)
					var brk *ast.BranchStmt
					var find func(n ast.Node)
					find = func(n ast.Node) {
						ast.Inspect(n, func(m ast.Node) bool {
							switch x := m.(type) {
							case *ast.ForStmt, *ast.RangeStmt, *ast.SwitchStmt, *ast.TypeSwitchStmt, *ast.SelectStmt, *ast.FuncLit:
								return m == n
							case *ast.BranchStmt:
								if x.Tok == token.BREAK && x.Label == nil && brk == nil {
									brk = x
								}
							}
							return true
						})
					}
					find(is.Body)
					good := brk == nil
					pos := is.Pos()
					if brk != nil {
						pos = brk.Pos()
					}
					rc.add(nil, name, "unknown-field branch of "+types.ExprString(subj), pos, map[bool]string{true: "discharged", false: "violated"}[good],
						map[bool]string{true: "the unknown-field branch returns or continues with the next field",
							false: "the unknown-field branch leaves the field loop with `break`: every field after the first unknown one is silently dropped"}[good], true)
				}
				inLoop = func(n ast.Node, loop bool) {
					ast.Inspect(n, func(m ast.Node) bool {
						if m == nil || m == n {
							return true
						}
						switch x := m.(type) {
						case *ast.ForStmt:
							inLoop(x.Body, true)
							return false
						case *ast.RangeStmt:
							inLoop(x.Body, true)
							return false
						case *ast.SwitchStmt, *ast.TypeSwitchStmt, *ast.SelectStmt:
							// a break inside a switch targets the switch: the loop context ends here
							inLoop(m, false)
							return false
						case *ast.FuncLit:
							inLoop(x.Body, false)
							return false
						case *ast.IfStmt:
							if loop {
								checkIf(x)
							}
						}
						return true
					})
				}
				inLoop(fd.Body, false)
			}
		}
	}
}

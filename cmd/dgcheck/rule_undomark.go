package main

import (
	"go/token"

	"golang.org/x/tools/go/ssa"
)

// UNDOMARK: the portable converter writes an entry optimistically — field header or map key first,
// then the value — and, when the value turns out to be JSON null, removes the entry again by
// cutting the output buffer back to a mark taken earlier (`ks := len(p.Buf)` … `p.Buf = p.Buf[:ks]`).
// The mark undoes exactly what was written after it, so within one loop iteration it has to be
// taken BEFORE the first write of the entry; a mark taken after the key leaves a dangling key.
func init() {
	register(&Rule{
		Name:     "UNDOMARK",
		Doc:      "for every rewind `buf = buf[:m]` of a cursor's output buffer whose mark m is `len(buf)` taken inside the same loop: no writing call on that cursor (Write*/append to .Buf) lies on a path from the loop head to the instruction that takes the mark — the mark precedes everything the iteration writes",
		Configs:  "NP",
		Floor:    map[string]int{"P": 2},
		Controls: 1,
		Run:      runUndoMark,
	})
}

func runUndoMark(rc *RuleCtx) {
	for _, fn := range rc.W.Funcs {
		if fn.Blocks == nil {
			continue
		}
		var loops []*natLoop
		for _, b := range fn.Blocks {
			for _, ins := range b.Instrs {
				st, ok := ins.(*ssa.Store)
				if !ok {
					continue
				}
				if _, n, ok := fieldNameOf(st.Addr); !ok || n != "Buf" {
					continue
				}
				sl, ok := st.Val.(*ssa.Slice)
				if !ok || sl.High == nil || sl.Low != nil {
					continue
				}
				// the mark: len(<load .Buf>) (through φ)
				var marks []*ssa.Call
				var find func(v ssa.Value, d int)
				find = func(v ssa.Value, d int) {
					if d > 4 {
						return
					}
					switch x := v.(type) {
					case *ssa.Call:
						if bi, ok := x.Call.Value.(*ssa.Builtin); ok && bi.Name() == "len" {
							if ld, ok := x.Call.Args[0].(*ssa.UnOp); ok && ld.Op == token.MUL {
								if _, n, ok := fieldNameOf(ld.X); ok && n == "Buf" {
									marks = append(marks, x)
								}
							}
						}
					case *ssa.Phi:
						for _, e := range x.Edges {
							find(e, d+1)
						}
					}
				}
				find(sl.High, 0)
				if len(marks) == 0 {
					continue
				}
				if loops == nil {
					loops = naturalLoops(fn)
				}
				for _, m := range marks {
					var lp *natLoop
					for _, l := range loops {
						if l.blocks[m.Block()] && l.blocks[b] && (lp == nil || len(l.blocks) < len(lp.blocks)) {
							lp = l
						}
					}
					if lp == nil {
						continue
					}
					rc.Examined++
					// is a write reachable on a path head -> mark (inside the loop) before the mark?
					bad := false
					var hit ssa.Instruction
					seen := map[*ssa.BasicBlock]bool{}
					// backward from the mark to the loop head: any write passed?
					var back func(x *ssa.BasicBlock, from int)
					back = func(x *ssa.BasicBlock, from int) {
						for k := from; k >= 0; k-- {
							if isBufWrite(x.Instrs[k]) {
								if st2, ok := x.Instrs[k].(*ssa.Store); ok && st2 == st {
									continue
								}
								bad = true
								hit = x.Instrs[k]
								return
							}
						}
						if x == lp.head {
							return
						}
						for _, p := range x.Preds {
							if lp.blocks[p] && !seen[p] && !bad {
								seen[p] = true
								back(p, len(p.Instrs)-1)
							}
						}
					}
					back(m.Block(), indexOfInstr(m.Block(), m)-1)
					if bad {
						rc.bad(fn, "undo mark", m.Pos(), "the rewind mark is taken after this iteration has already written to the buffer ("+rc.W.relPos(hit.Pos())+"): cutting back to it leaves that part of the entry (a dangling key / field header) in the output")
					} else {
						rc.ok(fn, "undo mark", m.Pos(), "the mark precedes everything the iteration writes", true)
					}
				}
			}
		}
	}
}

package main

import (
	"go/types"
	"strings"

	"golang.org/x/tools/go/ssa"
)

// DEADARM: the library classifies its own errors by asserting an `error` value to one of its
// concrete error types (`case Node:`, `err.(meta.Error)`). Such an arm can only match if some
// function of the library actually boxes a value of exactly that type into an interface; an arm
// naming `*T` where only `T` values are ever boxed (or the reverse) compiles — both have the Error
// method in their method set — and silently never matches.
func init() {
	register(&Rule{
		Name:     "DEADARM",
		Doc:      "every type assertion / type-switch arm on a value of interface type `error` that names a concrete type declared in this module names a type of which some function of the module boxes a value into `error` or another interface that has the Error method (MakeInterface with exactly that operand type; boxing into interface{} for a pool or a format argument does not count): an arm for `*T` where only `T` values are ever boxed never matches, so the error is classified by the default arm",
		Configs:  "NP",
		Floor:    map[string]int{"N": 12, "P": 12},
		Controls: 1,
		Run:      runDeadArm,
	})
}

func repoDeclared(t types.Type) bool {
	if p, ok := t.(*types.Pointer); ok {
		t = p.Elem()
	}
	n, ok := t.(*types.Named)
	if !ok || n.Obj().Pkg() == nil {
		return false
	}
	return inRepo(n.Obj().Pkg().Path())
}

func runDeadArm(rc *RuleCtx) {
	w := rc.W
	boxed := map[string]string{}
	errIface := types.Universe.Lookup("error").Type().Underlying().(*types.Interface)
	for _, fn := range w.Funcs {
		for _, b := range fn.Blocks {
			for _, ins := range b.Instrs {
				if mi, ok := ins.(*ssa.MakeInterface); ok {
					// boxed as an error (or a wider interface that has Error): boxing into interface{}
					// (pools, fmt arguments) does not make the value an error anyone can receive
					if it, ok := mi.Type().Underlying().(*types.Interface); ok && types.Implements(mi.Type(), errIface) && it.NumMethods() > 0 {
						if _, seen := boxed[types.TypeString(mi.X.Type(), nil)]; !seen {
							boxed[types.TypeString(mi.X.Type(), nil)] = fn.String()
						}
					}
				}
			}
		}
	}
	errT := types.Universe.Lookup("error").Type()
	for _, fn := range w.Funcs {
		for _, b := range fn.Blocks {
			for _, ins := range b.Instrs {
				ta, ok := ins.(*ssa.TypeAssert)
				if !ok {
					continue
				}
				if !types.Identical(ta.X.Type(), errT) {
					continue
				}
				at := ta.AssertedType
				if types.IsInterface(at) || !repoDeclared(at) {
					continue
				}
				rc.Examined++
				name := strings.ReplaceAll(types.TypeString(at, nil), modPath+"/", "")
				where, good := boxed[types.TypeString(at, nil)]
				rc.verdict(good, fn, "error.("+name+")", ta.Pos(), map[bool]string{
					true:  "values of type " + name + " are boxed as errors by the module (e.g. in " + strings.ReplaceAll(where, modPath+"/", "") + ")",
					false: "no function of the module ever boxes a value of type " + name + " as an error, so this arm / assertion on an error never matches (pointer vs value form of the error type?)"}[good], true)
			}
		}
	}
}

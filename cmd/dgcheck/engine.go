package main

import (
	"fmt"
	"go/constant"
	"go/token"
	"go/types"
	"sort"
	"strings"

	"golang.org/x/tools/go/ssa"
)

var errType = types.Universe.Lookup("error").Type()

func errIndex(sig *types.Signature) int {
	r := sig.Results()
	for i := r.Len() - 1; i >= 0; i-- {
		if types.Identical(r.At(i).Type(), errType) {
			return i
		}
	}
	return -1
}

func lastInstr(b *ssa.BasicBlock) ssa.Instruction {
	if len(b.Instrs) == 0 {
		return nil
	}
	return b.Instrs[len(b.Instrs)-1]
}

func staticCallee(ins ssa.Instruction) *ssa.Function {
	switch c := ins.(type) {
	case *ssa.Call:
		return c.Call.StaticCallee()
	case *ssa.Defer:
		return c.Call.StaticCallee()
	case *ssa.Go:
		return c.Call.StaticCallee()
	}
	return nil
}

// calleeShort: module-relative resolved callee name, "" if dynamic.
func calleeShort(ins ssa.Instruction) string {
	if f := staticCallee(ins); f != nil {
		return shortName(f)
	}
	return ""
}

func isNilConst(v ssa.Value) bool {
	c, ok := v.(*ssa.Const)
	return ok && c.IsNil()
}

func constInt(v ssa.Value) (int64, bool) {
	c, ok := v.(*ssa.Const)
	if !ok || c.Value == nil || c.Value.Kind() != constant.Int {
		return 0, false
	}
	i, ok := constant.Int64Val(c.Value)
	return i, ok
}

func constBool(v ssa.Value) (bool, bool) {
	c, ok := v.(*ssa.Const)
	if !ok || c.Value == nil || c.Value.Kind() != constant.Bool {
		return false, false
	}
	return constant.BoolVal(c.Value), true
}

// fieldName of a FieldAddr / Field.
func fieldNameOf(v ssa.Value) (owner types.Type, name string, ok bool) {
	switch x := v.(type) {
	case *ssa.FieldAddr:
		pt, ok := x.X.Type().Underlying().(*types.Pointer)
		if !ok {
			return nil, "", false
		}
		st, ok := pt.Elem().Underlying().(*types.Struct)
		if !ok {
			return nil, "", false
		}
		return pt.Elem(), st.Field(x.Field).Name(), true
	case *ssa.Field:
		st, ok := x.X.Type().Underlying().(*types.Struct)
		if !ok {
			return nil, "", false
		}
		return x.X.Type(), st.Field(x.Field).Name(), true
	}
	return nil, "", false
}

func typeShort(t types.Type) string {
	return strings.ReplaceAll(types.TypeString(t, nil), modPath+"/", "")
}

// errValue returns the SSA value carrying the error result of a call (nil if unused/absent).
func errValueOf(call *ssa.Call) ssa.Value {
	sig := call.Call.Signature()
	ei := errIndex(sig)
	if ei < 0 {
		return nil
	}
	if sig.Results().Len() == 1 {
		return call
	}
	for _, r := range *call.Referrers() {
		if ex, ok := r.(*ssa.Extract); ok && ex.Index == ei {
			return ex
		}
	}
	return nil
}

// ---------- must-non-nil error classification ----------

type errClass struct {
	mustFail map[*ssa.Function]bool
}

func (w *World) EC() *errClass {
	if w.ec != nil {
		return w.ec
	}
	ec := &errClass{mustFail: map[*ssa.Function]bool{}}
	changed := true
	for changed { // least fixpoint
		changed = false
		for _, fn := range w.Funcs {
			if ec.mustFail[fn] || fn.Blocks == nil {
				continue
			}
			ei := errIndex(fn.Signature)
			if ei < 0 {
				continue
			}
			all, nret := true, 0
			for _, b := range fn.Blocks {
				ret, ok := lastInstr(b).(*ssa.Return)
				if !ok {
					continue
				}
				nret++
				if !ec.nonNil(ret.Results[ei], nil, map[ssa.Value]bool{}) {
					all = false
				}
			}
			if all && nret > 0 {
				ec.mustFail[fn] = true
				changed = true
			}
		}
	}
	w.ec = ec
	return ec
}

// nonNil: v is certainly a non-nil error. from: predecessor block for phi resolution (may be nil).
func (ec *errClass) nonNil(v ssa.Value, from *ssa.BasicBlock, seen map[ssa.Value]bool) bool {
	if seen[v] {
		return false
	}
	seen[v] = true
	switch x := v.(type) {
	case *ssa.Const:
		return !x.IsNil()
	case *ssa.MakeInterface:
		return true
	case *ssa.ChangeInterface:
		return ec.nonNil(x.X, from, seen)
	case *ssa.Call:
		if cal := x.Call.StaticCallee(); cal != nil {
			if ec.mustFail[cal] {
				return true
			}
			n := cal.String()
			if n == "errors.New" || n == "fmt.Errorf" {
				return true
			}
		}
		return false
	case *ssa.Extract:
		if c, ok := x.Tuple.(*ssa.Call); ok {
			if cal := c.Call.StaticCallee(); cal != nil && ec.mustFail[cal] {
				return true
			}
		}
		return false
	case *ssa.UnOp:
		if x.Op == token.MUL {
			if g, ok := x.X.(*ssa.Global); ok {
				// package-level error variables (err*/Err*) are initialised non-nil and never reassigned in this repo
				if strings.HasPrefix(strings.ToLower(g.Name()), "err") || (g.Pkg != nil && g.Pkg.Pkg.Path() == "io" && (g.Name() == "EOF" || g.Name() == "ErrUnexpectedEOF")) {
					return true
				}
			}
		}
		return false
	case *ssa.Phi:
		if from != nil && x.Block() != nil {
			for i, p := range x.Block().Preds {
				if p == from {
					return ec.nonNil(x.Edges[i], nil, seen)
				}
			}
		}
		for _, e := range x.Edges {
			if !ec.nonNil(e, nil, seen) {
				return false
			}
		}
		return true
	}
	return false
}

// ---------- mayFail summary ----------

// MayFail: the function may return a non-nil error (least fixpoint over static callees;
// unknown/dynamic callees may fail).
func (w *World) MayFail() map[*ssa.Function]bool {
	if w.mayFail != nil {
		return w.mayFail
	}
	may := map[*ssa.Function]bool{}
	var valMay func(v ssa.Value, seen map[ssa.Value]bool) bool
	calleeMay := func(c *ssa.Call) bool {
		if cal := c.Call.StaticCallee(); cal != nil {
			if cal.Blocks == nil || !inRepo(pkgPathOf(cal)) {
				return true
			}
			return may[cal]
		}
		return true
	}
	valMay = func(v ssa.Value, seen map[ssa.Value]bool) bool {
		if seen[v] {
			return false
		}
		seen[v] = true
		switch x := v.(type) {
		case *ssa.Const:
			return !x.IsNil()
		case *ssa.Phi:
			for _, e := range x.Edges {
				if valMay(e, seen) {
					return true
				}
			}
			return false
		case *ssa.Extract:
			if call, ok := x.Tuple.(*ssa.Call); ok {
				return calleeMay(call)
			}
			return true
		case *ssa.Call:
			return calleeMay(x)
		default:
			return true
		}
	}
	changed := true
	for changed {
		changed = false
		for _, fn := range w.Funcs {
			if may[fn] {
				continue
			}
			ei := errIndex(fn.Signature)
			if ei < 0 {
				continue
			}
			for _, b := range fn.Blocks {
				ret, ok := lastInstr(b).(*ssa.Return)
				if !ok {
					continue
				}
				if valMay(ret.Results[ei], map[ssa.Value]bool{}) {
					may[fn] = true
					changed = true
					break
				}
			}
		}
	}
	w.mayFail = may
	return may
}

// calleeMayFail: may the call return a non-nil error?
func (w *World) calleeMayFail(c *ssa.Call) bool {
	if cal := c.Call.StaticCallee(); cal != nil && cal.Blocks != nil && inRepo(pkgPathOf(cal)) {
		return w.MayFail()[cal]
	}
	return true
}

// ---------- CFG helpers ----------

var cyclicCache = map[*ssa.Function]map[*ssa.BasicBlock]bool{}

func inCycle(b *ssa.BasicBlock) bool {
	fn := b.Parent()
	m := cyclicCache[fn]
	if m == nil {
		m = map[*ssa.BasicBlock]bool{}
		for _, x := range fn.Blocks {
			seen := map[*ssa.BasicBlock]bool{}
			stack := append([]*ssa.BasicBlock{}, x.Succs...)
			for len(stack) > 0 {
				y := stack[len(stack)-1]
				stack = stack[:len(stack)-1]
				if y == x {
					m[x] = true
					break
				}
				if seen[y] {
					continue
				}
				seen[y] = true
				stack = append(stack, y.Succs...)
			}
		}
		cyclicCache[fn] = m
	}
	return m[b]
}

func loopInvariant(v ssa.Value) bool {
	switch x := v.(type) {
	case *ssa.Parameter, *ssa.Const, *ssa.FreeVar:
		return true
	case *ssa.BinOp:
		return loopInvariant(x.X) && loopInvariant(x.Y)
	case *ssa.Phi:
		return false
	}
	if ins, ok := v.(ssa.Instruction); ok && ins.Block() != nil {
		return !inCycle(ins.Block())
	}
	return false
}

func condKey(v ssa.Value) (ssa.Value, bool) {
	neg := false
	for {
		if u, ok := v.(*ssa.UnOp); ok && u.Op == token.NOT {
			v = u.X
			neg = !neg
			continue
		}
		break
	}
	return v, neg
}

// nilTest decodes `x == nil` / `x != nil`: subject and whether the TRUE edge means "is nil".
func nilTest(cond ssa.Value) (subject ssa.Value, nilOnTrue bool, ok bool) {
	k, neg := condKey(cond)
	bo, isBin := k.(*ssa.BinOp)
	if !isBin || (bo.Op != token.NEQ && bo.Op != token.EQL) {
		return nil, false, false
	}
	if isNilConst(bo.Y) {
		subject = bo.X
	} else if isNilConst(bo.X) {
		subject = bo.Y
	} else {
		return nil, false, false
	}
	nilOnTrue = bo.Op == token.EQL
	if neg {
		nilOnTrue = !nilOnTrue
	}
	return subject, nilOnTrue, true
}

// edgeRegion: blocks that can only be entered through the edge from->succ (succ has the single
// predecessor `from` and dominates them).
func edgeRegion(succ *ssa.BasicBlock) map[*ssa.BasicBlock]bool {
	r := map[*ssa.BasicBlock]bool{}
	if len(succ.Preds) != 1 {
		return r
	}
	for _, d := range succ.Parent().Blocks {
		if succ.Dominates(d) {
			r[d] = true
		}
	}
	return r
}

type natLoop struct {
	head   *ssa.BasicBlock
	latch  []*ssa.BasicBlock
	blocks map[*ssa.BasicBlock]bool
}

// naturalLoops groups back edges by header.
func naturalLoops(fn *ssa.Function) []*natLoop {
	byHead := map[*ssa.BasicBlock]*natLoop{}
	var order []*ssa.BasicBlock
	for _, b := range fn.Blocks {
		for _, h := range b.Succs {
			if !h.Dominates(b) {
				continue
			}
			l := byHead[h]
			if l == nil {
				l = &natLoop{head: h, blocks: map[*ssa.BasicBlock]bool{h: true}}
				byHead[h] = l
				order = append(order, h)
			}
			l.latch = append(l.latch, b)
			stack := []*ssa.BasicBlock{b}
			for len(stack) > 0 {
				x := stack[len(stack)-1]
				stack = stack[:len(stack)-1]
				if l.blocks[x] {
					continue
				}
				l.blocks[x] = true
				stack = append(stack, x.Preds...)
			}
		}
	}
	var out []*natLoop
	for _, h := range order {
		out = append(out, byHead[h])
	}
	return out
}

func firstPos(b *ssa.BasicBlock) token.Pos {
	for _, ins := range b.Instrs {
		if ins.Pos().IsValid() {
			return ins.Pos()
		}
	}
	return token.NoPos
}

// blockPos: best-effort position for a block (search forward through successors).
func blockPos(b *ssa.BasicBlock) token.Pos {
	seen := map[*ssa.BasicBlock]bool{}
	q := []*ssa.BasicBlock{b}
	for len(q) > 0 {
		x := q[0]
		q = q[1:]
		if seen[x] {
			continue
		}
		seen[x] = true
		if p := firstPos(x); p.IsValid() {
			return p
		}
		q = append(q, x.Succs...)
	}
	return fnPos(b.Parent())
}

// ---------- MUSTPASS ----------

type mpQuery struct {
	fn      *ssa.Function
	start   ssa.Instruction            // nil: armed from entry
	isEvent func(ssa.Instruction) bool // passing one satisfies the obligation on that path
	target  func(ssa.Instruction) bool // nil: success return
	w       *World
	// armFrom/armTo: arm when the edge armFrom->armTo is traversed (instead of at `start`)
	armFrom, armTo *ssa.BasicBlock
	// isErrReturn, when set, classifies a return as an error exit (for functions whose failure is not an `error` result)
	isErrReturn func(*ssa.Return, *ssa.BasicBlock) bool
	// implied: on the FALSE edge of a condition that is one of these values, the mapped value is known non-nil
	implied map[ssa.Value]ssa.Value
}

type mpResult struct {
	path []*ssa.BasicBlock
	exit *ssa.BasicBlock
	at   ssa.Instruction
}

type mpFacts struct {
	conds  map[ssa.Value]bool
	nonnil map[ssa.Value]bool
	cells  map[ssa.Value]ssa.Value // local cell (Alloc) -> value last stored on this path
}

func (f mpFacts) key() string {
	var ks []string
	for k, v := range f.conds {
		ks = append(ks, fmt.Sprintf("%p=%v", k, v))
	}
	for k := range f.nonnil {
		ks = append(ks, fmt.Sprintf("nn:%p", k))
	}
	for k, v := range f.cells {
		ks = append(ks, fmt.Sprintf("c:%p=%p", k, v))
	}
	sort.Strings(ks)
	return strings.Join(ks, ",")
}

func (f mpFacts) clone() mpFacts {
	n := mpFacts{map[ssa.Value]bool{}, map[ssa.Value]bool{}, map[ssa.Value]ssa.Value{}}
	for k, v := range f.cells {
		n.cells[k] = v
	}
	for k, v := range f.conds {
		n.conds[k] = v
	}
	for k, v := range f.nonnil {
		n.nonnil[k] = v
	}
	return n
}

// mustPass: walking from the function entry, once `start` has executed (armed), is there a path to
// a target (default: success return) avoiding all events? Returns the offending path or nil.
func mustPass(q mpQuery) *mpResult {
	fn := q.fn
	ec := q.w.EC()
	ei := errIndex(fn.Signature)
	type state struct {
		b     *ssa.BasicBlock
		armed bool
		facts string
	}
	visited := map[state]bool{}
	var found *mpResult
	var walk func(b, from *ssa.BasicBlock, armed bool, f mpFacts, path []*ssa.BasicBlock)
	walk = func(b, from *ssa.BasicBlock, armed bool, f mpFacts, path []*ssa.BasicBlock) {
		if found != nil {
			return
		}
		if q.armTo != nil && b == q.armTo && from == q.armFrom {
			armed = true
		}
		// boolean phis with a constant incoming value on this edge (found-flags) become path facts
		if from != nil {
			for _, pi := range b.Instrs {
				ph, ok := pi.(*ssa.Phi)
				if !ok {
					break
				}
				for i, p := range b.Preds {
					if p == from {
						if cv, ok := constBool(ph.Edges[i]); ok {
							f = f.clone()
							f.conds[ph] = cv
						} else if _, had := f.conds[ph]; had {
							f = f.clone()
							delete(f.conds, ph)
						}
					}
				}
			}
		}
		st := state{b, armed, f.key()}
		if visited[st] {
			return
		}
		visited[st] = true
		if armed {
			path = append(path, b)
		}
		for _, ins := range b.Instrs {
			if q.start != nil && ins == q.start {
				if !armed {
					armed = true
					path = append(path, b)
				}
				continue
			}
			if armed && q.isEvent(ins) {
				return
			}
			if armed && q.target != nil && q.target(ins) {
				found = &mpResult{path: append([]*ssa.BasicBlock{}, path...), exit: b, at: ins}
				return
			}
			switch x := ins.(type) {
			case *ssa.Store:
				if a, ok := x.Addr.(*ssa.Alloc); ok && !a.Heap || ok && isResultCell(a) {
					f = f.clone()
					f.cells[a] = x.Val
				}
			case *ssa.UnOp:
				if a, ok := x.X.(*ssa.Alloc); ok && x.Op == token.MUL {
					if v, ok := f.cells[a]; ok {
						f = f.clone()
						f.cells[x] = v // the load yields the value last stored on this path
					} else if isResultCell(a) {
						f = f.clone()
						f.cells[x] = nil // zero value: nil
					}
				}
			case *ssa.Return:
				if !armed || q.target != nil {
					return
				}
				if q.isErrReturn != nil && q.isErrReturn(x, from) {
					return
				}
				if ei >= 0 {
					rv := x.Results[ei]
					if sv, ok := f.cells[rv]; ok {
						if sv == nil {
							found = &mpResult{path: append([]*ssa.BasicBlock{}, path...), exit: b, at: ins}
							return
						}
						rv = sv
					}
					if f.nonnil[rv] || ec.nonNil(rv, from, map[ssa.Value]bool{}) {
						return // error exit
					}
					if ph, ok := rv.(*ssa.Phi); ok && from != nil && ph.Block() == b {
						for i, p := range b.Preds {
							if p == from && f.nonnil[ph.Edges[i]] {
								return
							}
						}
					}
				}
				found = &mpResult{path: append([]*ssa.BasicBlock{}, path...), exit: b, at: ins}
				return
			case *ssa.Panic:
				return
			case *ssa.If:
				k, neg := condKey(x.Cond)
				inv := loopInvariant(k)
				subj, nilOnTrue, isNilT := nilTest(x.Cond)
				for si, s := range b.Succs {
					val := si == 0 // truth of x.Cond on this edge
					kval := val
					if neg {
						kval = !kval
					}
					if cv, ok := constBool(k); ok && cv != kval {
						continue
					}
					nf := f
					if inv || isNilT {
						nf = f.clone()
					}
					if prev, ok := f.conds[k]; ok {
						if prev != kval {
							continue
						}
					} else if inv {
						nf.conds[k] = kval
					}
					if iv, ok := q.implied[k]; ok && !kval {
						if !inv && !isNilT {
							nf = f.clone()
						}
						nf.nonnil[iv] = true
					}
					if isNilT {
						isNil := val == nilOnTrue
						if isNil && f.nonnil[subj] {
							continue // contradicts a fact
						}
						if !isNil {
							nf.nonnil[subj] = true
						}
					}
					walk(s, b, armed, nf, path)
				}
				return
			case *ssa.Jump:
				walk(b.Succs[0], b, armed, f, path)
				return
			}
		}
	}
	walk(fn.Blocks[0], nil, q.start == nil && q.armTo == nil, mpFacts{map[ssa.Value]bool{}, map[ssa.Value]bool{}, map[ssa.Value]ssa.Value{}}, nil)
	return found
}

func (w *World) pathStrings(r *mpResult) []string {
	var out []string
	for _, b := range r.path {
		out = append(out, fmt.Sprintf("block %d (%s) %s", b.Index, b.Comment, w.relPos(blockPos(b))))
	}
	if r.at != nil {
		out = append(out, "reaches "+w.relPos(instrPos(r.at)))
	}
	return out
}

func instrPos(ins ssa.Instruction) token.Pos {
	if ins.Pos().IsValid() {
		return ins.Pos()
	}
	return blockPos(ins.Block())
}

// isResultCell: the Alloc is the spilled cell of a named result (go/ssa spills results of
// functions that defer).
func isResultCell(a *ssa.Alloc) bool {
	fn := a.Parent()
	if fn == nil {
		return false
	}
	res := fn.Signature.Results()
	for i := 0; i < res.Len(); i++ {
		if res.At(i).Name() != "" && res.At(i).Name() == a.Comment {
			return true
		}
	}
	return false
}

// callsOnAllPaths: every path from fn's entry to a success return passes an event (wrapper summary).
func callsOnAllPaths(w *World, fn *ssa.Function, isEvent func(ssa.Instruction) bool) bool {
	if fn.Blocks == nil {
		return false
	}
	return mustPass(mpQuery{fn: fn, isEvent: isEvent, w: w}) == nil
}

// wrapperSet: the named callees plus repo functions that call one of them on every success path
// (bounded depth).
func wrapperSet(w *World, base func(*ssa.Function) bool, depth int) map[*ssa.Function]bool {
	set := map[*ssa.Function]bool{}
	for _, fn := range w.Funcs {
		if base(fn) {
			set[fn] = true
		}
	}
	for d := 0; d < depth; d++ {
		var add []*ssa.Function
		for _, fn := range w.Funcs {
			if set[fn] || fn.Blocks == nil {
				continue
			}
			has := false
			for _, b := range fn.Blocks {
				for _, ins := range b.Instrs {
					if c := staticCallee(ins); c != nil && set[c] {
						if _, isCall := ins.(*ssa.Call); isCall {
							has = true
						}
					}
				}
			}
			if !has {
				continue
			}
			if callsOnAllPaths(w, fn, func(i ssa.Instruction) bool {
				_, isCall := i.(*ssa.Call)
				c := staticCallee(i)
				return isCall && c != nil && set[c]
			}) {
				add = append(add, fn)
			}
		}
		if len(add) == 0 {
			break
		}
		for _, f := range add {
			set[f] = true
		}
	}
	return set
}

// ---------- control dependence on edges ----------

// controllingIfs returns, innermost first, the If blocks whose one edge dominates b
// together with the truth value of the condition on that edge.
type ctrlDep struct {
	ifb  *ssa.BasicBlock
	cond ssa.Value
	val  bool
}

func controllingIfs(b *ssa.BasicBlock) []ctrlDep {
	var out []ctrlDep
	for d := b; d != nil; d = d.Idom() {
		id := d.Idom()
		if id == nil {
			break
		}
		iff, ok := lastInstr(id).(*ssa.If)
		if !ok {
			continue
		}
		edgeDom := func(s *ssa.BasicBlock) bool {
			return len(s.Preds) == 1 && (s == d || s.Dominates(d))
		}
		onTrue := edgeDom(id.Succs[0])
		onFalse := edgeDom(id.Succs[1])
		if onTrue == onFalse {
			continue
		}
		out = append(out, ctrlDep{ifb: id, cond: iff.Cond, val: onTrue})
	}
	return out
}

// fieldNameOfInstr: the (owner, field) addressed or extracted by an instruction, if any.
func fieldNameOfInstr(ins ssa.Instruction) (types.Type, string, bool) {
	if v, ok := ins.(ssa.Value); ok {
		return fieldNameOf(v)
	}
	return nil, "", false
}

package main

import (
	"go/token"
	"sort"
	"strings"

	"golang.org/x/tools/go/ssa"
)

// MSGNARROW: the walkers of unpacked repeated fields and of map fields consume elements "while the
// next tag has my field number, until the end of the buffer" (`for p.Read < len(p.Buf)`). That is
// exact only if the buffer ends where the enclosing message ends. A function that enters an
// embedded message (it has just decoded the message's length with ReadLength) and then runs such a
// walker on the same cursor must first cut the cursor's buffer at the message end
// (`p.Buf = p.Buf[:start+len]`), otherwise a repeated field at the end of the nested message
// swallows a following field of the PARENT that happens to carry the same number.
func init() {
	register(&Rule{
		Name:     "MSGNARROW",
		Doc:      "W0 = protobuf functions containing a loop bounded only by the end of the buffer (`cursor.Read < len(cursor.Buf)`); W = W0 plus every function that can reach a call of a W function, handing over its cursor, on a path from its entry without cutting the buffer first (a store `cursor.Buf = …[lo:hi]`). Obligation: for every ReadLength() after which a call of a W function on that cursor is reachable, a narrowing store dominates the ReadLength or lies on every path from it to the call (exception: a function-local cursor over the receiver's own bytes whose length is read once, outside any loop — that is the framing of the value itself)",
		Configs:  "NP",
		Floor:    map[string]int{"N": 4, "P": 4},
		Controls: 1,
		Run:      runMsgNarrow,
	})
}

func isProtoCursor(v ssa.Value) bool {
	return strings.HasSuffix(strings.TrimPrefix(typeShort(v.Type()), "*"), "proto/binary.BinaryProtocol")
}

func isNarrowStore(ins ssa.Instruction) bool {
	st, ok := ins.(*ssa.Store)
	if !ok {
		return false
	}
	t, n, ok := fieldNameOf(st.Addr)
	if !ok || n != "Buf" || !strings.HasSuffix(typeShort(t), "proto/binary.BinaryProtocol") {
		return false
	}
	sl, ok := st.Val.(*ssa.Slice)
	return ok && sl.High != nil
}

func runMsgNarrow(rc *RuleCtx) {
	w := rc.W
	// W0
	W := map[*ssa.Function]bool{}
	for _, fn := range w.Funcs {
		if fn.Blocks == nil || !strings.HasPrefix(pkgRel(fn), "proto") && !strings.HasPrefix(pkgRel(fn), "conv/p2j") && !w.isControlFn(fn) {
			continue
		}
		for _, lp := range naturalLoops(fn) {
			iff, ok := lastInstr(lp.head).(*ssa.If)
			if !ok {
				continue
			}
			bo, ok := iff.Cond.(*ssa.BinOp)
			if !ok || bo.Op != token.LSS {
				continue
			}
			ld, ok := bo.X.(*ssa.UnOp)
			if !ok {
				continue
			}
			if t, n, ok := fieldNameOf(ld.X); !ok || n != "Read" || !strings.HasSuffix(typeShort(t), "proto/binary.BinaryProtocol") {
				continue
			}
			c, ok := bo.Y.(*ssa.Call)
			if !ok {
				continue
			}
			if bi, ok := c.Call.Value.(*ssa.Builtin); !ok || bi.Name() != "len" {
				continue
			}
			W[fn] = true
		}
	}
	var w0 []string
	for f := range W {
		w0 = append(w0, shortName(f))
	}
	sort.Strings(w0)
	rc.Notes["open_ended_walkers"] = strings.Join(w0, ",")
	if len(w0) < 3 {
		broken("MSGNARROW: only %d open-ended walkers found", len(w0))
	}
	// unprotected W-calls of a function: calls to a W function that pass a cursor and are reachable from the entry without a narrowing store
	wcalls := func(fn *ssa.Function) (all []ssa.Instruction, unprotected map[ssa.Instruction]bool) {
		unprotected = map[ssa.Instruction]bool{}
		for _, b := range fn.Blocks {
			for _, ins := range b.Instrs {
				c, ok := ins.(ssa.CallInstruction)
				if !ok {
					continue
				}
				cal := c.Common().StaticCallee()
				if cal == nil || !W[cal] {
					continue
				}
				hasCursor := false
				for _, a := range c.Common().Args {
					if isProtoCursor(a) {
						hasCursor = true
					}
				}
				if hasCursor {
					all = append(all, ins)
				}
			}
		}
		if len(all) == 0 {
			return
		}
		// forward reachability from entry avoiding narrowing stores
		seen := map[*ssa.BasicBlock]bool{}
		var walk func(b *ssa.BasicBlock)
		walk = func(b *ssa.BasicBlock) {
			if seen[b] {
				return
			}
			seen[b] = true
			for _, ins := range b.Instrs {
				if isNarrowStore(ins) {
					return
				}
				for _, c := range all {
					if c == ins {
						unprotected[ins] = true
					}
				}
			}
			for _, s := range b.Succs {
				walk(s)
			}
		}
		walk(fn.Blocks[0])
		return
	}
	for changed := true; changed; {
		changed = false
		for _, fn := range w.Funcs {
			if fn.Blocks == nil || W[fn] {
				continue
			}
			if _, un := wcalls(fn); len(un) > 0 {
				W[fn] = true
				changed = true
			}
		}
	}
	rc.Stats["W"] = len(W)
	// obligations
	for _, fn := range w.Funcs {
		if fn.Blocks == nil {
			continue
		}
		all, _ := wcalls(fn)
		if len(all) == 0 {
			continue
		}
		inLoop := map[*ssa.BasicBlock]bool{}
		for _, lp := range naturalLoops(fn) {
			for b := range lp.blocks {
				inLoop[b] = true
			}
		}
		for _, b := range fn.Blocks {
			for _, ins := range b.Instrs {
				c, ok := ins.(*ssa.Call)
				if !ok {
					continue
				}
				cal := c.Call.StaticCallee()
				if cal == nil || cal.Name() != "ReadLength" || len(c.Call.Args) == 0 {
					continue
				}
				// a function-local cursor over the receiver's own bytes whose length is read once (not in a
				// loop): that is the framing of the value the function was given, not an embedded message
				// inside a larger buffer
				root := c.Call.Args[0]
				for {
					if fa, ok := root.(*ssa.FieldAddr); ok {
						root = fa.X
						continue
					}
					break
				}
				if _, isAlloc := root.(*ssa.Alloc); isAlloc && !inLoop[b] {
					continue
				}
				// (b) the buffer was cut before the length was read
				cutBefore := false
				for _, ob := range fn.Blocks {
					for oi, oins := range ob.Instrs {
						if !isNarrowStore(oins) {
							continue
						}
						if ob == b {
							if oi < indexOfInstr(b, ins) {
								cutBefore = true
							}
						} else if ob.Dominates(b) {
							cutBefore = true
						}
					}
				}
				// (a) W-calls reachable from R without passing a narrowing store
				var bad, reached []ssa.Instruction
				seen := map[*ssa.BasicBlock]bool{}
				var walk func(x *ssa.BasicBlock, from int)
				walk = func(x *ssa.BasicBlock, from int) {
					for k := from; k < len(x.Instrs); k++ {
						if isNarrowStore(x.Instrs[k]) {
							return
						}
						for _, wc := range all {
							if wc == x.Instrs[k] {
								bad = append(bad, wc)
							}
						}
					}
					for _, s := range x.Succs {
						if !seen[s] {
							seen[s] = true
							walk(s, 0)
						}
					}
				}
				walk(b, indexOfInstr(b, ins)+1)
				after := reachAfter(ins)
				for _, wc := range all {
					if after[wc] {
						reached = append(reached, wc)
					}
				}
				if len(reached) == 0 {
					continue
				}
				rc.Examined++
				if len(bad) == 0 || cutBefore {
					rc.ok(fn, "ReadLength -> walker", ins.Pos(), "the buffer is cut (before the length is read, or between the length and every open-ended walker that can follow it)", true)
				} else {
					callee := bad[0].(ssa.CallInstruction).Common().StaticCallee()
					rc.bad(fn, "ReadLength -> walker", ins.Pos(), "after this length has been decoded, "+callee.Name()+" ("+w.relPos(bad[0].Pos())+") runs on the same cursor and can walk to the end of the buffer (it is, or reaches, a `Read < len(Buf)` loop) although the buffer was never cut at the end of the embedded value: a repeated/map field at the end of a nested message swallows a same-numbered field of the parent")
				}
			}
		}
	}
}

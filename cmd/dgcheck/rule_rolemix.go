package main

import (
	"fmt"
	"go/token"
	"sort"

	"golang.org/x/tools/go/ssa"
)

func init() {
	register(&Rule{
		Name: "ROLEMIX",
		Doc: "in functions that parse a raw container header into several type bytes (b[0] = key type, b[1] = value type …), every if / else-if / else chain that dispatches on one of them uses values derived from that SAME header byte in all of its conditions and in the arguments of the calls it makes: " +
			"skipping a key by the value's type (or testing the value's type in the key chain) mis-parses maps whose key and value types differ",
		Configs:  "NP",
		Floor:    map[string]int{"N": 2, "P": 2},
		Controls: 1,
		Run:      runRoleMix,
	})
}

// headerProv: the set of constant indexes i such that v derives from b[i] for a local byte slice b.
func headerProv(v ssa.Value, memo map[ssa.Value]map[int64]bool, depth int) map[int64]bool {
	if v == nil || depth > 12 {
		return nil
	}
	if m, ok := memo[v]; ok {
		return m
	}
	memo[v] = nil
	out := map[int64]bool{}
	add := func(m map[int64]bool) {
		for k := range m {
			out[k] = true
		}
	}
	switch x := v.(type) {
	case *ssa.UnOp:
		if ia, ok := x.X.(*ssa.IndexAddr); ok && x.Op == token.MUL {
			if i, ok := constInt(ia.Index); ok {
				if _, isParam := ia.X.(*ssa.Parameter); !isParam {
					if sl, ok := ia.X.Type().Underlying().(interface{ Elem() interface{} }); ok {
						_ = sl
					}
					out[i] = true
				}
			}
			// table lookup tbl[idx]: provenance of idx
			add(headerProv(ia.Index, memo, depth+1))
		} else {
			add(headerProv(x.X, memo, depth+1))
		}
	case *ssa.Convert:
		add(headerProv(x.X, memo, depth+1))
	case *ssa.ChangeType:
		add(headerProv(x.X, memo, depth+1))
	case *ssa.BinOp:
		add(headerProv(x.X, memo, depth+1))
		add(headerProv(x.Y, memo, depth+1))
	case *ssa.Phi:
		for _, e := range x.Edges {
			add(headerProv(e, memo, depth+1))
		}
	case *ssa.Index:
		add(headerProv(x.Index, memo, depth+1))
	case *ssa.Lookup:
		add(headerProv(x.Index, memo, depth+1))
	}
	memo[v] = out
	return out
}

func runRoleMix(rc *RuleCtx) {
	w := rc.W
	for _, fn := range w.Funcs {
		if fn.Blocks == nil {
			continue
		}
		pr := pkgRel(fn)
		if pr != "thrift" && pr != "thrift/generic" {
			continue
		}
		memo := map[ssa.Value]map[int64]bool{}
		// chain heads: an If whose false edge leads (through its edge region) to another If, and which is
		// not itself in the false-edge region of a previous chain member
		inChain := map[*ssa.BasicBlock]bool{}
		for _, b := range fn.Blocks {
			iff, ok := lastInstr(b).(*ssa.If)
			if !ok || inChain[b] {
				continue
			}
			chain := []*ssa.BasicBlock{b}
			cur := b
			for {
				els := cur.Succs[1]
				if len(els.Preds) != 1 {
					break
				}
				if _, ok := lastInstr(els).(*ssa.If); !ok || len(els.Instrs) > 3 {
					break
				}
				chain = append(chain, els)
				inChain[els] = true
				cur = els
			}
			if len(chain) < 2 {
				continue
			}
			_ = iff
			// provenance of every condition and of the call arguments in the arms
			prov := map[int64]bool{}
			var where []string
			note := func(v ssa.Value, what string) {
				for k := range headerProv(v, memo, 0) {
					if !prov[k] {
						prov[k] = true
						where = append(where, fmt.Sprintf("%s uses header byte %d", what, k))
					}
				}
			}
			last := chain[len(chain)-1]
			for _, cb := range chain {
				note(lastInstr(cb).(*ssa.If).Cond, "condition at "+w.relPos(instrPos(lastInstr(cb))))
				arms := []*ssa.BasicBlock{cb.Succs[0]}
				if cb == last {
					arms = append(arms, cb.Succs[1])
				}
				for _, arm := range arms {
					if len(arm.Preds) != 1 {
						continue
					}
					for _, ins := range arm.Instrs {
						if c, ok := ins.(*ssa.Call); ok {
							for _, a := range c.Call.Args {
								note(a, "call at "+w.relPos(c.Pos()))
							}
						}
					}
				}
			}
			if len(prov) == 0 {
				continue
			}
			rc.Examined++
			var ks []int
			for k := range prov {
				ks = append(ks, int(k))
			}
			sort.Ints(ks)
			if len(prov) == 1 {
				rc.ok(fn, "type-dispatch-chain", instrPos(lastInstr(b)), fmt.Sprintf("whole chain works on header byte %d", ks[0]), true)
			} else {
				o := rc.bad(fn, "type-dispatch-chain", instrPos(lastInstr(b)), fmt.Sprintf("one if/else-if chain mixes values derived from header bytes %v (key type and value type)", ks))
				o.Path = where
			}
		}
	}
}

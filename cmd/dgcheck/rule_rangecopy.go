package main

import (
	"go/ast"
	"go/types"
	"strings"
)

func runRangeCopyWrite(rc *RuleCtx) {
	for _, p := range rc.W.Pkgs {
		rel := strings.TrimPrefix(strings.TrimPrefix(p.PkgPath, modPath), "/")
		if strings.HasPrefix(rel, "testdata") {
			continue
		}
		info := p.TypesInfo
		for _, f := range p.Syntax {
			for _, d := range f.Decls {
				fd, ok := d.(*ast.FuncDecl)
				if !ok || fd.Body == nil {
					continue
				}
				name := declName(rel, fd)
				ast.Inspect(fd.Body, func(n ast.Node) bool {
					rs, ok := n.(*ast.RangeStmt)
					if !ok || rs.Value == nil {
						return true
					}
					id, ok := rs.Value.(*ast.Ident)
					if !ok || id.Name == "_" {
						return true
					}
					obj := info.Defs[id]
					if obj == nil {
						return true
					}
					if _, isStruct := obj.Type().Underlying().(*types.Struct); !isStruct {
						return true
					}
					rc.Examined++
					// base identifier of a selector chain k.f.g
					var base func(e ast.Expr) *ast.Ident
					base = func(e ast.Expr) *ast.Ident {
						switch x := ast.Unparen(e).(type) {
						case *ast.SelectorExpr:
							return base(x.X)
						case *ast.IndexExpr:
							// k.arr[i] = v writes through to shared storage only for slices/maps; arrays are copies
							if t := info.TypeOf(x.X); t != nil {
								if _, isArr := t.Underlying().(*types.Array); !isArr {
									return nil
								}
							}
							return base(x.X)
						case *ast.Ident:
							return x
						}
						return nil
					}
					var lastWrite ast.Node
					writeLHS := map[*ast.Ident]bool{}
					ast.Inspect(rs.Body, func(m ast.Node) bool {
						switch x := m.(type) {
						case *ast.AssignStmt:
							for _, l := range x.Lhs {
								if _, isSel := ast.Unparen(l).(*ast.SelectorExpr); !isSel {
									continue
								}
								if b := base(l); b != nil && info.Uses[b] == obj {
									// a pointer field in between means the write reaches shared storage
									if throughPointer(info, l) {
										continue
									}
									writeLHS[b] = true
									lastWrite = x
								}
							}
						case *ast.IncDecStmt:
							if _, isSel := ast.Unparen(x.X).(*ast.SelectorExpr); isSel {
								if b := base(x.X); b != nil && info.Uses[b] == obj && !throughPointer(info, x.X) {
									writeLHS[b] = true
									lastWrite = x
								}
							}
						}
						return true
					})
					if lastWrite == nil {
						rc.add(nil, name, "range copy "+id.Name, rs.Pos(), "discharged", "the loop body does not write to the per-iteration copy", false)
						return true
					}
					// any other use of k (a read, an address-of, a call argument) after or besides the writes observes them
					observed := false
					ast.Inspect(rs.Body, func(m ast.Node) bool {
						if u, ok := m.(*ast.Ident); ok && info.Uses[u] == obj && !writeLHS[u] {
							observed = true
						}
						return true
					})
					rc.add(nil, name, "range copy "+id.Name, lastWrite.Pos(), map[bool]string{true: "discharged", false: "violated"}[observed],
						map[bool]string{true: "the copy is written and then used inside the body",
							false: "the body assigns to a field of the range VALUE `" + id.Name + "` and never reads it: the write goes to a per-iteration copy, the elements of the ranged slice are unchanged"}[observed], true)
					return true
				})
			}
		}
	}
}

// throughPointer: does the selector chain dereference a pointer (k.p.f = v writes shared storage)?
func throughPointer(info *types.Info, e ast.Expr) bool {
	for {
		switch x := ast.Unparen(e).(type) {
		case *ast.SelectorExpr:
			if t := info.TypeOf(x.X); t != nil {
				if _, isPtr := t.Underlying().(*types.Pointer); isPtr {
					return true
				}
			}
			e = x.X
		case *ast.IndexExpr:
			e = x.X
		default:
			return false
		}
	}
}

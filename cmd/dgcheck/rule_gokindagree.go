package main

import (
	"go/ast"
	"go/types"
)

// GOKINDAGREE: thrift.WriteAny writes a Go value by a type switch; for the ELEMENTS of a slice or
// map it first asks GoType2ThriftType (a switch over reflect.Kind) for the element's thrift type.
// Every basic Go type that WriteAny's type switch accepts as a scalar must therefore have its
// reflect.Kind in GoType2ThriftType, or the value is accepted at the top level and rejected with
// "unsupported type" as soon as it sits inside a container.
func init() {
	register(&Rule{
		Name:     "GOKINDAGREE",
		Doc:      "for every basic Go type named as a case of the type switch of thrift.(*BinaryProtocol).WriteAny (bool, int8 … uint64, int, float32, float64, string), the switch over reflect.Kind in thrift.GoType2ThriftType has the corresponding label (reflect.Bool, reflect.Int8, …, reflect.Float32, …): the scalar writer and the container element classifier accept the same Go types",
		Configs:  "NP",
		Floor:    map[string]int{"N": 10, "P": 10},
		Controls: 0,
		Run:      runGoKindAgree,
	})
}

func runGoKindAgree(rc *RuleCtx) {
	w := rc.W
	p, wa := w.findDecl("(*thrift.BinaryProtocol).WriteAny")
	_, g2t := w.findDecl("thrift.GoType2ThriftType")
	kinds := map[string]bool{}
	ast.Inspect(g2t.Body, func(n ast.Node) bool {
		cc, ok := n.(*ast.CaseClause)
		if !ok {
			return true
		}
		for _, e := range cc.List {
			if sel, ok := e.(*ast.SelectorExpr); ok {
				if id, ok := sel.X.(*ast.Ident); ok && id.Name == "reflect" {
					kinds[sel.Sel.Name] = true
				}
			}
		}
		return true
	})
	if len(kinds) < 8 {
		broken("GOKINDAGREE: reflect.Kind switch of GoType2ThriftType not found")
	}
	n := 0
	ast.Inspect(wa.Body, func(nd ast.Node) bool {
		ts, ok := nd.(*ast.TypeSwitchStmt)
		if !ok {
			return true
		}
		for _, st := range ts.Body.List {
			cc := st.(*ast.CaseClause)
			for _, e := range cc.List {
				t := p.TypesInfo.TypeOf(e)
				b, ok := t.(*types.Basic)
				if !ok || b.Kind() == types.UntypedNil {
					continue
				}
				n++
				rc.Examined++
				kind := map[types.BasicKind]string{types.Bool: "Bool", types.Int: "Int", types.Int8: "Int8", types.Int16: "Int16", types.Int32: "Int32", types.Int64: "Int64",
					types.Uint: "Uint", types.Uint8: "Uint8", types.Uint16: "Uint16", types.Uint32: "Uint32", types.Uint64: "Uint64",
					types.Float32: "Float32", types.Float64: "Float64", types.String: "String"}[b.Kind()]
				if kind == "" {
					continue
				}
				good := kinds[kind]
				rc.add(nil, "thrift.GoType2ThriftType", "reflect."+kind, e.Pos(), map[bool]string{true: "discharged", false: "violated"}[good],
					map[bool]string{true: "WriteAny's scalar case `" + b.Name() + "` has its reflect.Kind in GoType2ThriftType", false: "WriteAny writes a `" + b.Name() + "` scalar, but GoType2ThriftType has no case reflect." + kind + ": the same value inside a slice or map fails with `unsupported type`"}[good], false)
			}
		}
		return false
	})
	if n < 8 {
		broken("GOKINDAGREE: type switch of WriteAny not found (%d basic cases)", n)
	}
}

package main

import (
	"go/ast"
	"go/types"
	"strings"
)

// KTETROLE: nodes of both generic packages carry `kt` (the map's KEY type) and `et` (the ELEMENT /
// value type). Whatever is stored into one of them must not be taken from the opposite role: a
// `kt` fed from Elem()/et/valueDesc (or an `et` fed from Key()/kt/keyDesc) makes typed key lookups
// fail with "unsupported type" and value reads decode with the key's type.
func init() {
	register(&Rule{
		Name:     "KTETROLE",
		Doc:      "every assignment to a field named `kt` (and every `kt:` entry of a composite literal) in the generic packages has a right-hand side that does not draw exclusively on element-role names (Elem(), et, ElemType, valueDesc, valueType…), and every `et` assignment does not draw exclusively on key-role names (Key(), kt, KeyType, keyDesc, keyType…)",
		Configs:  "NP",
		Floor:    map[string]int{"N": 30, "P": 30},
		Controls: 1,
		Run:      runKtEtRole,
	})
}

func roleOfName(n string) string {
	l := strings.ToLower(n)
	switch {
	case l == "kt" || l == "key" || strings.HasPrefix(l, "keytype") || strings.HasPrefix(l, "keydesc") || l == "kdesc" || l == "ktype":
		return "key"
	case l == "et" || l == "elem" || strings.HasPrefix(l, "elemtype") || strings.HasPrefix(l, "elemdesc") || strings.HasPrefix(l, "valuedesc") || strings.HasPrefix(l, "valuetype") || l == "vt" || l == "vdesc" || l == "etype":
		return "elem"
	}
	return ""
}

func rolesIn(e ast.Expr) (key, elem bool) {
	ast.Inspect(e, func(n ast.Node) bool {
		var name string
		switch x := n.(type) {
		case *ast.Ident:
			name = x.Name
		case *ast.SelectorExpr:
			name = x.Sel.Name
		}
		switch roleOfName(name) {
		case "key":
			key = true
		case "elem":
			elem = true
		}
		return true
	})
	return
}

func runKtEtRole(rc *RuleCtx) {
	w := rc.W
	for _, p := range w.Pkgs {
		rel := strings.TrimPrefix(strings.TrimPrefix(p.PkgPath, modPath), "/")
		if rel != "thrift/generic" && rel != "proto/generic" {
			continue
		}
		for _, f := range p.Syntax {
			for _, d := range f.Decls {
				fd, ok := d.(*ast.FuncDecl)
				if !ok || fd.Body == nil {
					continue
				}
				name := declName(rel, fd)
				check := func(field string, rhs ast.Expr, pos ast.Node) {
					rc.Examined++
					k, e := rolesIn(rhs)
					bad := (field == "kt" && e && !k) || (field == "et" && k && !e)
					det := "`" + field + "` is fed from `" + types.ExprString(rhs) + "`"
					if bad {
						det += ", which draws only on the opposite role (key <-> element types mixed up)"
					}
					rc.add(nil, name, field+" =", pos.Pos(), map[bool]string{false: "discharged", true: "violated"}[bad], det, false)
				}
				ast.Inspect(fd.Body, func(n ast.Node) bool {
					switch x := n.(type) {
					case *ast.AssignStmt:
						if len(x.Lhs) != len(x.Rhs) {
							return true
						}
						for i, l := range x.Lhs {
							if sel, ok := l.(*ast.SelectorExpr); ok && (sel.Sel.Name == "kt" || sel.Sel.Name == "et") {
								check(sel.Sel.Name, x.Rhs[i], x)
							}
						}
					case *ast.KeyValueExpr:
						if id, ok := x.Key.(*ast.Ident); ok && (id.Name == "kt" || id.Name == "et") {
							check(id.Name, x.Value, x)
						}
					}
					return true
				})
			}
		}
	}
}

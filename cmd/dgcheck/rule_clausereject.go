package main

import (
	"go/ast"
	"go/types"
	"strings"
)

// CLAUSEREJECT: the cast helpers of the generic packages (`string()`, `binary()`, `int()` …) start
// with a switch over the node's own kind and reject every kind they do not list. A clause of a
// dispatcher that is selected for kind K and forwards the SAME node to such a helper can only work
// if the helper lists K: otherwise the path is dead on arrival — it returns "unsupported type" for
// every input (e.g. `case STRING: if opts.CastStringAsBinary { return self.binary() }` with a
// binary() that accepts BYTE only).
func init() {
	register(&Rule{
		Name:     "CLAUSEREJECT",
		Doc:      "in the generic packages, a switch clause selected for the node kind K (a single label of a switch over `self.t`) that calls, on the same receiver, a method whose own top-level switch over `self.t` has an error default lists K among that method's labels: otherwise the call fails for every node that reaches the clause (an option implemented by forwarding to a helper that rejects the kind never works)",
		Configs:  "NP",
		Floor:    map[string]int{"N": 8, "P": 8},
		Controls: 1,
		Run:      runClauseReject,
	})
}

func runClauseReject(rc *RuleCtx) {
	// method -> its top-level kind switch over the receiver's kind
	byFn := map[string]*kindSwitch{}
	all := rc.W.kindSwitches(1)
	isSelfT := func(ks *kindSwitch) bool {
		sel, ok := ast.Unparen(ks.sw.Tag).(*ast.SelectorExpr)
		if !ok || sel.Sel.Name != "t" {
			return false
		}
		id, ok := ast.Unparen(sel.X).(*ast.Ident)
		if !ok || ks.decl.Recv == nil || len(ks.decl.Recv.List) == 0 || len(ks.decl.Recv.List[0].Names) == 0 {
			return false
		}
		return id.Name == ks.decl.Recv.List[0].Names[0].Name
	}
	for _, ks := range all {
		if !strings.Contains(ks.fnName, "generic") || !isSelfT(ks) || !ks.hasDflt {
			continue
		}
		// top-level: the switch is a direct statement of the function body
		top := false
		for _, st := range ks.decl.Body.List {
			if st == ast.Stmt(ks.sw) {
				top = true
			}
		}
		if top {
			if _, seen := byFn[ks.fnName]; !seen {
				byFn[ks.fnName] = ks
			}
		}
	}
	for _, ks := range all {
		if !strings.Contains(ks.fnName, "generic") || !isSelfT(ks) {
			continue
		}
		info := ks.pkg.TypesInfo
		rel := strings.TrimPrefix(strings.TrimPrefix(ks.pkg.PkgPath, modPath), "/")
		recvName := ks.decl.Recv.List[0].Names[0].Name
		for _, cl := range ks.clauses {
			if len(cl.labels) != 1 {
				continue
			}
			k := cl.labels[0].name
			for _, st := range cl.body {
				ast.Inspect(st, func(n ast.Node) bool {
					switch n.(type) {
					case *ast.SwitchStmt, *ast.TypeSwitchStmt, *ast.FuncLit:
						return false
					}
					ce, ok := n.(*ast.CallExpr)
					if !ok {
						return true
					}
					sel, ok := ce.Fun.(*ast.SelectorExpr)
					if !ok {
						return true
					}
					id, ok := ast.Unparen(sel.X).(*ast.Ident)
					if !ok || id.Name != recvName {
						return true
					}
					fobj, _ := info.Uses[sel.Sel].(*types.Func)
					if fobj == nil {
						return true
					}
					// callee's declName
					var cks *kindSwitch
					for fnName, c := range byFn {
						if c.pkg == ks.pkg && c.decl.Name.Name == fobj.Name() && info.Defs[c.decl.Name] == types.Object(fobj) {
							cks = c
							_ = fnName
						}
					}
					if cks == nil {
						return true
					}
					rc.Examined++
					accepts := false
					for _, ccl := range cks.clauses {
						for _, l := range ccl.labels {
							if l.name == k {
								accepts = true
							}
						}
					}
					rc.add(nil, ks.fnName, "case "+k+": "+recvName+"."+fobj.Name()+"()", ce.Pos(), map[bool]string{true: "discharged", false: "violated"}[accepts],
						map[bool]string{true: "the helper lists the clause's kind",
							false: "the clause for " + k + " forwards the node to " + fobj.Name() + "(), whose own switch over the node kind has no case " + k + " and ends in an error default: the call fails for every node that reaches this clause"}[accepts], true)
					_ = rel
					return true
				})
			}
		}
	}
}

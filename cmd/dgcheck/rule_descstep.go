package main

import (
	"go/ast"
	"strings"
)

func init() {
	register(&Rule{
		Name:     "DESCSTEP",
		Doc:      "in the typed path walkers (switches over the path-step kind that re-assign the current descriptor) every container step — PathIndex, PathStrKey, PathIntKey, PathBinKey — moves the descriptor to the ELEMENT type (`desc = desc.Elem()`), as its siblings do: stepping to Key() returns the value under the key's descriptor (wrong type and span)",
		Configs:  "NP",
		Floor:    map[string]int{"N": 5, "P": 5},
		Controls: 1,
		Run:      runDescStep,
	})
}

func runDescStep(rc *RuleCtx) {
	w := rc.W
	keyFamily := map[string]bool{"PathIndex": true, "PathStrKey": true, "PathIntKey": true, "PathBinKey": true}
	for _, ks := range w.kindSwitches(3) {
		if !strings.HasSuffix(ks.tagType, "generic.PathType") {
			continue
		}
		for _, cl := range ks.clauses {
			fam := false
			var names []string
			for _, l := range cl.labels {
				names = append(names, l.name)
				if keyFamily[l.name] {
					fam = true
				}
			}
			if !fam {
				continue
			}
			// assignments `X = X.M()` in the clause where X's type is a *TypeDescriptor
			for _, st := range cl.body {
				ast.Inspect(st, func(n ast.Node) bool {
					as, ok := n.(*ast.AssignStmt)
					if !ok || len(as.Lhs) != 1 || len(as.Rhs) != 1 {
						return true
					}
					lhs, ok := as.Lhs[0].(*ast.Ident)
					if !ok {
						return true
					}
					ce, ok := as.Rhs[0].(*ast.CallExpr)
					if !ok || len(ce.Args) != 0 {
						return true
					}
					sel, ok := ce.Fun.(*ast.SelectorExpr)
					if !ok {
						return true
					}
					recv, ok := sel.X.(*ast.Ident)
					if !ok || recv.Name != lhs.Name {
						return true
					}
					t := ks.pkg.TypesInfo.TypeOf(lhs)
					if t == nil || !strings.HasSuffix(typeShort(t), "TypeDescriptor") {
						return true
					}
					rc.Examined++
					good := sel.Sel.Name == "Elem"
					rc.add(nil, ks.fnName, "descriptor step ("+strings.Join(names, ",")+")", as.Pos(), map[bool]string{true: "discharged", false: "violated"}[good],
						"step "+strings.Join(names, ",")+" moves the descriptor with "+lhs.Name+"."+sel.Sel.Name+"()", true)
					return true
				})
			}
		}
	}
}

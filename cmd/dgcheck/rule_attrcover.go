package main

import (
	"go/ast"
	"go/types"
	"sort"
	"strings"
)

// ATTRCOVER: the protobuf descriptor "mirrors the schema" only for the schema attributes the
// parser actually reads. For each attribute the property names — field number, name, JSON name,
// kind, repeated / map structure, key and value types, message type, PACKEDNESS, and per method
// name, input, output and both streaming flags — the IDL parser must call the corresponding
// accessor of the protoreflect descriptor at least once; an attribute that is never read is
// filled in from a built-in default, whatever the schema says (`[packed = false]` used to be
// ignored that way).
func init() {
	register(&Rule{
		Name:     "ATTRCOVER",
		Doc:      "the functions of proto/idl.go call, on the jhump/protoreflect descriptors, every accessor in the table {FieldDescriptor: GetNumber, GetName, GetJSONName, GetType, IsRepeated, IsMap, GetMapKeyType, GetMapValueType, GetMessageType, GetFieldOptions|AsFieldDescriptorProto (packed option); MethodDescriptor: GetName, GetInputType, GetOutputType, IsClientStreaming, IsServerStreaming; MessageDescriptor: GetFields, GetFullyQualifiedName}: a schema attribute that is never read cannot be mirrored",
		Configs:  "NP",
		Floor:    map[string]int{"N": 17, "P": 17},
		Controls: 0,
		Run:      runAttrCover,
	})
}

func runAttrCover(rc *RuleCtx) {
	p := rc.W.Pkg("proto")
	called := map[string]map[string]bool{}
	for _, f := range p.Syntax {
		if !strings.HasSuffix(rc.W.Fset.Position(f.Pos()).Filename, "idl.go") {
			continue
		}
		ast.Inspect(f, func(n ast.Node) bool {
			ce, ok := n.(*ast.CallExpr)
			if !ok {
				return true
			}
			sel, ok := ce.Fun.(*ast.SelectorExpr)
			if !ok {
				return true
			}
			fn, _ := p.TypesInfo.Uses[sel.Sel].(*types.Func)
			if fn == nil {
				return true
			}
			recv := fn.Type().(*types.Signature).Recv()
			if recv == nil {
				return true
			}
			t := strings.TrimPrefix(recv.Type().String(), "*")
			if !strings.Contains(t, "protoreflect/desc.") {
				return true
			}
			t = t[strings.LastIndex(t, ".")+1:]
			if called[t] == nil {
				called[t] = map[string]bool{}
			}
			called[t][fn.Name()] = true
			return true
		})
	}
	table := []struct {
		typ  string
		alts []string
		what string
	}{
		{"FieldDescriptor", []string{"GetNumber"}, "field number"},
		{"FieldDescriptor", []string{"GetName"}, "field name"},
		{"FieldDescriptor", []string{"GetJSONName"}, "JSON name"},
		{"FieldDescriptor", []string{"GetType"}, "kind"},
		{"FieldDescriptor", []string{"IsRepeated", "GetLabel"}, "repeated structure"},
		{"FieldDescriptor", []string{"IsMap"}, "map structure"},
		{"FieldDescriptor", []string{"GetMapKeyType"}, "map key type"},
		{"FieldDescriptor", []string{"GetMapValueType"}, "map value type"},
		{"FieldDescriptor", []string{"GetMessageType"}, "message type of the field"},
		{"FieldDescriptor", []string{"GetFieldOptions", "AsFieldDescriptorProto", "GetOptions"}, "packedness ([packed = …] option)"},
		{"MethodDescriptor", []string{"GetName"}, "method name"},
		{"MethodDescriptor", []string{"GetInputType"}, "input message"},
		{"MethodDescriptor", []string{"GetOutputType"}, "output message"},
		{"MethodDescriptor", []string{"IsClientStreaming"}, "client-streaming flag"},
		{"MethodDescriptor", []string{"IsServerStreaming"}, "server-streaming flag"},
		{"MessageDescriptor", []string{"GetFields"}, "declared fields"},
		{"MessageDescriptor", []string{"GetFullyQualifiedName"}, "message identity (fully-qualified name)"},
	}
	for _, row := range table {
		rc.Examined++
		good := false
		for _, a := range row.alts {
			if called[row.typ][a] {
				good = true
			}
		}
		var have []string
		for k := range called[row.typ] {
			have = append(have, k)
		}
		sort.Strings(have)
		rc.add(nil, "proto/idl.go", row.typ+": "+row.what, p.Syntax[0].Pos(), map[bool]string{true: "discharged", false: "violated"}[good],
			map[bool]string{true: "read through " + strings.Join(row.alts, "|"), false: "the parser never calls " + strings.Join(row.alts, "|") + " on a " + row.typ + ": the " + row.what + " of the descriptor cannot come from the schema (accessors used: " + strings.Join(have, ",") + ")"}[good], false)
	}
}

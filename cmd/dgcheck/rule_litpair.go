package main

import (
	"go/ast"
	"go/types"
	"strings"
)

// LITPAIR: fields of a descriptor that belong together are set together. The pairs were found by
// comparing all composite literals of a type (a field set in every other literal that sets its
// partner), confirmed by reading, and are frozen here:
//
//	thrift.FieldDescriptor: name => alias   (documented: the alias defaults to the name; t2j writes
//	                                         field.Alias() as the JSON key)
//	proto.FieldDescriptor:  name => jsonName
func init() {
	register(&Rule{
		Name:     "LITPAIR",
		Doc:      "every composite literal of thrift.FieldDescriptor that sets `name` also sets `alias`, and every composite literal of proto.FieldDescriptor that sets `name` also sets `jsonName` (pairs inferred from the literals of each type, confirmed by reading and frozen in the checker): a descriptor built without the partner field answers Alias()/JSONName() with \"\"",
		Configs:  "NP",
		Floor:    map[string]int{"N": 3, "P": 3},
		Controls: 1,
		Run:      runLitPair,
	})
}

func runLitPair(rc *RuleCtx) {
	pairs := map[string][2]string{"thrift.FieldDescriptor": {"name", "alias"}, "proto.FieldDescriptor": {"name", "jsonName"}}
	for _, p := range rc.W.Pkgs {
		rel := strings.TrimPrefix(strings.TrimPrefix(p.PkgPath, modPath), "/")
		for _, f := range p.Syntax {
			for _, d := range f.Decls {
				fd, ok := d.(*ast.FuncDecl)
				if !ok || fd.Body == nil {
					continue
				}
				name := declName(rel, fd)
				ast.Inspect(fd.Body, func(n ast.Node) bool {
					cl, ok := n.(*ast.CompositeLit)
					if !ok {
						return true
					}
					t := p.TypesInfo.TypeOf(cl)
					if t == nil {
						return true
					}
					if _, isStruct := t.Underlying().(*types.Struct); !isStruct {
						return true
					}
					pr, ok := pairs[typeShort(t)]
					if !ok {
						return true
					}
					set := map[string]bool{}
					for _, e := range cl.Elts {
						if kv, ok := e.(*ast.KeyValueExpr); ok {
							if id, ok := kv.Key.(*ast.Ident); ok {
								set[id.Name] = true
							}
						}
					}
					if !set[pr[0]] {
						return true
					}
					rc.Examined++
					good := set[pr[1]]
					rc.add(nil, name, typeShort(t)+"{"+pr[0]+"}", cl.Pos(), map[bool]string{true: "discharged", false: "violated"}[good],
						map[bool]string{true: "`" + pr[1] + "` is set together with `" + pr[0] + "`", false: "the literal sets `" + pr[0] + "` but not `" + pr[1] + "`: the accessor of `" + pr[1] + "` returns \"\" for this descriptor"}[good], false)
					return true
				})
			}
		}
	}
}

package main

import (
	"go/ast"
	"go/types"
	"strings"
)

// WALKADVANCE: a typed path walker iterates over the path steps and, per step, dispatches on the
// *current* descriptor (desc.Type(), desc.Struct().FieldByKey, desc.Elem()). The variable it
// dispatches on must therefore be re-assigned inside the loop; a walker that reads a descriptor
// variable declared outside the loop and never assigns it resolves every step after the first
// against the root type.
func init() {
	register(&Rule{
		Name:     "WALKADVANCE",
		Doc:      "in every loop that ranges over path steps (`[]Path`), a *TypeDescriptor variable declared outside the loop whose methods the loop body calls (Type/Struct/Elem/Key/Message…) is assigned inside the loop body — otherwise the second and later steps are resolved against the descriptor of the first",
		Configs:  "NP",
		Floor:    map[string]int{"N": 3, "P": 3},
		Controls: 1,
		Run:      runWalkAdvance,
	})
}

func runWalkAdvance(rc *RuleCtx) {
	w := rc.W
	for _, p := range w.Pkgs {
		rel := strings.TrimPrefix(strings.TrimPrefix(p.PkgPath, modPath), "/")
		info := p.TypesInfo
		for _, f := range p.Syntax {
			for _, d := range f.Decls {
				fd, ok := d.(*ast.FuncDecl)
				if !ok || fd.Body == nil {
					continue
				}
				name := declName(rel, fd)
				ast.Inspect(fd.Body, func(nd ast.Node) bool {
					rs, ok := nd.(*ast.RangeStmt)
					if !ok {
						return true
					}
					t := info.TypeOf(rs.X)
					if t == nil {
						return true
					}
					sl, ok := t.Underlying().(*types.Slice)
					if !ok || !strings.HasSuffix(typeShort(sl.Elem()), "generic.Path") {
						return true
					}
					// descriptor variables declared outside the loop and used as method receivers inside
					recv := map[*types.Var]ast.Node{}
					var order []*types.Var
					assigned := map[*types.Var]bool{}
					ast.Inspect(rs.Body, func(n ast.Node) bool {
						switch x := n.(type) {
						case *ast.CallExpr:
							sel, ok := x.Fun.(*ast.SelectorExpr)
							if !ok {
								return true
							}
							id, ok := ast.Unparen(sel.X).(*ast.Ident)
							if !ok {
								return true
							}
							v, ok := info.Uses[id].(*types.Var)
							if !ok || v.IsField() {
								return true
							}
							if !strings.HasSuffix(typeShort(v.Type()), ".TypeDescriptor") {
								return true
							}
							if v.Pos() >= rs.Pos() && v.Pos() <= rs.End() {
								return true // loop-local
							}
							if _, seen := recv[v]; !seen {
								recv[v] = x
								order = append(order, v)
							}
						case *ast.AssignStmt:
							for _, l := range x.Lhs {
								if id, ok := ast.Unparen(l).(*ast.Ident); ok {
									if v, ok := info.Uses[id].(*types.Var); ok {
										assigned[v] = true
									}
								}
							}
						}
						return true
					})
					for _, v := range order {
						rc.Examined++
						good := assigned[v]
						rc.add(nil, name, "step loop: "+v.Name(), recv[v].Pos(), map[bool]string{true: "discharged", false: "violated"}[good],
							map[bool]string{true: "the descriptor `" + v.Name() + "` the loop dispatches on is re-assigned per step",
								false: "the loop over path steps dispatches on `" + v.Name() + "`, which is never assigned inside the loop: every step after the first is resolved against the same (root) descriptor"}[good], true)
					}
					return true
				})
			}
		}
	}
}

package main

import (
	"golang.org/x/tools/go/ssa"
)

// CURSORREL: inside the protocol packages the read cursor only ever moves RELATIVELY: a new value
// of `.Read` is the old one plus what was consumed, a position saved from it earlier, or a
// constant (reset). Storing a value that does not depend on the cursor at all — e.g. the byte
// count returned by the native skipper, `p.Read = int(ret)` instead of `p.Read += int(ret)` —
// is right only when the cursor happened to be 0.
func init() {
	register(&Rule{
		Name:     "CURSORREL",
		Doc:      "in packages thrift and proto/binary every store of a non-constant value to a cursor's `.Read` field is data-dependent on a load of a `.Read` field in the same function (through arithmetic, conversions, φ and local variables) or on a parameter/struct copy that carries a saved position; a value computed without the cursor (a callee's byte count) may only be ADDED to it",
		Configs:  "NP",
		Floor:    map[string]int{"N": 6, "P": 6},
		Controls: 1,
		Run:      runCursorRel,
	})
}

func dependsOnRead(v ssa.Value, seen map[ssa.Value]bool, d int) bool {
	if v == nil || seen[v] || d > 25 {
		return false
	}
	seen[v] = true
	switch x := v.(type) {
	case *ssa.UnOp:
		if _, n, ok := fieldNameOf(x.X); ok && n == "Read" {
			return true
		}
		if a, ok := x.X.(*ssa.Alloc); ok {
			for _, r := range *a.Referrers() {
				if st, ok := r.(*ssa.Store); ok && st.Addr == a && dependsOnRead(st.Val, seen, d+1) {
					return true
				}
			}
		}
		return dependsOnRead(x.X, seen, d+1)
	case *ssa.Field:
		if _, n, ok := fieldNameOf(x); ok && n == "Read" {
			return true
		}
	case *ssa.BinOp:
		return dependsOnRead(x.X, seen, d+1) || dependsOnRead(x.Y, seen, d+1)
	case *ssa.Convert:
		return dependsOnRead(x.X, seen, d+1)
	case *ssa.ChangeType:
		return dependsOnRead(x.X, seen, d+1)
	case *ssa.Phi:
		for _, e := range x.Edges {
			if dependsOnRead(e, seen, d+1) {
				return true
			}
		}
	case *ssa.Parameter:
		return true // a position handed in by the caller (saved earlier)
	case *ssa.Extract:
		return false
	}
	return false
}

func runCursorRel(rc *RuleCtx) {
	for _, fn := range rc.W.Funcs {
		if fn.Blocks == nil {
			continue
		}
		pr := pkgRel(fn)
		if pr != "thrift" && pr != "proto/binary" && !rc.W.isControlFn(fn) {
			continue
		}
		for _, b := range fn.Blocks {
			for _, ins := range b.Instrs {
				st, ok := ins.(*ssa.Store)
				if !ok || !storesRead(st) {
					continue
				}
				if _, isC := st.Val.(*ssa.Const); isC {
					continue
				}
				rc.Examined++
				good := dependsOnRead(st.Val, map[ssa.Value]bool{}, 0)
				who := ""
				if c, ok := st.Val.(*ssa.Convert); ok {
					if e, ok := c.X.(*ssa.Extract); ok {
						if call, ok := e.Tuple.(*ssa.Call); ok && call.Call.StaticCallee() != nil {
							who = " (result of " + call.Call.StaticCallee().Name() + ")"
						}
					} else if call, ok := c.X.(*ssa.Call); ok && call.Call.StaticCallee() != nil {
						who = " (result of " + call.Call.StaticCallee().Name() + ")"
					}
				}
				rc.verdict(good, fn, ".Read =", st.Pos(), map[bool]string{
					true:  "the new cursor value is derived from the cursor",
					false: "the cursor is overwritten with a value that does not depend on its old value" + who + ": correct only when the cursor was 0 — the value has to be added to it"}[good], true)
			}
		}
	}
}

package main

import (
	"sort"
	"strings"
)

func init() {
	register(&Rule{
		Name:    "KINDINV",
		Doc:     "protobuf kinds that p2j emits as a JSON number / string are accepted from that JSON token kind by j2p: the set of case labels of p2j.unmarshalSingular whose clause calls a number encoder (json.EncodeInt64/EncodeFloat64, strconv.Append*) is a subset of the labels of j2p.OnInt64 ∪ OnFloat64, and the string/bytes labels a subset of j2p.OnString — otherwise the converters are not mutually inverse on that kind",
		Configs: "NP",
		Floor:   map[string]int{"N": 12, "P": 12},
		Run:     runKindInv,
	})
}

func runKindInv(rc *RuleCtx) {
	w := rc.W
	sws := w.kindSwitches(2)
	accept := map[string]map[string]bool{"number": {}, "string": {}}
	for _, ks := range sws {
		switch ks.fnName {
		case "(*conv/j2p.visitorUserNode).OnInt64", "(*conv/j2p.visitorUserNode).OnFloat64":
			for l := range ks.labelSet() {
				accept["number"][kindKey(l)] = true
			}
		case "(*conv/j2p.visitorUserNode).OnString":
			for l := range ks.labelSet() {
				accept["string"][kindKey(l)] = true
			}
		}
	}
	if len(accept["number"]) < 8 || len(accept["string"]) < 2 {
		broken("KINDINV: j2p visitor switches not found (number %d labels, string %d labels)", len(accept["number"]), len(accept["string"]))
	}
	found := false
	for _, ks := range sws {
		if ks.fnName != "(*conv/p2j.BinaryConv).unmarshalSingular" || ks.tagType != "proto.Type" {
			continue
		}
		found = true
		for _, cl := range ks.clauses {
			emit := ""
			for _, f := range calleesIn(ks.pkg, cl.body) {
				n := f.Name()
				pk := ""
				if f.Pkg() != nil {
					pk = f.Pkg().Path()
				}
				switch {
				case strings.HasSuffix(pk, "internal/json") && (n == "EncodeInt64" || n == "EncodeFloat64"), pk == "strconv" && strings.HasPrefix(n, "Append"):
					emit = "number"
				case strings.HasSuffix(pk, "internal/json") && (n == "EncodeString" || n == "EncodeBaniry" || n == "NoQuote"):
					if emit == "" {
						emit = "string"
					}
				}
			}
			if emit == "" {
				continue
			}
			for _, l := range cl.labels {
				k := kindKey(l.name)
				if _, scalar := kindSpec[k]; !scalar {
					continue // MESSAGE writes member keys with EncodeString; not a scalar emission
				}
				rc.Examined++
				ok := accept[emit][k]
				var acc []string
				for a := range accept[emit] {
					acc = append(acc, a)
				}
				sort.Strings(acc)
				rc.add(nil, ks.fnName, "emits "+l.name+" as "+emit, cl.pos, map[bool]string{true: "discharged", false: "violated"}[ok],
					map[bool]string{true: "j2p accepts " + k + " from a JSON " + emit, false: "p2j writes kind " + l.name + " as a JSON " + emit + " but j2p accepts only {" + strings.Join(acc, ",") + "} from a JSON " + emit}[ok], true)
			}
		}
	}
	if !found {
		broken("KINDINV: p2j.unmarshalSingular kind switch not found")
	}
}

package main

import (
	"go/token"
	"sort"
	"strings"

	"golang.org/x/tools/go/ssa"
)

func init() {
	register(&Rule{
		Name: "RAWCOPYGUARD",
		Doc: "in thrift marshalTo every jump into the raw-copy shortcut (label skip_val) taken from a container/struct case is guarded by POINTER equality of every descriptor component on which that case's slow path recurses " +
			"(Key and Elem for MAP, Elem for LIST/SET, the descriptors themselves for STRUCT): comparing only part of them, or comparing type tags instead of descriptor identity, copies bytes that should have been projected field by field",
		Configs:  "NP",
		Floor:    map[string]int{"N": 3, "P": 3},
		Controls: 1,
		Run:      runRawCopyGuard,
	})
}

func descRole(v ssa.Value) string {
	if !isNamed(v.Type(), "thrift", "TypeDescriptor") {
		return ""
	}
	switch x := v.(type) {
	case *ssa.Parameter:
		return "self"
	case *ssa.Call:
		if cal := x.Call.StaticCallee(); cal != nil {
			switch cal.Name() {
			case "Key":
				return "Key"
			case "Elem":
				return "Elem"
			case "Type":
				return "self"
			}
		}
	}
	return "other"
}

func runRawCopyGuard(rc *RuleCtx) {
	w := rc.W
	var fns []*ssa.Function
	fns = append(fns, w.Fn("thrift/generic.marshalTo"))
	for _, fn := range w.Funcs {
		if w.isControlFn(fn) && strings.HasPrefix(fn.Name(), "zzControlRawCopy") {
			fns = append(fns, fn)
		}
	}
	for _, fn := range fns {
		var label *ssa.BasicBlock
		for _, b := range fn.Blocks {
			if strings.Contains(b.Comment, "skip_val") {
				label = b
			}
		}
		if label == nil {
			if w.isControlFn(fn) {
				continue
			}
			broken("RAWCOPYGUARD: label skip_val not found in %s (shortcut restructured: update the rule)", shortName(fn))
		}
		for _, p := range label.Preds {
			// guarding conditions of this edge
			conds := controllingIfs(p)
			if iff, ok := lastInstr(p).(*ssa.If); ok {
				conds = append([]ctrlDep{{ifb: p, cond: iff.Cond, val: p.Succs[0] == label}}, conds...)
			}
			have := map[string]bool{}
			var outer *ssa.BasicBlock
			for _, cd := range conds {
				k, neg := condKey(cd.cond)
				bo, ok := k.(*ssa.BinOp)
				if !ok || bo.Op != token.EQL && bo.Op != token.NEQ {
					continue
				}
				truth := cd.val != neg
				if (bo.Op == token.EQL) != truth {
					continue // this edge is the "not equal" side
				}
				rx, ry := descRole(bo.X), descRole(bo.Y)
				if rx == "" || ry == "" {
					continue
				}
				if rx == ry {
					have[rx] = true
				}
				outer = cd.ifb
			}
			if outer == nil {
				// a direct conditional jump counts only when it compares two computed values
				// (the type-switch dispatch compares the tag with constants and falls through here)
				endsInIf := false
				if iff, ok := lastInstr(p).(*ssa.If); ok {
					k, _ := condKey(iff.Cond)
					if bo, ok := k.(*ssa.BinOp); ok && (bo.Op == token.EQL || bo.Op == token.NEQ) {
						_, cx := bo.X.(*ssa.Const)
						_, cy := bo.Y.(*ssa.Const)
						endsInIf = !cx && !cy
					}
				}
				if endsInIf || p.Comment == "if.then" && len(p.Instrs) == 1 {
					// an explicit `goto skip_val` under a condition that is not a descriptor identity test
					rc.Examined++
					rc.bad(fn, "raw-copy-shortcut", blockPos(p), "the raw-copy shortcut is taken under a condition that does not compare descriptor pointers (type tags or other values are not descriptor identity)")
				}
				// otherwise: the common fall-through from the type switch (scalar types)
				continue
			}
			rc.Examined++
			need := map[string]bool{}
			for _, b := range fn.Blocks {
				if b == outer || !outer.Dominates(b) {
					continue
				}
				for _, ins := range b.Instrs {
					c, ok := ins.(*ssa.Call)
					if !ok || c.Call.StaticCallee() != fn {
						continue
					}
					for _, a := range c.Call.Args {
						if r := descRole(a); r == "Key" || r == "Elem" {
							need[r] = true
						} else if r == "self" || r == "other" {
							if len(need) == 0 {
								need["self"] = true
							}
						}
					}
				}
			}
			if need["Key"] || need["Elem"] {
				delete(need, "self")
			}
			var missing []string
			for r := range need {
				if !have[r] {
					missing = append(missing, r)
				}
			}
			sort.Strings(missing)
			pos := blockPos(p)
			if len(missing) == 0 {
				rc.ok(fn, "raw-copy-shortcut", pos, "guarded by descriptor identity of every component the slow path recurses on", true)
			} else {
				rc.bad(fn, "raw-copy-shortcut", pos, "the raw-copy shortcut is taken without pointer-equality of the "+strings.Join(missing, ", ")+" descriptor(s) on which the slow path recurses: differing descriptors would be copied verbatim instead of projected")
			}
		}
	}
}

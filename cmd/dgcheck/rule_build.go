package main

import (
	"fmt"
	"go/ast"
	"go/build/constraint"
	"go/token"
	"go/types"
	"os"
	"path/filepath"
	"sort"
	"strings"
)

func init() {
	register(&Rule{
		Name:    "STUBTABLE",
		Doc:     "every native stub name bound in internal/native.stubs is an entry of avx.Funcs, avx2.Funcs and sse.Funcs; the three tables list the same names; each use<Flavour>() passes its own flavour's text AND its own flavour's Funcs table to loader.WrapGoC; init() dispatches cpu.Has<Flavour> to use<Flavour>",
		Configs: "N",
		Floor:   map[string]int{"N": 20},
		Run:     runStubTable,
	})
	register(&Rule{
		Name:    "TAGPARTITION",
		Doc:     "in every package that has build-constrained native/portable twin files, the //go:build expressions over {amd64, go1.25} of the two groups are exact complements (every platform/toolchain combination selects exactly one implementation of each symbol) and all files of one group carry the same constraint",
		Configs: "N",
		Floor:   map[string]int{"N": 4},
		Run:     runTagPartition,
	})
}

func compositeNames(cl *ast.CompositeLit) []string {
	var out []string
	for _, el := range cl.Elts {
		if inner, ok := el.(*ast.CompositeLit); ok && len(inner.Elts) > 0 {
			if bl, ok := inner.Elts[0].(*ast.BasicLit); ok && bl.Kind == token.STRING {
				out = append(out, strings.Trim(bl.Value, "\"`"))
			}
		}
	}
	return out
}

func findVarLit(w *World, rel, name string) (*ast.CompositeLit, token.Pos) {
	p := w.Pkg(rel)
	for _, f := range p.Syntax {
		for _, d := range f.Decls {
			gd, ok := d.(*ast.GenDecl)
			if !ok {
				continue
			}
			for _, sp := range gd.Specs {
				vs, ok := sp.(*ast.ValueSpec)
				if !ok {
					continue
				}
				for i, n := range vs.Names {
					if n.Name == name && i < len(vs.Values) {
						if cl, ok := vs.Values[i].(*ast.CompositeLit); ok {
							return cl, n.Pos()
						}
					}
				}
			}
		}
	}
	broken("STUBTABLE: %s.%s composite literal not found", rel, name)
	return nil, token.NoPos
}

func runStubTable(rc *RuleCtx) {
	w := rc.W
	stubsLit, stubsPos := findVarLit(w, "internal/native", "stubs")
	stubs := compositeNames(stubsLit)
	if len(stubs) < 3 {
		broken("STUBTABLE: only %d stub names parsed", len(stubs))
	}
	flavours := []string{"avx", "avx2", "sse"}
	tables := map[string]map[string]bool{}
	for _, fl := range flavours {
		lit, _ := findVarLit(w, "internal/native/"+fl, "Funcs")
		tables[fl] = map[string]bool{}
		for _, n := range compositeNames(lit) {
			tables[fl][n] = true
		}
	}
	for _, s := range stubs {
		for _, fl := range flavours {
			rc.Examined++
			rc.add(nil, "internal/native.stubs", "stub "+s+" in "+fl, stubsPos, map[bool]string{true: "discharged", false: "violated"}[tables[fl][s]],
				fmt.Sprintf("stub %q %s in %s.Funcs", s, map[bool]string{true: "present", false: "MISSING"}[tables[fl][s]], fl), true)
		}
	}
	for _, fl := range flavours[1:] {
		var diff []string
		for n := range tables[flavours[0]] {
			if !tables[fl][n] {
				diff = append(diff, "-"+n)
			}
		}
		for n := range tables[fl] {
			if !tables[flavours[0]][n] {
				diff = append(diff, "+"+n)
			}
		}
		sort.Strings(diff)
		rc.Examined++
		rc.add(nil, "internal/native", "Funcs "+flavours[0]+"="+fl, stubsPos, map[bool]string{true: "discharged", false: "violated"}[len(diff) == 0],
			fmt.Sprintf("%d names; difference %v", len(tables[fl]), diff), true)
	}
	// use<Flavour>() wiring
	p := w.Pkg("internal/native")
	want := map[string]string{"useAVX": "avx", "useAVX2": "avx2", "useSSE": "sse"}
	seenUse := 0
	for _, f := range p.Syntax {
		for _, d := range f.Decls {
			fd, ok := d.(*ast.FuncDecl)
			if !ok || fd.Body == nil {
				continue
			}
			if fl, ok := want[fd.Name.Name]; ok {
				seenUse++
				ast.Inspect(fd.Body, func(n ast.Node) bool {
					ce, ok := n.(*ast.CallExpr)
					if !ok || len(ce.Args) < 3 {
						return true
					}
					sel, ok := ce.Fun.(*ast.SelectorExpr)
					if !ok || sel.Sel.Name != "WrapGoC" {
						return true
					}
					pkgOf := func(e ast.Expr) string {
						if se, ok := e.(*ast.SelectorExpr); ok {
							if id, ok := se.X.(*ast.Ident); ok {
								if pn, ok := p.TypesInfo.Uses[id].(*types.PkgName); ok {
									return filepath.Base(pn.Imported().Path())
								}
							}
						}
						return "?"
					}
					textPkg, funcsPkg := pkgOf(ce.Args[0]), pkgOf(ce.Args[1])
					rc.Examined++
					good := textPkg == fl && funcsPkg == fl
					rc.add(nil, "internal/native."+fd.Name.Name, "WrapGoC", ce.Pos(), map[bool]string{true: "discharged", false: "violated"}[good],
						fmt.Sprintf("%s loads text of %s with the function table of %s (both must be %s)", fd.Name.Name, textPkg, funcsPkg, fl), true)
					return true
				})
			}
			if fd.Name.Name == "init" {
				// if cpu.HasX { useX() }
				ast.Inspect(fd.Body, func(n ast.Node) bool {
					is, ok := n.(*ast.IfStmt)
					if !ok {
						return true
					}
					sel, ok := is.Cond.(*ast.SelectorExpr)
					if !ok || !strings.HasPrefix(sel.Sel.Name, "Has") {
						return true
					}
					fl := strings.TrimPrefix(sel.Sel.Name, "Has")
					called := ""
					for _, st := range is.Body.List {
						if es, ok := st.(*ast.ExprStmt); ok {
							if ce, ok := es.X.(*ast.CallExpr); ok {
								if id, ok := ce.Fun.(*ast.Ident); ok {
									called = id.Name
								}
							}
						}
					}
					rc.Examined++
					rc.add(nil, "internal/native.init", "dispatch Has"+fl, is.Pos(), map[bool]string{true: "discharged", false: "violated"}[called == "use"+fl],
						fmt.Sprintf("cpu.Has%s dispatches to %s()", fl, called), true)
					return true
				})
			}
		}
	}
	if seenUse != 3 {
		broken("STUBTABLE: expected useAVX/useAVX2/useSSE, found %d", seenUse)
	}
}

func runTagPartition(rc *RuleCtx) {
	w := rc.W
	// read the //go:build line of every non-test .go file of the repository (all files, not only those selected by this config)
	type fileC struct {
		rel  string
		expr constraint.Expr
		text string
	}
	byDir := map[string][]fileC{}
	filepath.Walk(w.Dir, func(path string, info os.FileInfo, err error) error {
		if err != nil {
			return nil
		}
		if info.IsDir() {
			n := info.Name()
			if n == "testdata" || n == ".git" || n == "native" && filepath.Dir(path) == w.Dir {
				return filepath.SkipDir
			}
			return nil
		}
		if !strings.HasSuffix(path, ".go") || strings.HasSuffix(path, "_test.go") {
			return nil
		}
		data, err := os.ReadFile(path)
		if err != nil {
			return nil
		}
		for _, line := range strings.Split(string(data), "\n") {
			t := strings.TrimSpace(line)
			if strings.HasPrefix(t, "package ") {
				break
			}
			if constraint.IsGoBuild(t) {
				ex, err := constraint.Parse(t)
				if err != nil {
					continue
				}
				mentions := false
				ex.Eval(func(tag string) bool {
					if tag == "amd64" || tag == "go1.25" {
						mentions = true
					}
					return true
				})
				if mentions {
					rel, _ := filepath.Rel(w.Dir, path)
					byDir[filepath.Dir(rel)] = append(byDir[filepath.Dir(rel)], fileC{rel, ex, t})
				}
			}
		}
		return nil
	})
	evalAll := func(e constraint.Expr) [4]bool {
		var out [4]bool
		i := 0
		for _, a := range []bool{false, true} {
			for _, g := range []bool{false, true} {
				out[i] = e.Eval(func(tag string) bool {
					switch tag {
					case "amd64":
						return a
					case "go1.25":
						return g
					}
					return true
				})
				i++
			}
		}
		return out
	}
	var dirs []string
	for d := range byDir {
		dirs = append(dirs, d)
	}
	sort.Strings(dirs)
	for _, d := range dirs {
		files := byDir[d]
		groups := map[[4]bool][]string{}
		for _, f := range files {
			groups[evalAll(f.expr)] = append(groups[evalAll(f.expr)], filepath.Base(f.rel)+" ("+f.text+")")
		}
		rc.Examined++
		good := len(groups) == 2
		detail := ""
		if good {
			var ks [][4]bool
			for k := range groups {
				ks = append(ks, k)
			}
			for i := 0; i < 4; i++ {
				if ks[0][i] == ks[1][i] {
					good = false
					detail = fmt.Sprintf("for amd64=%v go1.25=%v both or neither group is selected; ", i >= 2, i%2 == 1)
				}
			}
		} else {
			detail = fmt.Sprintf("%d distinct constraints instead of 2 complementary ones; ", len(groups))
		}
		for _, fs := range groups {
			sort.Strings(fs)
			detail += strings.Join(fs, ", ") + " | "
		}
		rc.add(nil, d, "build-constraint partition", token.NoPos, map[bool]string{true: "discharged", false: "violated"}[good], detail, true)
	}
}

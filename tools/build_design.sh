#!/bin/bash
# Re-assembles DESIGN.md from the hand-written parts (tools/DESIGN.*.md) and the generated tables.
cd /verif
{
  cat tools/DESIGN.head.md
  python3 tools/gen_design.py rules
  cat tools/DESIGN.mid.md
  python3 tools/gen_design.py props
  cat tools/DESIGN.tail.md
  python3 tools/gen_design.py fixes
  cat tools/DESIGN.end.md
  python3 tools/gen_design.py seeded
  cat tools/DESIGN.foot.md
} > DESIGN.md
wc -c DESIGN.md

#!/bin/bash
# usage: tools/trymutant.sh <patch.diff>   -- applies the patch to /repo, runs every quick check
# in one process, prints the violations, and restores /repo. Never commits.
set -u
patch=$1
cd /verif
if ! git -C /repo diff --quiet; then echo "/repo has local changes; refusing"; exit 3; fi
if ! git -C /repo apply "$patch"; then echo "patch does not apply"; exit 3; fi
out=$(DGEVIDENCE=/tmp/dgscratch_$$ ./bin/dgcheck all quick 2>&1); rc=$?
git -C /repo checkout -- .
echo "$out" | grep -B1 "^VIOLATION" | grep -v "^--" | sed 's/^dgcheck: //' | cut -c1-240
echo "$out" | grep "BROKEN" | head -3
echo "exit=$rc FIRED: $(echo "$out" | grep -o 'VIOLATION property=C[0-9]*' | sort -u | sed 's/VIOLATION property=//' | tr '\n' ' ')"
rm -rf /tmp/dgscratch_$$

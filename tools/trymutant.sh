#!/bin/bash
# usage: tools/trymutant.sh <patch.diff> [Cxx ...]   -- applies the patch to /repo, runs the given
# (default: all claimed) quick checks, prints which fire, and restores /repo. Never commits.
set -u
patch=$1; shift
cd /verif
props=("$@")
if [ ${#props[@]} -eq 0 ]; then props=($(./bin/dgcheck props | awk '$2!=""{print $1}')); fi
if ! git -C /repo diff --quiet; then echo "/repo has local changes; refusing"; exit 3; fi
if ! git -C /repo apply "$patch"; then echo "patch does not apply"; exit 3; fi
fired=""
for p in "${props[@]}"; do
  out=$(./bin/dgcheck $p quick 2>&1); rc=$?
  if [ $rc -eq 1 ]; then fired="$fired $p"; echo "$out" | grep -B1 "^VIOLATION" | grep -v "^--" | grep -v "^VIOLATION" | cut -c1-260 | sed "s/^/  [$p] /"; fi
  if [ $rc -eq 2 ]; then echo "  [$p] BROKEN: $(echo "$out" | grep BROKEN | head -2)"; fi
done
git -C /repo checkout -- .
git -C /repo clean -fdq -- . >/dev/null 2>&1
echo "FIRED:${fired:- none}"

#!/bin/bash
# Runs the repository's pinned test suite (guard OFF: no build tag) and compares the passing
# set with /root/.vp/BASELINE.json stable_pass. Exit 0 iff every baseline test passes.
export GOFLAGS=-mod=mod GOPROXY=off GOSUMDB=off GOTOOLCHAIN=local
unset GOARCH GOOS GOWORK
out=$(mktemp)
(cd "${DGREPO:-/repo}" && go test -mod=mod -json -vet=off -count=1 -timeout 25m ./... ) > "$out" 2>/dev/null
python3 - "$out" <<'PY'
import json,sys
passed=set()
failed=set()
for l in open(sys.argv[1]):
    try: e=json.loads(l)
    except Exception: continue
    if e.get('Test') and e.get('Action') in('pass','fail'):
        k=e['Package']+'::'+e['Test']
        (passed if e['Action']=='pass' else failed).add(k)
base=set(json.load(open('/root/.vp/BASELINE.json'))['stable_pass'])
missing=sorted(base-passed)
print(f"suite: {len(passed)} passed, {len(failed)} failed, baseline {len(base)}, baseline-missing {len(missing)}")
for m in missing[:40]: print("  MISSING", m)
sys.exit(1 if missing else 0)
PY
rc=$?
rm -f "$out"
exit $rc

#!/usr/bin/env python3
"""Prints the generated parts of DESIGN.md: rule catalogue, per-property table, fix log, seeded-mutant table."""
import json, subprocess, glob, os, re, sys
os.chdir('/verif')
what = sys.argv[1]
if what == 'rules':
    out = subprocess.run(['./bin/dgcheck', 'rules'], capture_output=True, text=True).stdout
    for l in out.strip().split('\n'):
        m = re.match(r'(\S+)\s+cfg=(\S+)\s+(.*)', l)
        print(f"**{m.group(1)}** (configs {m.group(2)}) — {m.group(3)}\n")
elif what == 'props':
    out = subprocess.run(['./bin/dgcheck', 'props'], capture_output=True, text=True).stdout
    man = json.load(open('MANIFEST.json'))
    txt = {c['property_id']: c['level_claimed']['text'] for c in man['checks']}
    for l in out.strip().split('\n'):
        pid, rules = l.split(' ', 1) if ' ' in l else (l, '')
        t = txt.get(pid, '')
        dec = t.split('Decided: ', 1)[1] if 'Decided: ' in t else ''
        d, nd = dec.split(' Not decided: ') if ' Not decided: ' in dec else (dec, '')
        print(f"**{pid}.** Rules: {', '.join(sorted(set(rules.split(','))))}.\n*Decided:* {d}\n*Not decided:* {nd}\n")
elif what == 'fixes':
    log = subprocess.run("git -C /repo log --reverse --format='%h|%s' c4ebdd5..HEAD", shell=True, capture_output=True, text=True).stdout
    fixed = {}
    for l in open('known_findings.jsonl'):
        l = l.strip()
        if l.startswith('{'):
            f = json.loads(l)
            if f['status'] == 'fixed':
                fixed.setdefault(f['commit'], []).append(f)
    print('| commit | repair | rule → property | what failed before |\n|---|---|---|---|')
    for l in log.strip().split('\n'):
        h, s = l.split('|', 1)
        fs = fixed.get(h, [])
        rp = '; '.join(f"{f['rule']} → {f['property']}" for f in fs) or '(see commit message)'
        wf = ' / '.join(f['what'] for f in fs) or ''
        print(f"| `{h}` | {s[5:]} | {rp} | {wf} |")
elif what == 'seeded':
    rows = []
    for d in sorted(glob.glob('seeded/*/')):
        m = json.load(open(d + 'meta.json'))
        det = m.get('detected_by')
        rows.append((os.path.basename(d.rstrip('/')), m['property'], m['breaks'][:150].replace('|', '/').replace('\n', ' '), (', '.join(det['rules']) + ' (' + ' '.join(det['properties']) + ')') if det else '— not detected'))
    print('| mutant | target | change | caught by (properties whose check fires) |\n|---|---|---|---|')
    for r in rows:
        print('| ' + ' | '.join(r) + ' |')
    n = sum(1 for r in rows if not r[3].startswith('—'))
    print(f"\n{n} of {len(rows)} seeded changes are reported.")

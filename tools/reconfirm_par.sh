#!/bin/bash
# Re-confirms every seeded change against the CURRENT /repo tree (after later fix: commits):
# in a scratch copy, the demo must FAIL with the patch and PASS without it. Prints one line per change.
# usage: tools/reconfirm_par.sh [regex] [jobs]
cd /verif
pat=${1:-.}
jobs=${2:-8}
one() {
  n=$1
  d=/tmp/dgrc_$n
  rm -rf $d; mkdir -p $d
  rsync -a --exclude .git /repo/ $d/; git -C $d init -q 2>/dev/null
  export GOFLAGS=-mod=mod GOPROXY=off GOSUMDB=off GOTOOLCHAIN=local
  read -r demo copyto run < <(python3 - "$n" <<'PY'
import json,sys
m=json.load(open(f'/verif/seeded/{sys.argv[1]}/meta.json'))
d=m['demo']
print(d['file'], d['copy_to'], '\x01'+d['run'])
PY
)
  run=$(python3 -c "import json;print(json.load(open('/verif/seeded/$n/meta.json'))['demo']['run'])")
  cp /verif/seeded/$n/$demo $d/$copyto
  if ! (cd $d && patch -p1 -s --no-backup-if-mismatch < /verif/seeded/$n/patch.diff >/dev/null 2>&1); then echo "$n | PATCH FAILED"; rm -rf $d; return; fi
  (cd $d && eval "$run" >/dev/null 2>&1); with=$?
  (cd $d && patch -R -p1 -s --no-backup-if-mismatch < /verif/seeded/$n/patch.diff >/dev/null 2>&1)
  (cd $d && eval "$run" >/dev/null 2>&1); without=$?
  rm -rf $d
  if [ $with -ne 0 ] && [ $without -eq 0 ]; then echo "$n | ok"; else echo "$n | STALE with=$with without=$without"; fi
}
export -f one
ls seeded | grep -E "$pat" | xargs -P $jobs -I{} bash -c 'one {}' | sort | tee /tmp/reconfirm.txt
echo "ok: $(grep -c '| ok' /tmp/reconfirm.txt) of $(wc -l < /tmp/reconfirm.txt)"

#!/usr/bin/env python3
"""Confirm a candidate mutant in a scratch worktree (never /repo) and, when confirmed, file it under
/verif/seeded/<name>/ (patch.diff, demo test, meta.json).
usage: confirmmutant.py <mutant_dir> <property> <name>"""
import sys, os, re, subprocess, json, shutil, glob
mdir, prop, name = sys.argv[1], sys.argv[2], sys.argv[3]
WT = '/tmp/wt/confirm'
ENV = dict(os.environ, GOFLAGS='-mod=mod', GOPROXY='off', GOSUMDB='off', GOTOOLCHAIN='local')
def sh(cmd, cwd=WT, check=False):
    r = subprocess.run(cmd, shell=True, cwd=cwd, env=ENV, capture_output=True, text=True)
    return r.returncode, (r.stdout + r.stderr)
if not os.path.isdir(WT):
    rc, out = sh(f'git -C /repo worktree add --detach {WT} HEAD -q', cwd='/')
    assert rc == 0, out
sh('git checkout -q --detach ' + subprocess.check_output('git -C /repo rev-parse HEAD', shell=True, text=True).strip())
sh('git checkout -- . && git clean -fdq')
patch = os.path.join(mdir, 'patch.diff')
demos = glob.glob(os.path.join(mdir, 'zz_demo_mut*_test.go'))
assert demos, 'no demo'
demo = demos[0]
src = open(demo).read()
pkg = re.search(r'^package (\w+)', src, re.M).group(1)
dirs = {'binary': 'proto/binary', 'thrift': 'thrift', 'j2p': 'conv/j2p', 'p2j': 'conv/p2j', 'j2t': 'conv/j2t', 't2j': 'conv/t2j',
        'protowire': 'proto/protowire', 'annotation': 'thrift/annotation', 'proto': 'proto', 'http': 'http', 'caching': 'internal/caching', 'util': 'internal/util', 'json': 'internal/json', 'native': 'internal/native', 'types': 'internal/native/types', 'rt': 'internal/rt', 'sse': 'internal/native/sse', 'avx': 'internal/native/avx', 'avx2': 'internal/native/avx2', 'conv': 'conv', 'conv_test': 'conv'}
if pkg == 'generic':
    d = 'proto/generic' if re.search(r'"github.com/cloudwego/dynamicgo/proto(/binary|/protowire)?"', src) and not re.search(r'dynamicgo/thrift"', src) else 'thrift/generic'
    # in-package tests may import nothing: fall back on the patched file / helper names
    if 'dynamicgo/proto' not in src and 'dynamicgo/thrift' not in src:
        d = 'proto/generic' if 'proto/' in open(patch).read().split('\n')[0] or 'proto.' in src else 'thrift/generic'
else:
    d = dirs[pkg]
res = {'property': prop, 'name': name, 'demo_package': d}
rc, out = sh(f'git apply {patch}')
if rc != 0:
    print('PATCH DOES NOT APPLY', out); sys.exit(1)
rc, out = sh('go build ./...')
res['builds'] = rc == 0
rc, out = sh('/verif/tools/suite.sh', cwd='/'); 
rc, out = subprocess.run('/verif/tools/suite.sh', shell=True, env=dict(ENV, DGREPO=WT), capture_output=True, text=True).returncode, ''
res['suite_passes_with_change'] = rc == 0
shutil.copy(demo, os.path.join(WT, d, os.path.basename(demo)))
tests = '|'.join(re.findall(r'^func (Test\w+)\(', src, re.M))
notes_txt = open(os.path.join(mdir, 'notes.txt')).read() if os.path.exists(os.path.join(mdir, 'notes.txt')) else ''
TAGS = '-tags go1.25 ' if 'tags go1.25' in notes_txt or 'tags=go1.25' in notes_txt else ''
res['demo_tags'] = TAGS.strip()
rc, out = sh(f"go test {TAGS}-vet=off -count=1 -run '^({tests})$' ./{d}/")
res['demo_fails_with_change'] = rc != 0
res['demo_output_with_change'] = '\n'.join(out.strip().split('\n')[-12:])
sh(f'git apply -R {patch}')
rc, out2 = sh(f"go test {TAGS}-vet=off -count=1 -run '^({tests})$' ./{d}/")
res['demo_passes_without_change'] = rc == 0
sh('git checkout -- . && git clean -fdq')
ok = all(res[k] for k in ['builds', 'suite_passes_with_change', 'demo_fails_with_change', 'demo_passes_without_change'])
res['confirmed'] = ok
print(name, 'CONFIRMED' if ok else 'REJECTED', {k: v for k, v in res.items() if k != 'demo_output_with_change'})
if ok:
    dst = f'/verif/seeded/{name}'
    os.makedirs(dst, exist_ok=True)
    shutil.copy(patch, dst + '/patch.diff')
    shutil.copy(demo, dst + '/' + os.path.basename(demo) + '.txt')
    notes = open(os.path.join(mdir, 'notes.txt')).read() if os.path.exists(os.path.join(mdir, 'notes.txt')) else ''
    meta = {'property': prop, 'breaks': notes.strip().split('\n')[0][:400], 'needs_to_manifest': notes.strip()[:1500],
            'demo': {'file': os.path.basename(demo) + '.txt', 'copy_to': d + '/' + os.path.basename(demo), 'run': f"go test {TAGS}-vet=off -count=1 -run '^({tests})$' ./{d}/"},
            'confirmed_by': 'tools/confirmmutant.py in scratch worktree /tmp/wt/confirm: go build ./... ok; tools/suite.sh 616/616 with the change; demo FAILS with the change and PASSES without it',
            'demo_output_with_change_tail': res['demo_output_with_change'], 'base_commit': subprocess.check_output('git -C /repo rev-parse --short HEAD', shell=True, text=True).strip(),
            'detected_by': None}
    json.dump(meta, open(dst + '/meta.json', 'w'), indent=1)

#!/bin/bash
# parallel variant of tryall: each seeded mutant is applied to its own scratch copy of /repo
# (outside /repo and /verif, removed afterwards) and analysed with DGREPO=<copy>.
cd /verif
pat=${1:-.}
jobs=${2:-6}
one() {
  n=$1
  d=/tmp/dgmut_$n
  rm -rf $d; mkdir -p $d
  rsync -a --exclude .git /repo/ $d/
  if ! (cd $d && patch -p1 -s < /verif/seeded/$n/patch.diff); then echo "$n | PATCH FAILED"; rm -rf $d; return; fi
  out=$(DGREPO=$d DGEVIDENCE=$d/.ev /verif/bin/dgcheck all quick 2>&1)
  fired=$(echo "$out" | grep -o 'VIOLATION property=C[0-9]*' | sort -u | sed 's/VIOLATION property=//' | tr '\n' ' ')
  rules=$(echo "$out" | grep -B1 "^VIOLATION" | grep "^dgcheck: " | awk '{print $2}' | sort -u | tr '\n' ' ')
  broken=$(echo "$out" | grep -c BROKEN)
  rm -rf $d
  echo "$n | fired: $fired| rules: $rules| broken=$broken"
  python3 - "/verif/seeded/$n" "$fired" "$rules" <<'PY'
import json,sys
d,fired,rules=sys.argv[1],sys.argv[2].split(),sys.argv[3].split()
m=json.load(open(d+'/meta.json'))
m['detected_by']={'properties':fired,'rules':rules} if fired else None
m['ran']='tools/tryall_par.sh: patch applied to a scratch copy of /repo; DGREPO=<copy> ./bin/dgcheck all quick; copy removed (equivalent to: git -C /repo apply patch.diff; ./dgcheck.sh <Cxx> quick; git -C /repo checkout -- .)'
json.dump(m,open(d+'/meta.json','w'),indent=1)
PY
}
export -f one
ls seeded | grep -E "$pat" | xargs -P $jobs -I{} bash -c 'one {}' | sort | tee /tmp/tryall_par.txt
echo "caught: $(grep -c 'fired: C' /tmp/tryall_par.txt) of $(wc -l < /tmp/tryall_par.txt)"

#!/bin/bash
# runs every seeded mutant (or those matching $1) through all checks; writes /tmp/tryall.txt and
# updates seeded/<name>/meta.json "detected_by".
cd /verif
pat=${1:-}
for d in seeded/*${pat}*/; do
  n=$(basename $d)
  out=$(./tools/trymutant.sh /verif/$d/patch.diff 2>&1)
  fired=$(echo "$out" | grep "^exit=" | sed 's/.*FIRED: //')
  rules=$(echo "$out" | grep -v "^VIOLATION\|^exit=" | awk '{print $1}' | sort -u | tr '\n' ' ')
  echo "$n | $(python3 -c "import json;print(json.load(open('$d/meta.json'))['breaks'][:110])") | fired: $fired | rules: $rules"
  python3 - "$d" "$fired" "$rules" <<'PY'
import json,sys
d,fired,rules=sys.argv[1],sys.argv[2].split(),sys.argv[3].split()
m=json.load(open(d+'/meta.json'))
m['detected_by']={'properties':fired,'rules':rules} if fired else None
m['ran']='tools/trymutant.sh: git -C /repo apply patch.diff; ./bin/dgcheck all quick; git -C /repo checkout -- .'
json.dump(m,open(d+'/meta.json','w'),indent=1)
PY
done | tee /tmp/tryall.txt

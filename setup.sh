#!/bin/bash
# Builds the checker offline from /verif sources (module cache only).
set -e
cd "$(dirname "$0")"
export GOFLAGS=-mod=mod GOPROXY=off GOSUMDB=off GOTOOLCHAIN=local GOWORK=off
unset GOARCH GOOS
mkdir -p bin evidence
go build -o bin/dgcheck ./cmd/dgcheck
echo "dgcheck built: $(./bin/dgcheck rules | wc -l) rules"
